#!/bin/bash
# tools/seedpass.sh [jobs] : run ./check (quick) for every seed in seeded/ against its patched scratch worktree,
# record verified.json, print one line per seed.  Seeds whose check is not reported are listed at the end.
cd "$(dirname "$0")/.."
J=${1:-5}
ls -d seeded/*/ | sed 's|/$||' | while read d; do grep -q '"obsolete"' $d/meta.json || echo $d; done | xargs -P "$J" -I{} sh -c 'python3 tools/seedcheck.py {} --record 2>/dev/null | python3 -c "
import json,sys
try:
    r=json.load(sys.stdin)
except Exception as e:
    print(\"{} seedcheck-failed\"); sys.exit()
for k,v in r.items():
    if k.startswith(\"check_\"):
        nfi = bool(v[\"violations\"]) and all(\"no-failing\" in x for x in v[\"violations\"])
        print(r[\"seed\"].split(\"/\")[-1], k[6:], \"REPORTED\" if v[\"rc\"]==1 and v[\"violations\"] else \"NOT-REPORTED rc=%s\" % v[\"rc\"], \"(no-failing-input)\" if nfi else \"\", \"|\", v[\"summary\"][-60:])
"' | sort
