#!/usr/bin/env python3
"""Run every claimed check (MANIFEST.json) and summarise:  tools/runall.py [quick|thorough] [-j N] [--seed S] [C01 C02 ...]"""
import concurrent.futures
import json
import os
import subprocess
import sys
import time

VERIF = os.path.dirname(os.path.dirname(os.path.abspath(__file__)))
args = sys.argv[1:]
tier = "quick"
jobs = 4
seed = None
only = []
i = 0
while i < len(args):
    if args[i] in ("quick", "thorough"):
        tier = args[i]
    elif args[i] == "-j":
        jobs = int(args[i + 1]); i += 1
    elif args[i] == "--seed":
        seed = args[i + 1]; i += 1
    else:
        only.append(args[i].upper())
    i += 1
m = json.load(open(os.path.join(VERIF, "MANIFEST.json")))
checks = [c for c in m["checks"] if not only or c["property_id"] in only]


def one(c):
    cmd = c["quick_cmd"] if tier == "quick" else c.get("thorough_cmd", c["quick_cmd"])
    env = dict(os.environ, VERIF_TIER=tier)
    if seed is not None:
        env["VERIF_SEED"] = seed
    t0 = time.time()
    try:
        r = subprocess.run(cmd, shell=True, cwd=VERIF, env=env, capture_output=True, text=True, timeout=3600)
        rc, out = r.returncode, r.stdout + r.stderr
    except subprocess.TimeoutExpired:
        rc, out = 124, "TIMEOUT"
    return c["property_id"], rc, time.time() - t0, out


bad = 0
with concurrent.futures.ThreadPoolExecutor(max_workers=jobs) as ex:
    for pid, rc, secs, out in ex.map(one, checks):
        lines = out.strip().splitlines()
        viol = [l for l in lines if l.startswith("VIOLATION")]
        known = [l for l in lines if l.startswith("KNOWN-FINDING")]
        print("%s rc=%d %.0fs violations=%d known=%d | %s" % (pid, rc, secs, len(viol), len(known), lines[-1][:160] if lines else ""))
        for l in viol[:5]:
            print("    " + l[:200])
        if rc != 0 or viol:
            bad += 1
            log = os.path.join("/var/tmp", "runall_%s.log" % pid)
            open(log, "w").write(out)
            print("    full output: " + log)
print("%d checks, %d needing attention" % (len(checks), bad))
sys.exit(1 if bad else 0)
