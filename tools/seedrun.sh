#!/bin/bash
# tools/seedrun.sh [-j N] <seed dir>... : run ./check (quick) for the given seeds, record verified.json, one line per seed
cd "$(dirname "$0")/.."
J=5; if [ "$1" = "-j" ]; then J=$2; shift 2; fi
printf '%s\n' "$@" | sed 's|/$||' | xargs -P "$J" -I{} sh -c 'python3 tools/seedcheck.py {} --record 2>/dev/null | python3 -c "
import json,sys
try:
    r=json.load(sys.stdin)
except Exception as e:
    print(\"{} seedcheck-failed\"); sys.exit()
for k,v in r.items():
    if k.startswith(\"check_\"):
        nfi = bool(v[\"violations\"]) and all(\"no-failing\" in x for x in v[\"violations\"])
        print(r[\"seed\"].split(\"/\")[-1], k[6:], \"REPORTED\" if v[\"rc\"]==1 and v[\"violations\"] else \"NOT-REPORTED rc=%s\" % v[\"rc\"], \"(no-failing-input)\" if nfi else \"\", [x.split(\"replays/\")[-1][:60] for x in v[\"violations\"][:2]], \"|\", v[\"summary\"].split(\":\",1)[-1][:90])
"' | sort
