"""C05 / C04(list part) implementation driver: executes list histories on the real TraitList /
TraitListObject of the tree under test and records canonical observations.

stdin: {"mode": "hist", "cases": [case...]}            -> [[obs per step] per case]
       {"mode": "grid", "target":..., "vk":..., "init": [...], "ops": [...], "bs": n,
        "minlen":..., "maxlen":...}                     -> [digest per block of bs single-op cases]
       {"mode": "indices", "n": len, "slices": [[a,b,c]...], "bs": n} -> [digest per block]
       {"mode": "normalize", "cases": [[len, [a,b,c]]...]} -> what _normalize_slice_or_index and a real
                                                              TraitList do on each witness
case: {"target": "plain"|"obj", "vk": "VAll|VInt|VCInt", "init": [atoms], "ops": [...],
       "minlen": int (obj), "maxlen": int|None (obj)}
"""
import copy
import operator
import sys
import os

sys.path.insert(0, os.path.dirname(os.path.abspath(__file__)))
import dlib  # noqa: E402

from traits.api import Any, CInt, HasTraits, Instance, Int, List, TraitError, TraitType, Undefined  # noqa: E402
from traits.trait_list_object import TraitList, TraitListObject  # noqa: E402

EXN = ["IndexError", "ValueError", "TraitError", "TypeError", "OverflowError"]
M61 = 2305843009213693951


# identity pool: atoms >= 1000 are 1000*j + v, the j-th distinct object with the value atom v; the objects of one case
# are created once, kept alive, and recognised again by identity (reset_pool() at the start of every case)
_POOL = {}
_IDS = {}


def reset_pool():
    _POOL.clear()
    _IDS.clear()


def pooled(a):
    if a not in _POOL:
        v = a % 1000
        obj = float(v - 300) if 300 <= v < 400 else tuple([1]) if v == 201 else float("nan") if v == 500 else None
        if obj is None:
            raise ValueError(a)
        _POOL[a] = obj
        _IDS[id(obj)] = a
    return _POOL[a]


def val(a):
    if a >= 1000:
        return pooled(a)
    if 0 <= a < 100:
        return a
    if 100 <= a < 200:
        return str(a - 100)
    if a == 200:
        return None
    if a == 201:
        return (1,)
    if a == 202:
        return Undefined               # the traits "no value yet" placeholder: no Int / CInt / Instance accepts it
    if a == 203:
        return CELL
    if 300 <= a < 400:
        return float(a - 300)          # equal to the int a - 300, but not the same value
    raise ValueError(a)


def atom(v):
    a = _IDS.get(id(v))
    if a is not None and _POOL.get(a) is v:
        return a
    if type(v) is int:
        return v
    if type(v) is str:
        return 100 + int(v)
    if v is None:
        return 200
    if type(v) is tuple and v == (1,):
        return 201
    if v is Undefined:
        return 202
    if isinstance(v, Cell):
        return 203
    if type(v) is float and v != v:
        return 500                      # a NaN that is not one of the pooled objects
    if type(v) is float and v == int(v) and 0 <= v < 100:
        return 300 + int(v)
    return 999          # anything else (a value no case ever offers): a sentinel outside every finite range


def v_int(x):
    if type(x) is not int:
        raise TraitError("not an int")
    return x


def v_cint(x):
    try:
        return int(x)
    except (TypeError, ValueError):
        raise TraitError("not convertible")


class Cell(HasTraits):
    """the class the forward reference Instance("Cell") of the VInst inner trait names; one value (atom 203): every
    Cell equals every other, so that copies and unpickled Cells are still found by remove / index / in"""

    def __eq__(self, other):
        return isinstance(other, Cell)

    def __hash__(self):
        return 203


CELL = Cell()


def v_inst(x):
    if x is None or isinstance(x, Cell):
        return x
    raise TraitError("not a Cell or None")


def v_inc(x):
    """a non-idempotent conversion: validating twice would be visible"""
    if type(x) is int and 0 <= x < 90:
        return x + 1
    raise TraitError("not in 0..89")


class IncTrait(TraitType):
    def validate(self, object, name, value):
        if type(value) is int and 0 <= value < 90:
            return value + 1
        self.error(object, name, value)


VALIDATORS = {"VAll": None, "VInt": v_int, "VCInt": v_cint, "VInc": v_inc, "VInst": v_inst}
INNER = {"VAll": Any, "VInt": Int, "VCInt": CInt, "VInc": IncTrait}


def inner_trait(vk):
    """the inner trait of a container; VInst is a forward reference by name, resolved at the first validation"""
    return Instance("Cell") if vk == "VInst" else INNER[vk]


def raw_init(vk, a):
    """the raw value whose validated form is the atom a (initial contents are validated too)"""
    return a - 1 if vk == "VInc" else val(a)

_classes = {}


def falsy_members(falsy):
    """an owner that is falsy while it is operated on (an empty collection-like model object): "len" defines
    __len__ returning 0, "bool" defines __bool__ returning False"""
    if falsy == "len":
        return {"__len__": lambda self: 0}
    if falsy == "bool":
        return {"__bool__": lambda self: False}
    return {}


def owner_class(vk, minlen, maxlen, falsy=None):
    key = (vk, minlen, maxlen, falsy)
    if key not in _classes:
        kw = {"minlen": minlen}
        if maxlen is not None:
            kw["maxlen"] = maxlen
        members = {"l": List(inner_trait(vk), **kw)}
        members.update(falsy_members(falsy))
        _classes[key] = type("H%d" % len(_classes), (HasTraits,), members)
    return _classes[key]


class Idx:
    """an integer-like key that is not an int: only __index__"""

    def __init__(self, n):
        self.n = n

    def __index__(self):
        return self.n


def int_key(op, i):
    """the integer subscript of l[i] = v / del l[i]: an int, or (trailing marker) an object with __index__ only /
    a numpy integer -- list accepts all of them"""
    if op[-1] == "idx":
        return Idx(i)
    if op[-1] == "numpy":
        try:
            import numpy
            return numpy.int64(i)
        except ImportError:
            return i
    return i


def make(case):
    init = [raw_init(case["vk"], a) for a in case["init"]]
    if case["target"] == "plain":
        return None, TraitList(init, item_validator=VALIDATORS[case["vk"]])
    owner = owner_class(case["vk"], case.get("minlen", 0), case.get("maxlen"), case.get("falsy"))()
    owner.l = init
    return owner, owner.l


def enc_index(i):
    if isinstance(i, slice):
        if all(type(x) is int for x in (i.start, i.stop, i.step)):
            return ["S", i.start, i.stop, i.step]
        return ["I", -1000001]          # not a fully specified slice: never in normal form
    if type(i) is int:
        return ["I", i]
    return ["I", -1000002]


def sl(t):
    return slice(t[0], t[1], t[2])


def arg_list(tl, op, atoms):
    """The iterable argument of extend / += / slice assignment: a plain list, or (trailing "loose" marker) a deep
    copy of the trait list itself -- same class, same validator / trait, no owner -- filled with exactly these raw
    items through the built-in base class, so that nothing has validated them."""
    if op[-1] == "self":
        return tl                          # the receiver itself: tl.extend(tl), tl += tl, tl[a:b] = tl
    items = [val(a) for a in atoms]
    if op[-1] == "loose" and isinstance(tl, list):
        c = copy.deepcopy(tl)
        list.clear(c)
        list.extend(c, items)
        return c
    if op[-1] == "gen":
        return (x for x in items)          # a one-shot iterable without len()
    if op[-1] == "tuple":
        return tuple(items)
    return items


def multiplier(op):
    """["Imul", n] an int; ["Imul", n, "bool"|"numpy"] the same number as a bool / numpy integer;
    ["ImulQ", p, q, "float"|"fraction"|"decimal"] the number p/q (q a power of two: exact) as a non-integer type"""
    if op[0] == "Imul":
        kind = op[2] if len(op) > 2 else "int"
        if kind == "bool":
            return bool(op[1])
        if kind == "numpy":
            try:
                import numpy
                return numpy.int64(op[1])
            except ImportError:
                return op[1]
        return op[1]
    p, q, kind = op[1], op[2], op[3]
    if kind == "fraction":
        from fractions import Fraction
        return Fraction(p, q)
    if kind == "decimal":
        from decimal import Decimal
        return Decimal(p) / Decimal(q)
    return float(p) / float(q)


def apply_op(tl, op):
    """Returns the atom returned by the operation (pop) or None."""
    k = op[0]
    if k == "SetInt":
        tl[int_key(op, op[1])] = val(op[2])
    elif k == "SetSlice":
        tl[sl(op[1])] = arg_list(tl, op, op[2])
    elif k == "DelInt":
        del tl[int_key(op, op[1])]
    elif k == "DelSlice":
        del tl[sl(op[1])]
    elif k == "Append":
        tl.append(val(op[1]))
    elif k == "Extend":
        tl.extend(arg_list(tl, op, op[1]))
    elif k == "Iadd":
        r = operator.iadd(tl, arg_list(tl, op, op[1]))
        if r is not tl:
            raise RuntimeError("+= returned a new object")
    elif k in ("Imul", "ImulQ"):
        r = operator.imul(tl, multiplier(op))
        if r is not tl:
            raise RuntimeError("*= returned a new object")
    elif k == "SortPos":
        if op[1] == "none-true":
            tl.sort(None, True)
        elif op[1] == "len":
            tl.sort(len)
        else:
            tl.sort(None)
    elif k == "SetSliceN":
        tl[sl(op[1])] = {"none": None, "zero": 0, "false": False}[op[2]]
    elif k == "ExtendN":
        tl.extend({"none": None, "zero": 0, "false": False}[op[1]])
    elif k == "InsertX":
        tl.insert(Idx(op[1]), val(op[2]))
    elif k == "PopX":
        return atom(tl.pop(Idx(op[1])))
    elif k == "ImulX":
        r = operator.imul(tl, Idx(op[1]))
        if r is not tl:
            raise RuntimeError("*= returned a new object")
    elif k == "Insert":
        tl.insert(op[1], val(op[2]))
    elif k == "Pop":
        return atom(tl.pop() if op[1] is None else tl.pop(op[1]))
    elif k == "Remove":
        tl.remove(val(op[1]))
    elif k == "Reverse":
        tl.reverse()
    elif k == "Sort":
        m = op[2] if len(op) > 2 else 0
        if m:
            tl.sort(key=lambda v: atom(v) % m, reverse=bool(op[1]))
        elif all(type(x) is int for x in tl):
            tl.sort(reverse=bool(op[1]))
        else:
            tl.sort(key=atom, reverse=bool(op[1]))
    elif k == "Clear":
        tl.clear()
    else:
        raise ValueError(k)
    return None


def run_ops(tl, ops, owner=None, channel="notifier"):
    """channel: how the change events are received -- "notifier": a callable in tl.notifiers;
    "observe": an observe() handler on "l:items" (ListChangeEvent built by
    observation/_list_change_event.list_event_factory); "items": a legacy on_trait_change handler on
    "l_items" (TraitListEvent fired by TraitListObject.notifier)."""
    events = []

    def rec(trait_list, index, removed, added):
        if trait_list is not tl:
            index = "not-this-list"
        events.append([enc_index(index), [atom(v) for v in removed], [atom(v) for v in added]])

    if channel == "notifier" or owner is None:
        if isinstance(getattr(tl, "notifiers", None), list):     # not a trait list at all: nothing to listen to
            tl.notifiers.append(rec)
    elif channel == "observe":
        owner.observe(lambda ev: rec(ev.object, ev.index, ev.removed, ev.added), "l:items")
    elif channel == "items":
        owner.on_trait_change(lambda ev: rec(tl, ev.index, ev.removed, ev.added), "l_items")
    else:
        raise ValueError(channel)
    hist = []
    for op in ops:
        del events[:]
        out, ret = "Ok", None
        try:
            ret = apply_op(tl, op)
        except Exception as e:  # noqa
            out = dlib.exn_name(e, EXN)
        hist.append({"out": out, "after": [atom(v) for v in tl], "events": [list(e) for e in events], "ret": ret})
    return hist


def run_copy_case(case):
    """["Copy", kind] first: the list is copied (copy.copy / copy.deepcopy / pickle round trip), the history continues on
    the copy.  The first observation is that of the copy itself: outcome, contents, and "fresh": none of the
    original's notifiers is called by the copy."""
    import pickle
    reset_pool()
    owner, tl = make(case)
    marks = []
    before = list(tl)
    old = lambda *a: marks.append(1)  # noqa
    tl.notifiers.append(old)
    kind = case["ops"][0][1]
    try:
        new = copy.copy(tl) if kind == "copy" else copy.deepcopy(tl) if kind == "deep" else pickle.loads(pickle.dumps(tl))
    except Exception as e:  # noqa
        return [{"out": dlib.exn_name(e, EXN), "after": [], "events": [], "ret": None, "fresh": True}]
    fresh = type(new) is type(tl) and new is not tl and old not in new.notifiers
    first = {"out": "Ok", "after": [atom(v) for v in new], "events": [], "ret": None}
    rest = run_ops(new, case["ops"][1:])
    first["fresh"] = bool(fresh and not marks)        # nothing done to the copy reached the original's notifier
    if len(tl) != len(before) or any(x is not y for x, y in zip(tl, before)):
        first["fresh"] = False                          # ... nor changed the original
    return [first] + rest


def run_react_case(case):
    """A notifier (registered after the recorder) keeps the list bounded: told about added items while the list is longer
    than K it pops the oldest one -- a nested operation on the list it is being notified about.  Per top-level operation:
    the observation of the operation itself (contents as of its own notification) and, under "react", that of the pop."""
    reset_pool()
    owner, tl = make(case)
    K = case["react"]
    log = []          # (event, contents at the time of the event)
    pops = []

    def rec(trait_list, index, removed, added):
        log.append(([enc_index(index), [atom(v) for v in removed], [atom(v) for v in added]], [atom(v) for v in tl]))

    def bound(trait_list, index, removed, added):
        if added and len(trait_list) > K and not pops:
            pops.append(None)
            try:
                pops[0] = ("Ok", atom(trait_list.pop(0)))
            except Exception as e:  # noqa
                pops[0] = (dlib.exn_name(e, EXN), None)

    tl.notifiers.append(rec)
    tl.notifiers.append(bound)
    hist = []
    for op in case["ops"]:
        del log[:]
        del pops[:]
        out, ret = "Ok", None
        try:
            ret = apply_op(tl, op)
        except Exception as e:  # noqa
            out = dlib.exn_name(e, EXN)
        final = [atom(v) for v in tl]
        if pops:
            first = log[:1]
            ob = {"out": out, "after": first[0][1] if first else final, "events": [e for e, _ in first], "ret": ret,
                  "react": {"out": pops[0][0], "after": final, "events": [e for e, _ in log[1:]], "ret": pops[0][1]}}
        else:
            ob = {"out": out, "after": final, "events": [e for e, _ in log], "ret": ret, "react": None}
        hist.append(ob)
    return hist


def run_case(case):
    if case.get("react") is not None:
        return run_react_case(case)
    if case["ops"] and case["ops"][0][0] == "Copy":
        return run_copy_case(case)
    reset_pool()
    owner, tl = make(case)
    return run_ops(tl, case["ops"], owner, case.get("channel", "notifier"))


# ---- canonical integer encoding of an observation (same as C05/Corr.v enc_obs) ----
ECODE = {"Ok": 0, "IndexError": 1, "ValueError": 2, "TraitError": 3, "TypeError": 4, "OtherError": 5, "OverflowError": 6}


def enc_obs(ob):
    out = [ECODE[ob["out"]], len(ob["after"])] + ob["after"] + [len(ob["events"])]
    for idx, rem, add in ob["events"]:
        out += ([0, idx[1]] if idx[0] == "I" else [1, idx[1], idx[2], idx[3]])
        out += [len(rem)] + rem + [len(add)] + add
    out += [0] if ob["ret"] is None else [1, ob["ret"]]
    return out


def fdigest(xs):
    h = 0
    for c in xs:
        h = ((h << 5) + h + c + 7) & M61
    return h


def run_grid(p):
    digs = []
    ops, bs = p["ops"], p["bs"]
    case = dict(target=p["target"], vk=p["vk"], init=p["init"], minlen=p.get("minlen", 0), maxlen=p.get("maxlen"))
    for b in range(0, len(ops), bs):
        enc = []
        for op in ops[b:b + bs]:
            reset_pool()
            owner, tl = make(case)
            enc += enc_obs(run_ops(tl, [op])[0])
        digs.append(fdigest(enc))
    return digs


def run_indices(p):
    digs = []
    sls, bs, n = p["slices"], p["bs"], p["n"]
    for b in range(0, len(sls), bs):
        enc = []
        for t in sls[b:b + bs]:
            enc += list(sl(t).indices(n))
        digs.append(fdigest(enc))
    return digs


def run_normalize(p):
    """Witnesses of a broken normalisation obligation, executed on a real TraitList."""
    from traits.trait_list_object import _normalize_slice_or_index
    res = []
    for n, t in p["cases"]:
        s = sl(t)
        try:
            rv, k = _normalize_slice_or_index(s, n)
            norm = [bool(rv), enc_index(k)]
        except Exception as e:  # noqa
            norm = ["raise", type(e).__name__]
        init = list(range(10, 10 + n))
        d = run_ops(TraitList(init), [["DelSlice", t]])[0]
        cnt = len(range(*s.indices(n)))
        a = run_ops(TraitList(init), [["SetSlice", t, list(range(90, 90 + cnt))]])[0]
        res.append({"normalize": norm, "init": init, "del": d, "set": a, "set_values": list(range(90, 90 + cnt))})
    return res


def main():
    p = dlib.load()
    if isinstance(p, list):          # vlib.hist passes the bare list of cases
        p = {"mode": "hist", "cases": p}
    mode = p["mode"]
    if mode == "hist":
        dlib.dump([run_case(c) for c in p["cases"]])
    elif mode == "grid":
        dlib.dump(run_grid(p))
    elif mode == "indices":
        dlib.dump(run_indices(p))
    elif mode == "normalize":
        dlib.dump(run_normalize(p))
    else:
        raise ValueError(mode)


if __name__ == "__main__":
    main()
