"""C15 implementation driver: parse / compile_str of the tree under test on texts.

stdin: {"mode": "cases", "cases": [{"kind": "single", "s": text} | {"kind": "pair", "s1": text, "s2": text}]}
       -> list of observations
   or  {"mode": "grid", "shards": [{"L": L, "start": i, "bs": block size, "nb": number of blocks}], "procs": n}
       -> per shard {"digests": [...], "accepted": [indices], "cerr": [indices], "other": [indices]}
An outcome is {"o": "rej"} (parse raised ValueError), {"o": "cerr"} (parse ok, compile_str raised ValueError),
{"o": "graphs", "g": [graph]} or {"o": "crash", "exc": class name} (any other exception).
graph = [node, [children]]; node = ["N", name code points, notify, optional] | ["F", notify, "any" | ["meta", cps]]
| ["D"|"L"|"S", notify, optional] | ["X", class name]."""
import multiprocessing
import os
import sys

sys.path.insert(0, os.path.dirname(os.path.abspath(__file__)))
import dlib  # noqa: E402
import c15_enc as enc  # noqa: E402

from traits.api import Any, Dict, HasTraits, Instance, Int, List, Set, Str  # noqa: E402
from traits.observation import expression, parsing  # noqa: E402
from traits.observation._anytrait_filter import anytrait_filter  # noqa: E402
from traits.observation._dict_item_observer import DictItemObserver  # noqa: E402
from traits.observation._filtered_trait_observer import FilteredTraitObserver  # noqa: E402
from traits.observation._list_item_observer import ListItemObserver  # noqa: E402
from traits.observation._metadata_filter import MetadataFilter  # noqa: E402
from traits.observation._named_trait_observer import NamedTraitObserver  # noqa: E402
from traits.observation._observer_graph import ObserverGraph  # noqa: E402
from traits.observation._set_item_observer import SetItemObserver  # noqa: E402


def cps(s):
    return [ord(c) for c in s]


def node(n):
    t = type(n)
    if t is NamedTraitObserver:
        return ["N", cps(n.name), bool(n.notify), bool(n.optional)]
    if t is FilteredTraitObserver:
        f = n.filter
        if f is anytrait_filter:
            return ["F", bool(n.notify), "any"]
        if type(f) is MetadataFilter:
            return ["F", bool(n.notify), ["meta", cps(f.metadata_name)]]
        return ["X", "filter:" + type(f).__name__]
    if t is DictItemObserver:
        return ["D", bool(n.notify), bool(n.optional)]
    if t is ListItemObserver:
        return ["L", bool(n.notify), bool(n.optional)]
    if t is SetItemObserver:
        return ["S", bool(n.notify), bool(n.optional)]
    return ["X", t.__name__]


def graph(g):
    if type(g) is not ObserverGraph:
        return [["X", type(g).__name__], []]
    return [node(g.node), [graph(c) for c in g.children]]


def outcome(s, keep=False):
    """(observation, compiled graphs or None).  Both public entry points are exercised independently
    (traits.observation.api re-exports them; HasTraits.observe goes through compile_str): parse(s) and
    compile_str(s).  "o" is what compile_str did ("rej" when it raised ValueError and parse did too, "cerr" when
    only compile_str raised ValueError); "agree" is false when the two entry points contradict each other:
    parse rejects what compile_str accepts (or the reverse at parse level), or compile_expr(parse(s)) is not
    structurally what compile_str(s) returns.  The lru caches are left in place on purpose."""
    try:
        ex = parsing.parse(s)
        p = "ok"
    except ValueError:
        ex, p = None, "rej"
    except BaseException as e:   # noqa: B902  (RecursionError, lark exceptions ... are observations here)
        ex, p = None, "crash:" + type(e).__name__
    msg = None
    try:
        gs = parsing.compile_str(s)
        c = "graphs"
    except ValueError as e:
        gs, c, msg = None, "verr", str(e)
    except BaseException as e:   # noqa: B902
        gs, c = None, "crash:" + type(e).__name__
    if c == "graphs" and not isinstance(gs, list):
        return {"o": "crash", "exc": "not-a-list", "agree": True}, None
    if p.startswith("crash") or c.startswith("crash"):
        return {"o": "crash", "exc": (p if p.startswith("crash") else c)[6:], "agree": True}, None
    if c == "graphs":
        g = [graph(x) for x in gs]
        agree = p == "ok"
        if agree:
            try:
                agree = [graph(x) for x in expression.compile_expr(ex)] == g
            except BaseException:   # noqa: B902
                agree = False
        return {"o": "graphs", "g": g, "agree": agree}, gs
    if p == "ok":
        # compile_str raised ValueError after a successful parse: must be the compile step, not a second parse
        try:
            expression.compile_expr(ex)
            agree = False
        except ValueError:
            agree = True
        except BaseException:   # noqa: B902
            agree = False
        # "msg": is it the uniqueness check of ObserverGraph.__init__ (the listed finding) or another refusal?
        return {"o": "cerr", "agree": agree, "msg": "children" if msg == "Not all children are unique." else "other"}, None
    # third entry point: the HasTraits API layer (HasTraits.observe -> _compile_expression).  A text parse rejects must
    # be refused there with ValueError too, alone and inside a list.
    return {"o": "rej", "agree": api_rejects(s, lists=keep)}, None


_API_PROBE = []


def api_rejects(s, lists=True):
    if not _API_PROBE:
        _API_PROBE.append(Probe())
    p = _API_PROBE[0]
    forms = [s] + ([["a", s], [s, expression.trait("a")]] if lists else [])
    for f in forms:
        try:
            p.observe(_handler, f)
        except ValueError:
            continue
        except BaseException:   # noqa: B902
            return False
        try:
            p.observe(_handler, f, remove=True)
        except BaseException:   # noqa: B902
            pass
        return False
    return True


class Probe(HasTraits):
    a = Any()
    b = Any()
    c = Any()
    items = Any()
    name = List()


def _handler(event):
    pass


def run_single(s):
    """Outcome of the text plus `stable`: the answer is the same when asked again (lru caches warm), after the
    compiled graphs were used to hook and unhook observers on an object, and after the caches were dropped."""
    first = outcome(s, keep=True)[0]
    again = outcome(s, keep=True)[0]
    try:
        p = Probe(a=Probe(b=Probe(), name=[Probe()]), b=Probe(), name=[Probe(), Probe()])
        p.observe(_handler, s)
        p.observe(_handler, s, remove=True)
        p.observe(_handler, [s, "b"])
        p.observe(_handler, [s, "b"], remove=True)
    except BaseException:   # noqa: B902
        pass
    try:
        # mixed lists: mini-language text and expression objects, in both orders
        p.observe(_handler, [s, expression.trait("b"), expression.trait("c")])
        p.observe(_handler, [s, expression.trait("b"), expression.trait("c")], remove=True)
        p.observe(_handler, [expression.trait("b"), s, "c"])
        p.observe(_handler, [expression.trait("b"), s, "c"], remove=True)
    except BaseException:   # noqa: B902  (a missing trait etc.: the graphs were still handed out)
        pass
    used = outcome(s, keep=True)[0]
    parsing.parse.cache_clear()
    parsing.compile_str.cache_clear()
    expression.compile_expr.cache_clear()
    fresh = outcome(s, keep=True)[0]
    first["stable"] = bool(again == first and used == first and fresh == first)
    return first


def build_node(n):
    k = n[0]
    w = "".join(chr(c) for c in n[1]) if k == "N" else None
    if k == "N":
        return expression.trait(w, notify=n[2], optional=n[3])
    if k == "F":
        if n[2] == "any":
            return expression.anytrait(notify=n[1])
        return expression.metadata("".join(chr(c) for c in n[2][1]), notify=n[1])
    return {"D": expression.dict_items, "L": expression.list_items, "S": expression.set_items}[k](
        notify=n[1], optional=n[2])


def chain(a, n):
    """a.<method>(...) for a single observer n: the chaining methods of ObserverExpression."""
    k = n[0]
    if k == "N":
        return a.trait("".join(chr(c) for c in n[1]), notify=n[2], optional=n[3])
    if k == "F":
        if n[2] == "any":
            return a.anytrait(notify=n[1])
        return a.metadata("".join(chr(c) for c in n[2][1]), notify=n[1])
    return getattr(a, {"D": "dict_items", "L": "list_items", "S": "set_items"}[k])(notify=n[1], optional=n[2])


def build_expr(e, style):
    """e = ["single", node] | ["series", a, b] | ["par", a, b]; style picks among equivalent API spellings."""
    k = e[0]
    if k == "single":
        return build_node(e[1])
    if k == "par":
        return build_expr(e[1], style) | build_expr(e[2], style)
    a = build_expr(e[1], style)
    if style % 3 == 1 and e[2][0] == "single":
        return chain(a, e[2][1])
    b = build_expr(e[2], style)
    if style % 3 == 2:
        return expression.join(a, b)
    return a.then(b)


def run_expr(c):
    try:
        ex = build_expr(c["e"], c.get("style", 0))
    except BaseException as e:   # noqa: B902
        return {"o": "crash", "exc": "build:" + type(e).__name__}
    try:
        gs = expression.compile_expr(ex)
    except ValueError as e:
        return {"o": "cerr", "msg": "children" if str(e) == "Not all children are unique." else "other"}
    except BaseException as e:   # noqa: B902
        return {"o": "crash", "exc": type(e).__name__}
    return {"o": "graphs", "g": [graph(g) for g in gs]}


def _names(g, acc):
    n = g[0]
    if n[0] == "N":
        acc.add("".join(chr(c) for c in n[1]))
    for ch in g[1]:
        _names(ch, acc)


def removal_ok(s1, s2, graphs1):
    """Register a handler by the text s1 on a small object graph that has every named trait of the pattern, then
    remove it by the text s2: removal by text must match registration by text.  True when the registration itself
    is not possible on this probe (nothing to check: None)."""
    names = set()
    for g in graphs1:
        _names(g, names)
    names = sorted(names)[:8]
    try:
        cls = type(HasTraits)("Q", (HasTraits,), {n: Any() for n in names})

        def mk(d):
            o = cls()
            if d > 0:
                for n in names:
                    setattr(o, n, mk(d - 1))
            return o

        root = mk(2 if len(names) <= 4 else 1)
        root.observe(_handler, s1)
    except BaseException:   # noqa: B902
        return None
    try:
        root.observe(_handler, s2, remove=True)
    except BaseException:   # noqa: B902  (NotifierNotFound: the second spelling did not match the first)
        return False
    return True


LEAF_NAMES = ["t_true", "t_false", "t_zero", "t_empty", "t_tuple", "t_none", "t_absent", "t_other"]


class Leaf(HasTraits):
    t_true = Int(tag=True)
    t_false = Int(tag=False)
    t_zero = Int(tag=0)
    t_empty = Int(tag="")
    t_tuple = Int(tag=())
    t_none = Int(tag=None)
    t_absent = Int()
    t_other = Int(other=1)


class Root(Leaf):
    child = Instance(Leaf)
    kids = List(Instance(Leaf))
    table = Dict(Str, Instance(Leaf))
    group = Set(Instance(Leaf))


EXTRA_NAMES = {"child": 8, "kids": 10, "table": 11, "group": 12, "trait_added": 13, "trait_modified": 14, "zz_new": 16}


def run_hook(c):
    """Register a recording handler by the text on the probe heap of C15/Law.v (object numbers: 0 root, 1 child,
    2 the kids list, 3 and 4 its items, 5 the table dict, 6 its value, 7 the group set, 8 its item).  Then: change
    every number-valued trait of every Leaf once, fire trait_modified on every Leaf, add a trait zz_new to every Leaf
    (fires trait_added) and change it, mutate the three containers, reassign child / kids / table / group; finally
    touch the replaced objects again (nothing may be reported for them: reported as 1000 + code).
    Reported: 32*object + trait index (9 = a mutation of the container itself)."""
    root = Root(child=Leaf(), kids=[Leaf(), Leaf()], table={"k": Leaf()}, group={Leaf()})
    objs = [root, root.child, root.kids, root.kids[0], root.kids[1], root.table, root.table["k"], root.group,
            next(iter(root.group))]
    fired = []
    stale = [0]

    def handler(event):
        ob = next((i for i, x in enumerate(objs) if x is event.object), 30)
        name = getattr(event, "name", None)
        if name is None:
            idx = 9
        elif name in LEAF_NAMES:
            idx = LEAF_NAMES.index(name)
        else:
            idx = EXTRA_NAMES.get(name, 31)
        fired.append(stale[0] + 32 * ob + idx)

    try:
        root.observe(handler, c["s"])
    except BaseException as e:   # noqa: B902
        return {"registered": False, "fired": [], "exc": type(e).__name__}
    leaves = (0, 1, 3, 4, 6, 8)
    try:
        for i in leaves:
            for n in LEAF_NAMES:
                setattr(objs[i], n, getattr(objs[i], n) + 1)
            objs[i].trait_modified = True
        for i in leaves:
            objs[i].add_trait("zz_new", Int())
            objs[i].zz_new = 5
        objs[2].append(Leaf())
        objs[5]["z"] = Leaf()
        objs[7].add(Leaf())
        root.child = Leaf()
        root.kids = [Leaf()]
        root.table = {}
        root.group = set()
        stale[0] = 1000
        for i in (1, 3, 4, 6, 8):
            for n in LEAF_NAMES:
                setattr(objs[i], n, getattr(objs[i], n) + 1)
            objs[i].trait_modified = True
            objs[i].zz_new = 6
        objs[2].append(Leaf())
        objs[5]["y"] = Leaf()
        objs[7].add(Leaf())
    except BaseException as e:   # noqa: B902
        return {"registered": True, "fired": sorted(set(fired)) + [999], "exc": type(e).__name__}
    return {"registered": True, "fired": sorted(set(fired))}


def run_case(c):
    if c["kind"] == "hook":
        return run_hook(c)
    if c["kind"] == "expr":
        return run_expr(c)
    if c["kind"] == "single":
        return run_single(c["s"])
    o1, g1 = outcome(c["s1"])
    # registration by one text, removal by the other: a fresh parse of the second text (cache dropped)
    parsing.parse.cache_clear()
    parsing.compile_str.cache_clear()
    o2, g2 = outcome(c["s2"])
    pyeq = hasheq = True
    if g1 is not None and g2 is not None:
        # == must hold in both directions for two spellings; for two different patterns either direction counts
        a, b = bool(g1 == g2), bool(g2 == g1)
        pyeq = (a and b) if c.get("same", True) else (a or b)
        try:
            hasheq = [hash(g) for g in g1] == [hash(g) for g in g2]
        except BaseException:   # noqa: B902
            hasheq = False
    removal = None
    if c.get("same", True) and o1["o"] == "graphs" and o2["o"] == "graphs":
        removal = removal_ok(c["s1"], c["s2"], o1["g"])
    return {"o1": o1, "o2": o2, "pyeq": pyeq, "hasheq": hasheq, "removal": removal is not False,
            "removal_checked": removal is not None}


def run_blocks(job):
    L, start, bs, nb = job
    digests, acc, cerr, other = [], [], [], []
    i = start
    for _ in range(nb):
        h = 0
        for _ in range(bs):
            o, _g = outcome(enc.grid_string(L, i))
            for code in enc.enc_outcome(o):
                h = enc.dstep(h, code)
            k = o["o"]
            if not o.get("agree", True) or o.get("msg") == "other":
                h = enc.dstep(h, 97)      # entry points disagree: forces a digest difference -> embedded re-run
                other.append(i)
            elif k == "graphs":
                acc.append(i)
            elif k == "cerr":
                cerr.append(i)
            elif k != "rej":
                other.append(i)
            i += 1
        digests.append(h)
    return digests, acc, cerr, other


def run_grid(shards, procs):
    jobs, owner = [], []
    for k, sh in enumerate(shards):
        nb, bs, start = sh["nb"], sh["bs"], sh["start"]
        step = max(1, min(nb, 25))
        for b in range(0, nb, step):
            jobs.append((sh["L"], start + b * bs, bs, min(step, nb - b)))
            owner.append(k)
    res = [dict(digests=[], accepted=[], cerr=[], other=[]) for _ in shards]
    if procs > 1 and len(jobs) > 1:
        with multiprocessing.Pool(procs) as pool:
            outs = pool.map(run_blocks, jobs, chunksize=1)
    else:
        outs = [run_blocks(j) for j in jobs]
    for k, (d, a, c, o) in zip(owner, outs):
        res[k]["digests"] += d
        res[k]["accepted"] += a
        res[k]["cerr"] += c
        res[k]["other"] += o
    return res


def grammar_tables():
    """The terminals, rules and options serialised inside _generated_parser.py (DATA / MEMO), canonicalised."""
    from traits.observation import _generated_parser as g

    def deref(x):
        return g.MEMO[x["@"]] if isinstance(x, dict) and "@" in x else x

    lc = g.DATA["parser"]["lexer_conf"]
    pc = g.DATA["parser"]["parser_conf"]
    terms = []
    for t in lc["terminals"]:
        t = deref(t)
        pat = t["pattern"]
        terms.append([str(t["name"]), pat["__type__"], pat["value"], sorted(pat.get("flags", [])), t.get("priority", 0)])
    rules = []
    for r in pc["rules"]:
        r = deref(r)
        exp = [[str(sym["name"]), sym["__type__"], bool(sym.get("filter_out", False))] for sym in r["expansion"]]
        o = r.get("options") or {}
        rules.append([str(r["origin"]["name"]), exp, bool(o.get("expand1", False)), r.get("alias"),
                      bool(o.get("keep_all_tokens", False))])
    opts = g.DATA["options"]
    return {"terminals": terms, "rules": rules, "ignore": list(lc["ignore"]), "lexer_type": lc["lexer_type"],
            "g_regex_flags": lc["g_regex_flags"], "start": list(pc["start"]), "parser_type": pc["parser_type"],
            "options": {k: opts.get(k) for k in ("keep_all_tokens", "maybe_placeholders", "regex", "lexer", "parser",
                                                  "start", "postlex", "transformer", "tree_class", "priority")},
            "n_rules_memo": len(g.DATA["rules"])}


def main():
    req = dlib.load()
    if req["mode"] == "grammar":
        dlib.dump(grammar_tables())
    elif req["mode"] == "cases":
        dlib.dump([run_case(c) for c in req["cases"]])
    else:
        dlib.dump(run_grid(req["shards"], int(req.get("procs", 8))))


if __name__ == "__main__":
    main()
