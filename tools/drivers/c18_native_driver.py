"""C18 implementation driver, native stream: the C fast validators (Tuple with coercion at any index, compound
validators, Instance, Type, Callable, Enum/Map, Range/Float/Int with big integers), the container traits, the four
delegate-name styles (with RUN-TIME-BUILT prefix strings), Event/ReadOnly/Property/Expression, direct
CTrait.validate / default_value_for calls — exercised with FRESH (mortal) objects: instances, run-time-built
strings, large integers.  Per operation: outcome class, sys.getrefcount delta of every measured object, and the
number of references the reachable instance state holds to it before and after (instance dicts of the object and of
its delegation target, and the slots of the tuples / lists / dicts / sets stored there).

Payload {"cases": [{"ops": [...]}], "progress": path}.  Output per case: list of
{"out", "rows": [[atom, delta, held_before, held_after]]}.
"""
import gc
import logging
import os
import sys

sys.path.insert(0, os.path.dirname(os.path.abspath(__file__)))
import dlib  # noqa: E402

logging.disable(logging.CRITICAL)

from traits.api import (Any, CInt, CStr, CFloat, PrefixList, Callable, DelegatesTo, Dict, Either, Enum, Event, Expression, Float, HasTraits,  # noqa
                        Instance, Int, List, Map, Property, PrototypedFrom, Range, ReadOnly, Set, Str, Tuple, Type,
                        TraitError, Union)


class V(object):
    __slots__ = ("n", "__weakref__")

    def __init__(self, n):
        self.n = n


def rt(*parts):
    """a run-time-built (non-interned, mortal) string"""
    return "".join(parts)


# delegate prefixes: built at run time, referenced by the CTrait / handler / metadata only
PFX_NAME = rt("v", "al", "ue")          # DelegatesTo(..., prefix='value')     -> delegate_attr_name_prefix
PFX_WILD = rt("p", "re", "_*")          # 'pre_*'                               -> delegate_attr_name_prefix_name
PFX_SET = rt("ot", "her")               # used by a delegate that is also assigned through


MAP_KEYS = [rt("k", "ey", "0"), rt("k", "ey", "1")]
MAP_OBJS = [V(100), V(101)]
MAP_TABLE = {MAP_KEYS[0]: MAP_OBJS[0], MAP_KEYS[1]: MAP_OBJS[1]}
ENUM_OBJS = [V(200), V(201), V(202)]
ENUM_VALUES = list(ENUM_OBJS)
PREFIX_CHOICES = [rt("al", "pha"), rt("be", "ta")]


DEFAULT_OBJ = V(300)          # the default object of a trait definition (held by the CTrait and its handler)
DEFAULT_LIST = [V(301)]       # a list default (list_copy): the list object itself is the trait's default_value


class Leaf(HasTraits):
    value = Any()
    other = Any()
    pre_pw = Any()
    same = Any()
    Node_cn = Any()


class Boom(Exception):
    pass


class Idx(object):
    """a non-int object implementing __index__: returns the (measured, mortal) integer object it was given"""
    def __init__(self, n):
        self.n = n

    def __index__(self):
        return self.n


def bad_default():
    raise Boom("default")


class Node(HasTraits):
    a = Any()
    tup = Tuple(Any(), Float())
    tup4 = Tuple(Any(), Any(), Float(), Any())
    tint = Tuple(Int(), Any())
    ttup = Tuple(Tuple(Any(), Float()), Any())
    eith = Either(Tuple(Any(), Float()), Instance(Leaf), None)
    uni = Union(Tuple(Any(), Float()), Str(), None)
    inst = Instance(Leaf)
    typ = Type(Leaf)
    call = Callable()
    lst = List(Any())
    ltup = List(Tuple(Any(), Float()))
    dct = Dict(Any(), Any())
    st = Set(Any())
    i = Int()
    f = Float()
    rng = Range(0.0, 1e30)
    s = Str()
    ev = Event()
    evt = Event(Tuple(Any(), Float()))
    ro = ReadOnly()
    expr = Expression()
    leaf = Instance(Leaf, ())
    d_pfx = DelegatesTo("leaf", prefix=PFX_NAME)
    d_set = DelegatesTo("leaf", prefix=PFX_SET)
    pw = PrototypedFrom("leaf", prefix=PFX_WILD)
    same = DelegatesTo("leaf")
    prop = Property(Tuple(Any(), Float()))
    xdef = Expression()
    # coercing casts (new objects from mortal inputs), mapped trait (shadow attribute), bounded list of tuples,
    # enumerations of objects; static change handlers on `a`, `tup`, `lst` exercise call_notifiers with mortal objects
    ci = CInt()
    cs = CStr()
    cf = CFloat()
    mp = Map(MAP_TABLE)
    enum = Enum(ENUM_VALUES)
    lb = List(Tuple(Any(), Float()), maxlen=2)
    # compound validators with static float ranges (validate_trait_complex, case 4): out-of-range numbers fall through
    dfl = Any(DEFAULT_OBJ)
    dfll = List(Any, DEFAULT_LIST)
    eis = Either(Int, Str)
    er2 = Either(Range(0.0, 1.0), Range(10.0, 11.0))
    ers = Either(Range(0.0, 1.0), Str)
    era = Either(Range(0.0, 1.0), Any)
    # a delegation cycle: base_trait / validate_trait walk the chain and fail with DelegationError
    selfref = Instance(HasTraits)
    cyc = DelegatesTo("selfref")
    pl = PrefixList(PREFIX_CHOICES)

    def _a_changed(self, old, new):
        pass

    def _tup_changed(self, old, new):
        pass

    def _lst_items_changed(self, event):
        pass

    def _get_prop(self):
        return self.__dict__.get("_prop", None)

    def _set_prop(self, value):
        self.__dict__["_prop"] = value

    def _xdef_default(self):
        # a dynamic default that the validator of a setattr_original_value trait type rejects
        return self.__dict__.get("_xd", 5)


NAMES = ["a", "tup", "tup4", "tint", "ttup", "eith", "uni", "inst", "typ", "call", "lst", "ltup", "dct", "st", "i", "f",
         "rng", "s", "ev", "evt", "ro", "expr", "d_pfx", "d_set", "pw", "same", "prop", "xdef"]


def build(spec, env):
    """value specs: ["p", k] pool object; ["s", k] run-time string; ["b", k] big int; ["n", x] number/None;
    ["t", [...]] tuple; ["l", [...]] list; ["d", [[k, v]...]] dict; ["set", [...]]; ["leaf", spec] a new Leaf holding
    a value; ["cls"] the Leaf class; ["fn"] a function"""
    k = spec[0]
    if k == "p":
        return env["pool"][spec[1]]
    if k == "s":
        return env["strs"][spec[1]]
    if k == "b":
        return env["bigs"][spec[1]]
    if k == "fl":
        return env["floats"][spec[1]]
    if k == "idx":
        return Idx(env["bigs"][spec[1]])
    if k == "n":
        return spec[1]
    if k == "t":
        return tuple(build(x, env) for x in spec[1])
    if k == "l":
        return [build(x, env) for x in spec[1]]
    if k == "d":
        return {build(a, env): build(b, env) for a, b in spec[1]}
    if k == "set":
        return {build(x, env) for x in spec[1]}
    if k == "leaf":
        return Leaf(value=build(spec[1], env))
    if k == "cls":
        return Leaf
    if k == "fn":
        return len
    if k == "mapkey":
        return MAP_KEYS[spec[1]]
    if k == "enum":
        return ENUM_OBJS[spec[1]]
    if k == "digits":
        return rt("1234567890", "1234567890", str(spec[1]))       # a run-time string that CInt / CFloat convert
    if k == "pfx":
        return rt(["al", "be", "zz"][spec[1]], "")                 # unique prefix of a PrefixList choice / no match
    raise ValueError(spec)


def held_counts(roots, measured_ids):
    """references the reachable state holds to each measured object"""
    counts = dict.fromkeys(measured_ids, 0)
    seen = set()
    stack = list(roots)
    while stack:
        c = stack.pop()
        if id(c) in seen:
            continue
        seen.add(id(c))
        if isinstance(c, dict):
            slots = list(c.keys()) + list(c.values())
        elif isinstance(c, (list, tuple, set, frozenset)):
            slots = list(c)
        elif isinstance(c, HasTraits):
            slots = [c.__dict__]
        else:
            continue
        for x in slots:
            if id(x) in counts:
                counts[id(x)] += 1
            if isinstance(x, (dict, list, tuple, set, frozenset, HasTraits)):
                stack.append(x)
    return counts


def classify(e):
    if isinstance(e, TraitError):
        return "TraitError"
    if isinstance(e, Boom):
        return "UserExn"
    if isinstance(e, AttributeError):
        return "AttributeError"
    return "OtherError"


def run_case(ci, case, progress):
    env = dict(pool=[V(i) for i in range(4)], strs=[rt("s", "tr", str(i)) for i in range(2)],
               bigs=[2 ** 70 + i for i in range(2)],
               floats=[float(x) for x in ("5.5", "10.5", "0.25", "-3.0")])     # fresh (mortal) float objects
    o = Node()
    o.selfref = o          # `cyc` delegates to the object itself: a delegation cycle from the start
    cyc_traits = []
    for tr in (Node.__base_traits__.get("cyc"), Node.__class_traits__.get("cyc")):
        if tr is not None and all(tr is not x for x in cyc_traits):
            cyc_traits.append(tr)
    measured = (env["pool"] + env["strs"] + env["bigs"] + [PFX_NAME, PFX_WILD] + MAP_KEYS + MAP_OBJS + ENUM_OBJS[:2]
                + env["floats"] + cyc_traits + [DEFAULT_OBJ, DEFAULT_LIST[0]])
    mids = [id(x) for x in measured]
    out = []
    getrc = sys.getrefcount
    for si, op in enumerate(case["ops"]):
        if progress is not None:
            progress.seek(0)
            progress.truncate()
            progress.write("%d %d\n" % (ci, si))
            progress.flush()
        kind = op[0]
        name = op[1] if len(op) > 1 and isinstance(op[1], str) else None
        arg = build(op[2], env) if kind in ("set", "validate", "vkeep", "append", "setitem", "add", "prime") else None
        ct = o.trait(name) if kind in ("validate", "vkeep", "default") else None
        kept = None
        items_obs = None
        if kind == "vkeep":
            # what each item validator does on its own (independent of the loop under test)
            items_obs = []
            for it, x in zip(ct.handler.types, arg):
                try:
                    y = it.validate(o, name, x)
                    items_obs.append("same" if y is x else "conv")
                except Exception:
                    items_obs.append("fail")
                y = None
        # containers stored by an operation may be the very objects passed in (a tuple that needs no coercion is
        # stored as it is): count the slots of every live container once — reachable from the state or from `arg`
        gc.collect()          # TraitList/Dict/Set objects sit in reference cycles (bound-method notifiers)
        hb = held_counts([o.__dict__, o.leaf.__dict__, [arg]], mids)
        before = [getrc(x) for x in measured]
        tv_before = getrc(arg) if kind == "vkeep" else 0
        res = "Ok"
        try:
            if kind == "set":
                setattr(o, name, arg)
            elif kind == "get":
                getattr(o, name)
            elif kind == "del":
                delattr(o, name)
            elif kind == "validate":
                ct.validate(o, name, arg)
            elif kind == "vkeep":
                kept = ct.validate(o, name, arg)
            elif kind == "default":
                ct.default_value_for(o, name)
            elif kind == "append":
                getattr(o, name).append(arg)
            elif kind == "setitem":
                getattr(o, name)[op[3] if len(op) > 3 else 0] = arg
            elif kind == "add":
                getattr(o, name).add(arg)
            elif kind == "clear":
                getattr(o, name).clear()
            elif kind == "prime":
                o.__dict__["_xd"] = arg           # what the dynamic default of `xdef` will return
            elif kind == "leafset":
                setattr(o.leaf, op[1], build(op[2], env))
            elif kind == "selfref":
                o.selfref = o                      # the object delegates `cyc` to itself: a delegation cycle
            elif kind == "ctdefault":
                ct2 = o.trait(op[1])
                ct2.default_value()
                ct2.default
                ct2.default_kind
                ct2 = None
            elif kind == "basetrait":
                o.base_trait(op[1])
            elif kind == "vtrait":
                o.validate_trait(op[1], build(op[2], env))
            elif kind == "gc":
                gc.collect()
        except BaseException as e:
            res = classify(e)
            e = None
        gc.collect()
        after = [getrc(x) for x in measured]       # `arg` is still held, as it was for `before`
        ha = held_counts([o.__dict__, o.leaf.__dict__, [arg], [kept]], mids)
        step = dict(out=res, rows=[[k, after[k] - before[k], hb[mids[k]], ha[mids[k]]] for k in range(len(measured))])
        if kind == "vkeep":
            def atom_of(x, i):
                return mids.index(id(x)) if id(x) in mids else -10 - i
            tv_delta = getrc(arg) - tv_before
            rk = 2 if kept is None else (1 if kept is arg else 0)
            items = []
            for i, x in enumerate(arg):
                b = atom_of(x, i)
                if items_obs[i] == "conv":
                    w = atom_of(kept[i], i) if (rk == 0 and i < len(kept) and id(kept[i]) in mids) else -30 - i
                    items.append([b, "conv", w])
                else:
                    items.append([b, items_obs[i], 0])
            step["tuple"] = dict(items=items, kind=rk, tv_delta=tv_delta)
        arg = None
        kept = None
        out.append(step)
    return out


def main():
    payload = dlib.load()
    prog = open(payload["progress"], "w") if payload.get("progress") else None
    gc.collect()
    gc.freeze()
    res = []
    for ci, case in enumerate(payload["cases"]):
        res.append(run_case(ci, case, prog))
        if ci % 100 == 99:
            gc.collect()
            gc.freeze()
    if prog is not None:
        prog.seek(0)
        prog.truncate()
        prog.write("done\n")
        prog.close()
    dlib.dump(res)


if __name__ == "__main__":
    main()
