"""C13 implementation driver: builds each class hierarchy freshly on the tree under
test (resolved prefix traits are cached in the class, and that cache is part of what is
checked), executes one history of get / set / del / add_trait / remove_trait on one
instance and records canonical observations:
    out    : ["Val", atom] | ["Done"] | ["Raise", exception-class]
    stored : atom of obj.__dict__[name] afterwards, or None when absent."""
import copy
import logging
import os
import pickle
import sys
import types

sys.path.insert(0, os.path.dirname(os.path.abspath(__file__)))
import dlib  # noqa: E402

logging.disable(logging.CRITICAL)

from traits.api import ABCHasStrictTraits, ABCHasTraits  # noqa: E402
from traits.api import (  # noqa: E402
    Any, CInt, Constant, DelegatesTo, Disallow, Event, List, Map, HasPrivateTraits, HasStrictTraits, HasTraits, Int,
    Python, ReadOnly, Str, Undefined, observe,
)
from traits.ctrait import CTrait  # noqa: E402

EXN = ["AttributeError", "TraitError", "TypeError"]
ROOTS = [HasTraits, HasStrictTraits, HasPrivateTraits]
OTHER = 299


def val(a):
    if 0 <= a < 100:
        return a
    if 100 <= a < 200:
        return str(a - 100)
    if a == 200:
        return None
    if a == 201:
        return Undefined
    raise ValueError(a)


def atom(v):
    if type(v) is int and 0 <= v < 100:
        return v
    if type(v) is str and v.isdigit() and int(v) < 100 and str(int(v)) == v:
        return 100 + int(v)
    if v is None:
        return 200
    if v is Undefined:
        return 201
    if isinstance(v, list) and len(v) == 0:
        return 300
    return OTHER


def round_trip(t, how):
    """The CTrait of definition `t` after a __getstate__/__setstate__ round trip: copy.copy, copy.deepcopy or
    pickle (protocol 2 / highest).  ReadOnly and Disallow handlers cannot be pickled by reference (the module
    attribute is the instance, not the class): they take the deepcopy route, which uses the same protocol."""
    if isinstance(t, type):
        t = t()
    c = t if isinstance(t, CTrait) else t.as_ctrait()
    if how == "copy":
        return copy.copy(c)
    if how == "deepcopy":
        return copy.deepcopy(c)
    try:
        return pickle.loads(pickle.dumps(c, 2 if how == "pickle2" else pickle.HIGHEST_PROTOCOL))
    except pickle.PicklingError:
        return copy.deepcopy(c)


def mk(pol):
    k = pol[0]
    if k == "Default":  # ["Default", value, expected definition]: a plain class attribute `name = value` in the class
        return val(pol[1])  # body, giving a new default to the trait inherited from the first base that has the name
    if k == "RT":       # ["RT", how, definition]: the definition after a state round trip
        return round_trip(mk(pol[2]), pol[1])
    if k == "Python":
        return Python()
    if k == "Any":
        return Any(val(pol[1]))
    if k == "Disallow":
        return Disallow
    if k == "ReadOnly":
        return ReadOnly if len(pol) == 1 else ReadOnly(val(pol[1]))
    if k == "Constant":
        return Constant(val(pol[1]))
    if k == "Event":
        return Event() if len(pol) == 1 else Event({"VInt": Int, "VStr": Str, "VCInt": CInt}[pol[1]])
    if k == "Map":      # ["Map", [[key, value], ...], default key]
        return Map({val(a): val(b) for a, b in pol[1]}, default_value=val(pol[2]))
    if k == "List":
        return List(Int)
    if k == "Typed":
        return {"VInt": Int, "VStr": Str, "VCInt": CInt}[pol[1]](val(pol[2]))
    raise ValueError(pol)


def is_early(op):
    return op[-1] == "E"


KIND = {"Python": 0, "Any": 1, "Disallow": 2, "ReadOnly": 3, "Constant": 4, "Event": 5, "Int": 61, "Str": 62,
        "CInt": 63, "Map": 64, "List": 65}


def inst_kind(obj, n):
    """Code of the instance trait of `n` (None when there is none): handler class and default value
    (C13/CorrL.v inst_code)."""
    t = obj._instance_traits().get(n)
    if t is None:
        return None
    k = KIND.get(type(t.handler).__name__, 69)
    if k in (1, 3, 4, 61, 62, 63):
        try:
            d = atom(t.default)
        except Exception:  # noqa
            d = 999
        return k * 1000 + (d if d != OTHER else 999)
    return k * 1000


def make_listener(table):
    """A trait_added listener that declares traits lazily: names starting with a prefix of the
    table get add_trait(name, <policy>) the first time the name is resolved for the class."""
    def _declare(self, event):
        name = event.new
        for prefix, pol in table:
            if name.startswith(prefix):
                self.add_trait(name, mk(pol))
                break
    return observe("trait_added")(_declare)


# library classes a case may name instead of declaring them: what the case declares for them (and the model
# takes) is what their documentation promises, checked here against nothing — the check is the comparison of
# the behaviour of their subclasses with the model (C13-v1: ABCHasStrictTraits "behaves like HasStrictTraits")
LIB = {"ABCHasTraits": (ABCHasTraits, [], [HasTraits]),
       "ABCHasStrictTraits": (ABCHasStrictTraits, [["_", ["Disallow"]]], [ABCHasTraits])}


def create(classes, cds, listener_at=None, table=None):
    for cd in cds:
        if cd.get("lib"):
            cls, decls, bases = LIB[cd["lib"]]
            if cd["decls"] != decls or [classes[b] for b in cd["bases"]] != bases:
                raise ValueError("library class %s must be described as %r over %r" % (cd["lib"], decls, bases))
            classes.append(cls)
            continue
        ns = {}
        if table and len(classes) == listener_at:
            ns["_declare"] = make_listener(table)
        for n, pol in cd["decls"]:
            if n in ns:
                raise ValueError("duplicate declaration " + n)
            ns[n] = mk(pol)
        bases = tuple(classes[b] for b in cd["bases"])
        # types.new_class: the most derived metaclass of the bases (ABCMetaHasTraits under the ABC variants)
        classes.append(types.new_class("K%d" % len(classes), bases, {}, lambda d, ns=ns: d.update(ns)))


MISSING = object()


def _handler():
    pass


def execute(obj, ops, other=None, panel=None):
    """`other`: the second instance of the same class, used by the operations flagged "B"; `panel`: an object
    delegating to the first instance, operations flagged "V:<attribute>" go through that attribute of it."""
    first = obj
    hist = []
    for op in ops:
        k, n = op[0], op[1]
        obj = other if op[-1] == "B" else first
        via = op[-1][2:] if isinstance(op[-1], str) and op[-1].startswith("V:") else None
        try:
            if via is not None:
                if k == "Get":
                    out = ["Val", atom(getattr(panel, via))]
                elif k == "Set":
                    setattr(panel, via, val(op[2]))
                    out = ["Done"]
                elif k == "Del":
                    delattr(panel, via)
                    out = ["Done"]
                else:
                    raise ValueError(k)
            elif k == "Clone":
                # the state dictionary first (idempotent: it materialises the defaults on the original), then the copy
                # of the FIRST instance; on success the copy is the second instance from now on
                st = first.__getstate__()
                st.pop("__traits_version__", None)
                state = [[m, atom(v)] for m, v in st.items()]
                try:
                    if n == "copy":
                        new = copy.copy(first)
                    else:
                        # the pickle route without the class look-up by name (the classes of a case are created
                        # on the fly): __reduce_ex__ = (__newobj__, (cls,), state), the state through pickle
                        new = type(first).__new__(type(first))
                        new.__setstate__(pickle.loads(pickle.dumps(first.__getstate__(), 2)))
                    other = new
                    hist.append({"out": ["Done"], "state": state,
                                 "copy": [[m, atom(new.__dict__[m]) if m in new.__dict__ else None] for m, _ in state],
                                 "stored": None, "shadow": None, "base": None, "inst": None})
                except Exception as e:  # noqa
                    hist.append({"out": ["Raise", dlib.exn_name(e, EXN)], "state": state, "copy": [],
                                 "stored": None, "shadow": None, "base": None, "inst": None})
                continue
            elif k == "Listen":
                obj.on_trait_change(_handler, n)
                out = ["Done"]
            elif k == "Unlisten":
                obj.on_trait_change(_handler, n, remove=True)
                out = ["Done"]
            elif k == "Get":
                out = ["Val", atom(getattr(obj, n))]
            elif k == "Set":
                setattr(obj, n, val(op[2]))
                out = ["Done"]
            elif k == "Del":
                delattr(obj, n)
                out = ["Done"]
            elif k == "Add":
                obj.add_trait(n, mk(op[2]))
                out = ["Done"]
            elif k == "Rem":
                out = ["Val", 1 if obj.remove_trait(n) else 0]
            else:
                raise ValueError(k)
        except Exception as e:  # noqa
            out = ["Raise", dlib.exn_name(e, EXN)]
        def stored(m):
            st = obj.__dict__.get(m, MISSING)
            return None if st is MISSING else atom(st)
        hist.append({"out": out, "stored": stored(n), "shadow": stored(n + "_"),
                     "base": stored(n[:-1]) if n.endswith("_") else None, "inst": inst_kind(obj, n)})
    return hist


def run_classops(case):
    """All classes first, then one fresh instance per entry of `objs`, then the history: object operations
    (trailing "#i" = object number) and ["AddClass", name, trait, k] = classes[k].add_class_trait(name, trait)."""
    classes = list(ROOTS)
    create(classes, case["classes"])
    objs = []
    for k in case["objs"]:
        if k < len(ROOTS):
            raise ValueError("instances of freshly created classes only")
        objs.append(classes[k]())
    hist = []
    for op in case["ops"]:
        if op[0] == "AddClass":
            k = op[3]
            if k < len(ROOTS):
                raise ValueError("add_class_trait on freshly created classes only")
            try:
                classes[k].add_class_trait(op[1], mk(op[2]))
                out = ["Done"]
            except Exception as e:  # noqa
                out = ["Raise", dlib.exn_name(e, EXN)]
            hist.append({"out": out, "stored": None, "shadow": None, "base": None, "inst": None})
        else:
            i = int(op[-1][1:])
            hist += execute(objs[i], [op[:-1]])
    hist[0]["mro"] = []
    return hist


def run_case(case):
    if "objs" in case:
        return run_classops(case)
    return run_case_staged(case)


def run_case_staged(case):
    """Classes except the last `nlate` ones; the early operations (flag "E") on a fresh instance of
    class `precls`; the remaining classes; the other operations on two fresh instances of class `cls`
    (flag "B" = the second one)."""
    cds = case["classes"]
    nlate = case.get("nlate", 0)
    ops = case["ops"]
    early = [op for op in ops if is_early(op)]
    main = [op for op in ops if not is_early(op)]
    if ops != early + main:
        raise ValueError("early operations must come first")
    classes = list(ROOTS)
    table = case.get("listener")
    create(classes, cds[:len(cds) - nlate], case["cls"], table)
    hist = []
    if early:
        k = case["precls"]
        if k < len(ROOTS) or k >= len(classes) or cds[k - len(ROOTS)].get("lib"):
            raise ValueError("the early instance must be of a freshly created, already existing class")
        hist += execute(classes[k](), early)
    create(classes, cds[len(cds) - nlate:], case["cls"], table)
    k = case["cls"]
    if k < len(ROOTS) or cds[k - len(ROOTS)].get("lib"):
        raise ValueError("the instance must be of a freshly created class")
    first = classes[k]()
    panel = None
    if case.get("delegations"):
        # a plain HasTraits class delegating (modify semantics, one link) attribute a to <first>.<target>
        ns = {"target_": Any()}
        for a, tname, listenable in case["delegations"]:
            ns[a] = DelegatesTo("target_", prefix=tname, listenable=bool(listenable))
        panel = type(HasTraits)("Panel", (HasTraits,), ns)()
        panel.target_ = first
    hist += execute(first, main, classes[k](), panel)
    # type(obj).__mro__ as class indices (CHasTraits / object dropped): compared with the law's C3
    hist[0]["mro"] = [classes.index(c) for c in classes[k].__mro__ if c in classes]
    return hist


def main():
    cases = dlib.load()
    dlib.dump([run_case(c) for c in cases])


main()
