"""C18 implementation driver, ledger stream: executes attribute histories on HasTraits classes built
from the case configuration and records, per operation, the outcome class, the instance __dict__,
the number of user-handler invocations and the sys.getrefcount deltas of every pool value and of the
object itself (success and failure paths).

Payload: {"cases": [...], "progress": path or null}.  The progress file receives "case step" before
every operation so that the harness can say where a crash (segfault / sanitiser abort) happened.
"""
import gc
import logging
import os
import sys

sys.path.insert(0, os.path.dirname(os.path.abspath(__file__)))
import dlib  # noqa: E402

logging.disable(logging.CRITICAL)

from traits.api import Any, Event, HasTraits, List, Property, TraitError, push_exception_handler, pop_exception_handler  # noqa: E402
from traits.trait_type import TraitType  # noqa: E402
from traits.constants import ComparisonMode  # noqa: E402

A_NONE = -3


class Boom(Exception):
    pass


class V(object):
    __slots__ = ("n", "__weakref__")

    def __init__(self, n):
        self.n = n


class Env(object):
    def __init__(self):
        self.pool = []
        self.calls = 0


def make_type(t, env):
    table = {}
    for a, r in t["vld"]:
        table[a] = r

    class TT(TraitType):
        default_value = None

        def __init__(self, **md):
            super().__init__(**md)
            if t["hv"]:
                self.validate = self._validate
            if t["post"] != "none":
                self.post_setattr = self._post

        def _validate(self, obj, name, value):
            a = env.atom(value)
            r = table.get(a, "same")
            if r == "same":
                return value
            if r == "reject":
                raise TraitError("rejected")
            if r == "raise":
                raise Boom("validator")
            return env.val(r[1])

        def _post(self, obj, name, value):
            if t["post"] == "raise":
                raise Boom("post_setattr")

        def as_ctrait(self):
            ct = super().as_ctrait()
            if t["orig"]:
                ct.setattr_original_value = True
            return ct

    md = {}
    if t["cmpnone"]:
        md["comparison_mode"] = ComparisonMode.none
    tt = TT(**md)
    if t["dflt"][0] == "const":
        tt.default_value = env.val(t["dflt"][1])
    return tt


def make_property(i, t, env):
    """fget(obj) -> getattr_property1, fset(obj, value) -> setattr_property2, fvalidate(obj, name, value) ->
    setattr_validate_property + setattr_validate3"""
    table = {}
    for a, r in t["vld"]:
        table[a] = r
    key = "_pv%d" % i

    def fget(obj):
        if t["dflt"] == ["call", None]:
            raise Boom("getter")
        return obj.__dict__.get(key, None)

    def fset(obj, value):
        if t["post"] == "raise":
            raise Boom("setter")
        if t["post"] == "ok":
            obj.__dict__[key] = value

    def fval(obj, name, value):
        r = table.get(env.atom(value), "same")
        if r == "same":
            return value
        if r == "reject":
            raise TraitError("rejected")
        if r == "raise":
            raise Boom("validator")
        return env.val(r[1])
    if t["hv"]:
        return Property(fget=fget, fset=fset, fvalidate=fval)
    return Property(fget=fget, fset=fset)


def make_class(case, env):
    ns = {}
    for i, t in enumerate(case["traits"]):
        name = "t%d" % i
        if t["kind"] == "prop":
            ns[name] = make_property(i, t, env)
            continue
        if t["dflt"][0] == "obj":
            # a container trait: the default is a NEW TraitListObject built by call_class on first read; pool values
            # are not lists, so every assignment is rejected by the C-level validator
            ns[name] = List(Any)
            continue
        tt = make_type(t, env)
        ns[name] = Event(tt) if (t["kind"] == "event" and t["hv"]) else Event() if t["kind"] == "event" else tt
        if t["dflt"][0] == "call" and t["kind"] != "event":
            r = t["dflt"][1]

            def dm(self, r=r):
                if r is None:
                    raise Boom("default")
                return env.val(r)
            ns["_%s_default" % name] = dm
    return type("K", (HasTraits,), ns)


def make_handler(env, raises):
    def h(obj, name, old, new):
        env.calls += 1
        if raises:
            raise Boom("handler")
    return h


def classify(e):
    if isinstance(e, TraitError):
        return "TraitError"
    if isinstance(e, Boom):
        return "UserExn"
    if isinstance(e, AttributeError):
        return "AttributeError"
    return "OtherError"


def run_case(ci, case, progress):
    env = Env()
    P = case["pool"]
    env.pool = [V(i) for i in range(P)]
    obj_box = [None]

    def val(a):
        if a == A_NONE:
            return None
        if a == P:
            return obj_box[0]
        return env.pool[a]

    def atom(v):
        if v is None:
            return A_NONE
        if v is obj_box[0]:
            return P
        if type(v) is V and v.n < P and env.pool[v.n] is v:
            return v.n
        if isinstance(v, list):
            return -4                      # a container object created for a default value
        return -99
    env.val, env.atom = val, atom
    K = make_class(case, env)
    o = K()
    obj_box[0] = o
    push_exception_handler(lambda *a: None, reraise_exceptions=bool(case["reraise"]), main=True)
    try:
        for i, t in enumerate(case["traits"]):
            for raises in t["handlers"]:
                o.on_trait_change(make_handler(env, raises), "t%d" % i)
        measured = env.pool + [o]
        names = ["t%d" % i for i in range(len(case["traits"]))]
        out = []
        getrc = sys.getrefcount
        for si, op in enumerate(case["ops"]):
            if progress is not None:
                progress.seek(0)
                progress.write("%d %d      \n" % (ci, si))
                progress.flush()
            env.calls = 0
            kind, n = op[0], "t%d" % op[1]
            v = val(op[2]) if kind in ("set", "val") else None
            ct = o.trait(n) if kind in ("val", "def") else None
            gc.collect(1)      # young generations only: the garbage of the previous step is young
            before = [getrc(x) for x in measured]
            res = "Ok"
            try:
                if kind == "set":
                    setattr(o, n, v)
                elif kind == "get":
                    getattr(o, n)
                elif kind == "val":
                    ct.validate(o, n, v)
                elif kind == "def":
                    ct.default_value_for(o, n)
                else:
                    delattr(o, n)
            except BaseException as e:
                res = classify(e)
                e = None
            gc.collect(1)
            after = [getrc(x) for x in measured]    # `v` is still held here, as it was for `before`
            v = None
            d = o.__dict__
            out.append(dict(out=res, dict=[[i, atom(d[nm])] for i, nm in enumerate(names) if nm in d] +
                            [[1000 + i, atom(d["_pv%d" % i])] for i in range(len(names)) if "_pv%d" % i in d],
                            calls=env.calls, delta=[y - x for x, y in zip(before, after)],
                            extra=sorted(k for k in d if k not in names and not k.startswith("_pv"))))
        return out
    finally:
        pop_exception_handler()


def main():
    payload = dlib.load()
    if isinstance(payload, list):
        payload = {"cases": payload}
    prog = open(payload["progress"], "w") if payload.get("progress") else None
    gc.collect()
    gc.freeze()
    res = []
    for ci, case in enumerate(payload["cases"]):
        res.append(run_case(ci, case, prog))
        if ci % 200 == 199:
            gc.collect()
            gc.freeze()    # keep full collections cheap: the classes of finished cases stay out of the way
    if prog is not None:
        prog.seek(0)
        prog.write("done           \n")
        prog.close()
    dlib.dump(res)


if __name__ == "__main__":
    main()
