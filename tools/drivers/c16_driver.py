"""C16 implementation driver: the same history is observed through BOTH APIs --
root.on_trait_change(handler4, "<extended name>") and root.observe(handler, <expression of the graphs>) --
on a pool of HasTraits objects (see c08_driver.py for atoms, fields and dumps).  Per operation the two
call logs are recorded as (object, trait) pairs; legacy '<name>_items' reports are recorded under
the field numbers 13/14/15 (they are not compared, DESIGN 6 C16)."""
import os
import sys

sys.path.insert(0, os.path.dirname(os.path.abspath(__file__)))
import dlib  # noqa: E402
import c08_driver as base  # noqa: E402

EXN = ["NotifierNotFound"]
ITEMS = {"kids_items": 13, "m_items": 14, "s_items": 15}


def make_root_class(cls, name, content, legacy_name, expr, legacy, obs_handler, post_init):
    """A subclass of the pool class whose handlers are decorated methods and whose traits_init reads the link
    `name`, the default of which (a _name_default method) has content."""
    from traits.api import observe, on_trait_change

    def _legacy_method(self, obj, nm, old, new):
        legacy(obj, nm, old, new)

    def _observe_method(self, event):
        obs_handler(event)

    def traits_init(self):
        getattr(self, name)

    def default(self):
        return type(content)(content)

    return type("DecoratedRoot", (cls,), {
        "_legacy_method": on_trait_change(legacy_name)(_legacy_method),
        "_observe_method": observe(expr, post_init=post_init)(_observe_method),
        "traits_init": traits_init,
        "_%s_default" % name: default})


def run_case(case):
    w = base.World(case["npool"], bool(case.get("falsy")), bool(case.get("eqcls")), set(case.get("dictkind") or ()))
    hetero = bool(case.get("dictkind"))
    root = w.pool[case["root"]]
    lcalls, ocalls = [], []

    def legacy(obj, name, old, new):
        lcalls.append([w.oid(obj) if w.oid(obj) is not None else 999,
                       base.NF.get(name, ITEMS.get(name, 99))])

    def obs_handler(event):
        c = w.convert((0, case["root"]), event)
        ocalls.append([999 if c[2] is None else c[2], c[3]])

    class Watcher:
        """second legacy registration for the same name (a bound method), removed by the first handler
        during a notification round (re-entrant removal)"""
        calls = 0

        def second(self, obj, name, old, new):
            self.calls += 1

    watcher = Watcher()
    st = {"armed": False, "reg2": False, "removed": False}
    reentrant = case.get("reentrant")
    deferred = bool(case.get("deferred"))
    plain_legacy = legacy

    def legacy(obj, name, old, new):    # noqa: F811
        plain_legacy(obj, name, old, new)
        if st["armed"] and st["reg2"] and not st["removed"]:
            st["removed"] = True
            root.on_trait_change(watcher.second, case["legacy"], remove=True, deferred=deferred)

    expr = None
    for g in case["graphs"]:
        e = base.build_expr(g, hetero)
        expr = e if expr is None else (expr | e)
    hist = []
    prev_heap = None
    for step, op in enumerate(case["ops"]):
        del lcalls[:]
        del ocalls[:]
        watcher.calls = 0
        st["armed"] = reentrant is not None and step in reentrant and op[0] == "Probe"
        out = "Ok"
        try:
            if op[0] in ("Reg", "RegLazy"):
                if op[0] == "RegLazy":
                    # the container link has a _name_default with content: the legacy registration reads it
                    o, f, items = op[1:4]
                    name = base.FN[f]
                    obj = w.pool[o]
                    if f == 3:
                        base.LAZY[(id(obj), name)] = [w.pool[a] for a in items]
                    elif f == 4:
                        base.LAZY[(id(obj), name)] = {key: w.pool[a] for key, a in items}
                    else:
                        base.LAZY[(id(obj), name)] = {w.pool[a] for a in items}
                    w.pending = w.next
                    w.pending_field = f + 3
                    w.next += 1
                if op[0] == "RegLazy" and case.get("ctor"):
                    # both handlers are DECORATED methods of the root's class (the decorator registers with
                    # deferred=True) and the default of the link is first read INSIDE construction (traits_init)
                    content = base.LAZY.pop((id(obj), name))
                    cls = make_root_class(type(obj), name, content, case["legacy"], expr, legacy, obs_handler,
                                          bool(case["ctor"] - 1))
                    root = cls()
                    w.keep = obj             # (kept alive: atoms are keyed by id())
                    del w.atom[id(obj)]
                    w.atom[id(root)] = o
                    w.pool[o] = obj = root
                    cur = obj.__dict__.get(name)
                    if w.pending is not None and cur is not None and id(cur) not in w.atom:
                        w.register(cur)
                    w.pending = None
                else:
                    root.on_trait_change(legacy, case["legacy"], deferred=deferred)
                    if reentrant is not None:
                        root.on_trait_change(watcher.second, case["legacy"], deferred=deferred)
                        st["reg2"] = True
                    root.observe(obs_handler, expr)
                if op[0] == "RegLazy":
                    cur = obj.__dict__.get(name)
                    if w.pending is not None and cur is not None and id(cur) not in w.atom:
                        w.register(cur)
                    w.pending = None
            elif op[0] == "Unreg" and case.get("ctor"):
                root.on_trait_change(root._legacy_method, case["legacy"], remove=True)
                root.observe(root._observe_method, expr, remove=True)
            elif op[0] == "Unreg":
                root.on_trait_change(legacy, case["legacy"], remove=True, deferred=deferred)
                if st["reg2"] and not st["removed"]:
                    st["removed"] = True
                    root.on_trait_change(watcher.second, case["legacy"], remove=True, deferred=deferred)
                root.observe(obs_handler, expr, remove=True)
            else:
                w.run_op(op)
        except Exception as e:  # noqa
            out = dlib.exn_name(e, EXN)
        heap = w.heap()
        hist.append({"out": out, "ocalls": [list(c) for c in ocalls], "lcalls": [list(c) for c in lcalls],
                     "heap": None if heap == prev_heap else heap,
                     "second": [bool(st["removed"] or not st["reg2"]), watcher.calls, len(lcalls)]})
        prev_heap = heap
    return hist


def main():
    cases = dlib.load()
    dlib.dump([run_case(c) for c in cases])


if __name__ == "__main__":
    main()
