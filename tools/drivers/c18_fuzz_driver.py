"""C18 driver, definition stream: trait definitions built by traits' OWN constructors (the trait types of
traits.api with their options, Trait(...)-style compounds, Property / Delegate factories) — i.e. descriptors that
TraitType.as_ctrait can produce — are exercised through the C core: CTrait.validate on a value lattice,
default_value_for, get / set / del through an object, __getstate__, clone.  Hand-built descriptors passed to the
low-level CTrait constructors (set_validate tuples, set_default_value, bare CTrait(kind)) are OUTSIDE the property's
quantifier ("calls through the documented Python API") and are not generated here.

One family per subprocess: payload {"family": name, "seed": s, "n": trials, "progress": path, "skip": [handler class names not to exercise]};
output {"accepted": definitions built and exercised, "tried": n}.
The definition being exercised is written to the progress file first, so that a crash names it.
"""
import logging
import os
import random
import sys

sys.path.insert(0, os.path.dirname(os.path.abspath(__file__)))
import dlib  # noqa: E402

logging.disable(logging.CRITICAL)

from traits.api import (Any, Bool, Bytes, CFloat, CInt, CStr, Callable, Complex, Constant, Delegate, DelegatesTo,  # noqa
                        Dict, Either, Enum, Event, Expression, Float, HasTraits, Instance, Int, List, Map, PrefixList,
                        PrefixMap, Property, PrototypedFrom, Range, ReadOnly, Set, Str, String, Tuple, Type, Union,
                        Trait, TraitError)
from traits.ctrait import CTrait  # noqa: E402


class H(HasTraits):
    v = Int(3)
    w = Str("w")
    p_q = Int(1)
    inst = Instance(HasTraits)


def f0():
    return 1


def f1(a):
    return getattr(a, "__dict__", {}).get("_pv", 1)


def f2(a, b):
    a.__dict__["_pv"] = b


def f3(a, b, c):
    a.__dict__["_pv"] = c


VALS = [0, 1, -1, 5, 1.5, float("nan"), "a", "ab", "abc", None, (1, 2), (1, "x"), [1], [1, "x"], {"a": 1}, {1}, int, str,
        len, 2 ** 70, True, (), b"x", 3 + 4j, H, "LEAF"]


def scalar(rnd):
    return rnd.choice([
        lambda: Int(rnd.choice([0, 5])), lambda: Float(), lambda: Str(), lambda: Bool(), lambda: Bytes(),
        lambda: Complex(), lambda: CInt(), lambda: CFloat(), lambda: CStr(), lambda: Any(),
        lambda: Range(rnd.choice([0, 0.0, None]), rnd.choice([10, 9.5, None]), exclude_low=rnd.random() < 0.3,
                      exclude_high=rnd.random() < 0.3) if rnd.random() < 0.9 else Range(0, "v"),
        lambda: Enum(*rnd.sample([1, 2, "a", None, (1, 2), 1.5], rnd.randint(1, 4))),
        lambda: Map({"a": 1, "abc": 2}), lambda: PrefixList(["abc", "xyz"]), lambda: PrefixMap({"abc": 1, "abd": 2}),
        lambda: String(minlen=rnd.randint(0, 2), maxlen=rnd.randint(2, 5)),
        lambda: Instance(H, allow_none=rnd.random() < 0.5), lambda: Instance(H, ()), lambda: Instance("H", module="__main__"),
        lambda: Instance(H, adapt=rnd.choice(["no", "yes", "default"])), lambda: Type(H), lambda: Type(),
        lambda: Callable(allow_none=rnd.random() < 0.5), lambda: Expression(), lambda: ReadOnly(), lambda: Constant(5),
        lambda: Event(), lambda: Event(Int()),
    ])()


def definition(rnd, depth=0):
    x = rnd.random()
    if depth > 2 or x < 0.45:
        return scalar(rnd)
    sub = lambda: definition(rnd, depth + 1)      # noqa: E731
    return rnd.choice([
        lambda: Tuple(*[sub() for _ in range(rnd.randint(0, 3))]),
        lambda: List(sub(), minlen=rnd.randint(0, 1), maxlen=rnd.randint(1, 4)),
        lambda: Dict(rnd.choice([Str(), Int(), Any()]), sub()), lambda: Set(rnd.choice([Int(), Str(), Any()])),
        lambda: Either(*[sub() for _ in range(rnd.randint(1, 3))]),
        lambda: Union(*[sub() for _ in range(rnd.randint(1, 3))]),
        lambda: Trait(rnd.choice([0, "a", None]), *[sub() for _ in range(rnd.randint(1, 2))]),
        lambda: Property(fget=rnd.choice([f0, f1]), fset=rnd.choice([f2, f3])),
        lambda: Property(fget=f1, fset=f2, trait=scalar(rnd)),
        lambda: Property(fget=f1),
        lambda: DelegatesTo("inst", prefix=rnd.choice(["v", "w"])), lambda: PrototypedFrom("inst"),
        lambda: Delegate("inst", rnd.choice(["p_*", "*", "v"]), modify=rnd.random() < 0.5),
    ])()


def exercise(ct):
    o = H()
    o.inst = H()
    for v in VALS:
        v = H() if v == "LEAF" else v
        try:
            ct.validate(o, "q", v)
        except Exception:
            pass
    for f in (lambda: ct.default_value_for(o, "q"), lambda: ct.default_value(), lambda: ct.__getstate__()):
        try:
            f()
        except Exception:
            pass
    try:
        c2 = CTrait(0)
        c2.clone(ct)
    except Exception:
        pass
    try:
        o.add_trait("q", ct)
    except Exception:
        return
    for v in VALS[:14]:
        for f in (lambda: setattr(o, "q", v), lambda: getattr(o, "q"), lambda: delattr(o, "q")):
            try:
                f()
            except Exception:
                pass


def main():
    p = dlib.load()
    rnd = random.Random(p["seed"])
    prog = open(p["progress"], "w")
    accepted = 0
    for trial in range(p["n"]):
        state = rnd.getstate()
        try:
            d = definition(rnd)
            K = type("K", (HasTraits,), {"x": d})
            ct = K.__base_traits__["x"]
        except Exception:
            continue
        name = type(getattr(ct, "handler", None)).__name__
        if name in p.get("skip", []):
            continue
        prog.seek(0)
        prog.truncate()
        prog.write("%s\n%s trial %d of seed %d: %r\n" % (name, name, trial, p["seed"], getattr(ct, "handler", None)))
        prog.flush()
        accepted += 1
        exercise(ct)
    prog.close()
    dlib.dump(dict(accepted=accepted, tried=p["n"]))


if __name__ == "__main__":
    main()
