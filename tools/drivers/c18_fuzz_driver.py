"""C18 driver, descriptor stream: the low-level CTrait constructors (set_validate tuples — the documented
`fast_validate` extension point of TraitType —, set_default_value, _set_property, delegate, CTrait(kind),
comparison_mode, post_setattr) are called with well-formed and malformed descriptors, and every descriptor the
C code ACCEPTS is then exercised (validate on a value lattice, default_value_for, get/set/del through an object).
A descriptor may be rejected (ValueError/TypeError) — but an accepted one must never crash the interpreter.
One family per subprocess: payload {"family": name, "seed": s, "n": trials, "skip": [first components not to try]};
output {"accepted": k, "tried": n}.
The last descriptor tried is written to the progress file before it is used.
"""
import logging
import os
import random
import sys

sys.path.insert(0, os.path.dirname(os.path.abspath(__file__)))
import dlib  # noqa: E402

logging.disable(logging.CRITICAL)

from traits.api import HasTraits, Int  # noqa: E402
from traits.ctrait import CTrait  # noqa: E402


class H(HasTraits):
    v = Int(3)


def f0():
    return 1


def f1(a):
    return a


def f3(a, b, c):
    return c


VALS = [0, 1, -1, 5, 1.5, "a", None, (1, 2), [1], {"a": 1}, int, str, len, f1, (int,), (None, int), (int, None, str),
        (1,), ((1,),), ((20,), (21,)), ((1, int),), 2 ** 70, True, (), ((),), "abc", b"x", H, (H,), ((0, int), (5, (1, 2)))]


def exercise(ct, progress, desc):
    o = H()
    for v in VALS[:24]:
        try:
            ct.validate(o, "x", v)
        except Exception:
            pass
    try:
        ct.default_value_for(o, "x")
    except Exception:
        pass
    try:
        o.add_trait("q", ct)
    except Exception:
        return
    for v in VALS[:12]:
        for f in (lambda: setattr(o, "q", v), lambda: getattr(o, "q"), lambda: delattr(o, "q")):
            try:
                f()
            except Exception:
                pass
    try:
        ct.__getstate__()
    except Exception:
        pass


def main():
    p = dlib.load()
    rnd = random.Random(p["seed"])
    fam = p["family"]
    prog = open(p["progress"], "w")
    accepted = 0
    for trial in range(p["n"]):
        ct = CTrait(0)
        if fam.startswith("validate"):
            kind = int(fam[8:])
            desc = (kind,) + tuple(rnd.choice(VALS) for _ in range(rnd.randint(0, 3)))
            call = lambda: ct.set_validate(desc)          # noqa: E731
        elif fam == "default":
            desc = (rnd.randint(-2, 12), rnd.choice(VALS))
            call = lambda: ct.set_default_value(*desc)    # noqa: E731
        elif fam == "property":
            desc = (rnd.choice([f0, f1, f3, 5, None]), rnd.randint(-1, 5), rnd.choice([f0, f1, f3, None]),
                    rnd.randint(-1, 5), rnd.choice([f1, f3, None, 5]), rnd.randint(-1, 5))
            call = lambda: ct._set_property(*desc)        # noqa: E731
        elif fam == "delegate":
            desc = (rnd.choice(["v", "", "zz", 5]), rnd.choice(["v", "", "p_", 5]), rnd.randint(-3, 6), rnd.choice([0, 1]))
            call = lambda: ct.delegate(*desc)             # noqa: E731
        elif fam == "kind":
            desc = (rnd.randint(-3, 12),)

            def call():
                c2 = CTrait(*desc)
                c2.__dict__ = {}
                exercise(c2, prog, desc)
        else:
            desc = (rnd.choice(["comparison_mode", "post_setattr", "handler", "is_mapped", "modify_delegate",
                                "setattr_original_value", "__dict__"]), rnd.choice(VALS))
            call = lambda: setattr(ct, desc[0], desc[1])  # noqa: E731
        if desc[0] in p.get("skip", []):
            continue
        prog.seek(0)
        prog.truncate()
        prog.write("%s\n%r\n" % (desc[0], desc))
        prog.flush()
        try:
            call()
        except Exception:
            continue
        accepted += 1
        ct.__dict__ = {} if not isinstance(getattr(ct, "__dict__", None), dict) else ct.__dict__
        exercise(ct, prog, desc)
    prog.close()
    dlib.dump(dict(accepted=accepted, tried=p["n"]))


if __name__ == "__main__":
    main()
