"""C17 implementation driver: builds the described type hierarchy (plain classes, multiple
inheritance, ABCs with registrations), registers instrumented adaptation offers on a fresh
AdaptationManager, runs every query through the requested entry point of the tree under
test and records a canonical outcome.  Also reports the issubclass table and the MROs of the
hierarchy as the interpreter sees them (inputs of the model, CPython built-ins)."""
import abc
import inspect
import types as pytypes
import warnings
import os
import signal
import sys

sys.path.insert(0, os.path.dirname(os.path.abspath(__file__)))
import dlib  # noqa: E402

from traits.api import AdaptsTo, Either, HasTraits, Instance, Int, Supports, TraitError  # noqa: E402
from traits.adaptation.api import (  # noqa: E402
    AdaptationError, AdaptationManager, AdaptationOffer, adapt, reset_global_adaptation_manager,
    set_global_adaptation_manager, supports_protocol)
from traits import api as traits_api  # noqa: E402

BUILTINS = {"dict": dict, "float": float, "list": list}

DEFAULT = object()
warnings.simplefilter("ignore")      # Either is deprecated in favour of Union; it is what reaches validate_trait_complex
QUERY_LIMIT_S = 5      # a query that runs longer is reported as a (non-terminating) failure, not waited for


TIMEOUTS = [0]           # after two timeouts the limit drops to 0.25 s so that a looping search cannot stall the run


class QueryTimeout(BaseException):
    pass


def _alarm(signum, frame):
    raise QueryTimeout()

ATTR = {"inst0": "i0", "inst1": "i1", "inst2": "i2", "Supports": "sup", "AdaptsTo": "ada",
        "either0": "e0", "either1": "e1", "either2": "e2"}


class Adapter:
    """What an instrumented factory returns: remembers the chain of offer ids that built it."""

    def __init__(self, adaptee, oid):
        self.chain = getattr(adaptee, "chain", ()) + (oid,)
        self.root = getattr(adaptee, "root", adaptee)


def make_factory(oid, fac):
    kind = fac[0]

    def factory(adaptee):
        chain = getattr(adaptee, "chain", ())
        root = getattr(adaptee, "root", adaptee)
        if kind == "A":
            ok = True
        elif kind == "N":
            ok = False
        elif kind == "F":
            ok = bool(getattr(root, "flag", False))
        elif kind == "D":
            ok = len(chain) <= fac[1]
        elif kind == "X":
            ok = not (chain and chain[-1] == fac[1])
        elif kind == "K":
            ok = fac[1] in chain
        else:
            raise ValueError(fac)
        return Adapter(adaptee, oid) if ok else None

    return factory


def build_types(case):
    ts = []
    for i, d in enumerate(case["types"]):
        if d.get("builtin"):          # the protocol IS a builtin value type (Supports(dict), Instance(float, adapt="yes"))
            ts.append(BUILTINS[d["builtin"]])
            continue
        bases = tuple(ts[j] for j in d["bases"]) or (object,)
        meta = abc.ABCMeta if d.get("abc") else type
        # every class lives in its own (fictitious) module; a case may give several classes the SAME __name__
        ts.append(meta(d.get("name", "T%d" % i), bases, {"__module__": "verif_c17_module_%d" % i}))
    for a, b in case.get("regs", []):
        ts[a].register(ts[b])
    for cls, protos in case.get("provides", []):       # the documented decorator: @provides(P1, P2, ...) class K
        traits_api.provides(*[ts[p_] for p_ in protos])(ts[cls])
    # the fictitious modules exist, so that 'module.Name' strings can be resolved by import_symbol (lazy offers)
    for i, t in enumerate(ts):
        if t.__module__ != "builtins" and not case.get("lazy"):
            sys.modules.pop(t.__module__, None)       # classes given as objects: their module need not be importable
        elif t.__module__ != "builtins":
            mod = sys.modules.get(t.__module__) or pytypes.ModuleType(t.__module__)
            for k in [k for k in vars(mod) if not k.startswith("__")]:
                delattr(mod, k)
            setattr(mod, t.__name__, t)
            sys.modules[t.__module__] = mod
    return ts


def classify(r, obj, default):
    if r is obj:
        return ["self"]
    if r is default:
        return ["default"]
    if isinstance(r, Adapter) and r.root is obj:
        return ["adapter", list(r.chain)]
    return ["other"]


def run_case(case):
    try:
        ts = build_types(case)
    except (TypeError, RuntimeError, AttributeError):
        return {"ok": False}
    n = len(ts)

    def tables():
        return ([[1 if issubclass(ts[a], ts[b]) else 0 for b in range(n)] for a in range(n)],
                [[ts.index(c) for c in inspect.getmro(t) if c in ts] for t in ts])

    sub, mro = tables()
    m = AdaptationManager()
    noffers = [0]

    fmod = pytypes.ModuleType("verif_c17_factories")
    sys.modules["verif_c17_factories"] = fmod

    def dotted(t):
        return "%s.%s" % (t.__module__, t.__name__)

    def add_offer(f, t, fac):
        factory = make_factory(noffers[0], fac)
        if case.get("lazy"):
            # the documented lazy-loading form: factory and protocols given as 'module.Name' strings
            setattr(fmod, "f%d" % noffers[0], factory)
            offer = AdaptationOffer(factory="verif_c17_factories.f%d" % noffers[0], from_protocol=dotted(ts[f]),
                                    to_protocol=dotted(ts[t]))
        else:
            offer = AdaptationOffer(factory=factory, from_protocol=ts[f], to_protocol=ts[t])
        m.register_offer(offer)
        noffers[0] += 1

    for f, t, fac in case["offers"]:
        add_offer(f, t, fac)
    set_global_adaptation_manager(m)
    holders = {}

    def holder(tgt):
        if tgt not in holders:
            T = ts[tgt]

            class H(HasTraits):
                i0 = Instance(T, adapt="no")
                i1 = Instance(T, adapt="yes")
                i2 = Instance(T, adapt="default")
                sup = Supports(T)
                ada = AdaptsTo(T)
                e0 = Either(Supports(T), Int)
                e1 = Either(Int, Supports(T))
                e2 = Either(Instance(T, adapt="default"), Int)
            holders[tgt] = H
        return holders[tgt]()

    obs = []
    for op in case["ops"]:
        if op[0] == "register":          # history: ABCMeta.register between queries
            try:
                ts[op[1]].register(ts[op[2]])
                s2, m2 = tables()
                obs.append({"k": "mut", "sub": s2, "mro": m2})
            except (TypeError, RuntimeError, AttributeError):
                obs.append({"k": "mutfail"})
            continue
        if op[0] == "offer":             # history: register_offer between queries
            add_offer(op[1], op[2], op[3])
            obs.append({"k": "mut"})
            continue
        if op[0] == "reset_global":     # somebody resets the global manager: the user's own manager must keep its offers
            reset_global_adaptation_manager()
            obs.append({"k": "mut"})
            continue
        if op[0] == "set_global":       # the user's manager is installed as the global one again
            set_global_adaptation_manager(m)
            obs.append({"k": "mut"})
            continue
        src, tgt, flag, api = op
        obj = ts[src]()
        try:
            obj.flag = bool(flag)
        except AttributeError:          # instances of builtin types take no attributes: their flag reads False
            pass
        signal.setitimer(signal.ITIMER_VIRTUAL, QUERY_LIMIT_S if TIMEOUTS[0] < 2 else 0.25)   # CPU time: immune to machine load
        try:
            if TIMEOUTS[0] >= 20:
                raise QueryTimeout()
            if api == "adapt":
                o = {"k": "value", "v": classify(m.adapt(obj, ts[tgt]), obj, DEFAULT)}
            elif api == "adapt_module":      # the documented public function, no default: traits.api.adapt(obj, P)
                o = {"k": "value", "v": classify(traits_api.adapt(obj, ts[tgt]), obj, DEFAULT)}
            elif api == "adapt_default":
                o = {"k": "value", "v": classify(adapt(obj, ts[tgt], DEFAULT), obj, DEFAULT)}
            elif api == "supports":
                o = {"k": "bool", "b": bool(supports_protocol(obj, ts[tgt]))}
            else:
                h = holder(tgt)
                attr = ATTR[api]
                setattr(h, attr, obj)
                o = {"k": "stored", "v": classify(getattr(h, attr), obj, None)}
                if attr + "_" in h.__dict__:
                    o["shadow"] = classify(h.__dict__[attr + "_"], obj, None)
        except AdaptationError:
            o = {"k": "AdaptationError"}
        except TraitError:
            o = {"k": "TraitError"}
        except QueryTimeout:
            TIMEOUTS[0] += 1
            o = {"k": "other", "exc": "no answer within %d s of CPU time" % QUERY_LIMIT_S}
        except Exception as e:  # noqa: BLE001
            o = {"k": "other", "exc": type(e).__name__}
        finally:
            signal.setitimer(signal.ITIMER_VIRTUAL, 0)
        obs.append(o)
    return {"ok": True, "sub": sub, "mro": mro, "obs": obs}


def main():
    signal.signal(signal.SIGVTALRM, _alarm)
    cases = dlib.load()
    dlib.dump([run_case(c) for c in cases])


if __name__ == "__main__":
    main()
