"""C15: the 13-symbol alphabet, grid enumeration, canonical integer encoding of an outcome and the 63-bit rolling
digest.  Pure Python (no traits import): used by the driver (implementation side) and by tools/props/c15.py.
Mirrors coq/C15/Corr.v (sym, str_of, enc_outcome, dstep)."""

ALPHABET = ["a", "b", "items", "+", "*", ".", ":", ",", "[", "]", " ", "é", "1"]
BASE = len(ALPHABET)
MASK = (1 << 63) - 1


def grid_string(L, i):
    """i-th string of length L in itertools.product(ALPHABET, repeat=L) order."""
    out = []
    for _ in range(L):
        out.append(ALPHABET[i % BASE])
        i //= BASE
    return "".join(reversed(out))


def enc_word(w):
    return [len(w)] + list(w)


def enc_node(n):
    k = n[0]
    if k == "N":
        return [1, int(n[2]), int(n[3])] + enc_word(n[1])
    if k == "F":
        if n[2] == "any":
            return [2, int(n[1])]
        return [3, int(n[1])] + enc_word(n[2][1])
    if k in ("D", "L", "S"):
        return [{"D": 4, "L": 5, "S": 6}[k], int(n[1]), int(n[2])]
    return [99]


def enc_graph(g):
    out = enc_node(g[0]) + [len(g[1])]
    for c in g[1]:
        out += enc_graph(c)
    return out


def enc_outcome(o):
    if o["o"] == "rej":
        return [0]
    if o["o"] == "cerr":
        return [1]
    if o["o"] == "graphs":
        out = [2, len(o["g"])]
        for g in o["g"]:
            out += enc_graph(g)
        return out
    return [98]


def dstep(h, c):
    return (h * 1000003 + c + 7) & MASK
