"""C01 implementation driver: histories of assignments (attribute assignment, trait_set,
constructor keywords) to validated attributes of a HasTraits class built from the case's trait
descriptions, on the tree under test; records outcome class, whether a TraitError names the
attribute, and the instance dictionary (trait and shadow names) after every operation."""
import os
import sys

sys.path.insert(0, os.path.dirname(os.path.abspath(__file__)))
import dlib  # noqa: E402
import pvlib  # noqa: E402
from traits.api import HasTraits, Instance, Int, Property, PrototypedFrom, Range, TraitError  # noqa: E402

PYNAME = {0: "x", 1: "other", 2: "y", 3: "z"}


def snapshot(pool, obj, nids):
    out = []
    for n in nids:
        for nid, name in ((n, PYNAME[n]), (n + 1000, PYNAME[n] + "_")):
            if name not in obj.__dict__ and nid == n:
                # a settable validated Property stores into its backing entry, a name-based Range into its cache entry
                for alt in ("_%s_store" % name, "_traits_cache_" + name):
                    if alt in obj.__dict__:
                        name = alt
                        break
            if name in obj.__dict__:
                try:
                    out.append([nid, pool.enc(obj.__dict__[name])])
                except pvlib.Unencodable:
                    out.append([nid, ["POther", 99]])
    return out


def readable(pool, host, obj, case):
    """what READING each name-based Range yields, under pseudo-name n + 2000 — read from a clone that shares the
    dictionary's content, because the getter caches its default in __dict__"""
    out = []
    for t in case["traits"]:
        if t[1][0] in ("DRangeDyn", "DEnumDyn"):
            try:
                clone = host()
                clone.__dict__.update(obj.__dict__)
                out.append([t[0] + 2000, pool.enc(getattr(clone, PYNAME[t[0]]))])
            except Exception:
                pass
    return out


def run_case(case):
    pool0 = pvlib.Pool()
    body, moved, proto_body = {}, [], {}
    for t in case["traits"]:
        n, d = t[0], t[1]
        name = PYNAME[n]
        if d[0] == "DRangeI" and len(d) > 4 and d[4] == "dynamic":
            # Range(low='lo', high='hi'): bounds given BY TRAIT NAME; the bound traits start at d[5], d[6] and are moved
            # to the declared bounds d[1], d[2] before the history starts
            body["lo_" + name], body["hi_" + name] = Int(d[5]), Int(d[6])
            body[name] = Range(low="lo_" + name, high="hi_" + name, exclude_low=bool(d[3] & 1), exclude_high=bool(d[3] & 2))
            moved += [("lo_" + name, d[1]), ("hi_" + name, d[2])]
        elif len(t) > 2 and t[2] == "prototyped":
            # x = PrototypedFrom('parent'): assignments are validated by the PARENT's trait and stored on this object
            proto_body[name] = pvlib.trait(d, pool0)
            body[name] = PrototypedFrom("parent")
        elif len(t) > 2 and t[2] == "property":
            # settable validated Property: Property(<trait>) with _get/_set storing into a backing entry
            body[name] = Property(pvlib.trait(d, pool0))
            body["_get_" + name] = (lambda nm: lambda self: self.__dict__.get("_%s_store" % nm))(name)
            body["_set_" + name] = (lambda nm: lambda self, value: self.__dict__.__setitem__("_%s_store" % nm, value))(name)
        else:
            body[name] = pvlib.trait(d, pool0)
    parent_cls = None
    if proto_body:
        parent_cls = type("Parent", (HasTraits,), proto_body)
        body["parent"] = Instance(parent_cls)
    host0 = type("Host", (pvlib.HostBase,), body)
    if parent_cls is not None:      # every instance gets its own prototype object
        host = type("Host", (host0,), {"__init__": lambda self, **kw: host0.__init__(self, parent=parent_cls(), **kw)})
    else:
        host = host0
    pvlib.apply_later(pool0)
    hostsub = type("HostSub", (host,), {})
    pool = pvlib.Pool(host, hostsub)
    descs = {t[0]: t[1] for t in case["traits"]}
    nids = [t[0] for t in case["traits"]]
    obj = host()
    for k, val in moved:
        setattr(obj, k, val)
    fresh = host()
    defaults = []
    for n in nids:
        try:
            try:
                dv = getattr(fresh, PYNAME[n])
            except Exception:      # F19: reading the default of Either(Map, ...) raises in post_setattr
                dv = fresh.trait(PYNAME[n]).default_value()[1]
            defaults.append([n, pool.enc(dv)])
        except Exception:
            defaults.append([n, ["POther", 99]])
    # attributes READ before the history starts: the read stores the (unvalidated) default in __dict__
    for n in case.get("pre", []):
        try:
            getattr(obj, PYNAME[n])
        except Exception:      # a read that raises stores nothing: law clause 8 judges the dictionary
            pass
    init = snapshot(pool, obj, nids)
    steps, orc, rem = [], [], []
    for how, kws in case["ops"]:
        vals = [(n, pool.val(vj)) for n, vj in kws]
        if case.get("pre") and how != "Ctor":
            # "assign the very object just read": when the value to assign is described like the object that is stored
            # under that name, assign that object itself (same identity)
            same = []
            for (n, v), (_, vj) in zip(vals, kws):
                cur = obj.__dict__.get(PYNAME[n], same)
                try:
                    # (not a NaN: containment tests go by identity first, which the value model does not have)
                    if cur is not same and type(cur) is type(v) and pool.enc(cur) == vj and "FNaN" not in repr(vj):
                        v = cur
                except Exception:
                    pass
                same.append((n, v))
            vals = same
        for (n, v) in vals:
            o2, r2 = pvlib.oracles(pool, descs[n], v)
            orc += [x for x in o2 if x not in orc]
            rem += [x for x in r2 if x not in rem]
        venc = [pool.enc(v) for _, v in vals]      # before the operation: a mutated argument is an observation
        out, names = "Ok", False
        try:
            if how == "Attr":
                for n, v in vals:
                    setattr(obj, PYNAME[n], v)
            elif how == "TraitSet":
                obj.trait_set(**{PYNAME[n]: v for n, v in vals})
            elif how == "TraitSetQ":            # the quiet route: notifications off while assigning
                obj.trait_set(trait_change_notify=False, **{PYNAME[n]: v for n, v in vals})
            elif how == "TraitSetq":
                obj.trait_setq(**{PYNAME[n]: v for n, v in vals})
            else:
                obj = host(**{PYNAME[n]: v for n, v in vals})
        except TraitError as e:
            out = "ETraitError"
            names = any(("'%s'" % PYNAME[n]) in str(e) for n, _ in vals)
        except TypeError:
            out = "ETypeError"
        except ValueError:
            out = "EValueError"
        except OverflowError:
            out = "EOverflowError"
        except Exception:
            out = "EOtherError"
        try:
            mut = [pool.enc(v) for _, v in vals] != venc
        except pvlib.Unencodable:
            mut = True
        steps.append({"out": out, "names": names, "after": snapshot(pool, obj, nids) + readable(pool, host, obj, case),
                      "venc": venc, "mut": mut})
    return {"steps": steps, "orc": orc, "re": rem, "defaults": defaults, "init": init}


def main():
    if "--env" in sys.argv:
        dlib.dump({"sub": pvlib.sub_pairs()})
        return
    dlib.dump([run_case(c) for c in dlib.load()])


main()
