"""C12 implementation driver: Property(observe=...) traits, cached and not, on the tree under test.

For every step of a generated history it records: the value read, an INDEPENDENT recomputation of the
property from the raw object graph (plain Python over __dict__-level data, never through the property),
the canonical observed view (the values of everything the observe expression matches, from a
from-scratch walk), how often the getter ran, the (old, new) events a listener of the property received,
how often the property's observe handler fired (counted through an override of trait_property_changed,
public API) and the cache slot in __dict__."""
import copy
import json
import logging
import os
import pickle
import sys

sys.path.insert(0, os.path.dirname(os.path.abspath(__file__)))
import dlib  # noqa: E402

logging.disable(logging.CRITICAL)

from traits.api import (  # noqa: E402
    Any, ComparisonMode, Dict, HasTraits, Instance, Int, List, Property, Set, Str, Undefined, cached_property)

GETTER = {}      # (id(obj), name) -> calls
DELIVERED = {}   # id(obj) -> {name: calls}


def bump(obj, name):
    GETTER[(id(obj), name)] = GETTER.get((id(obj), name), 0) + 1


class Node(HasTraits):
    value = Int()
    other = Int()
    child = Instance(HasTraits)
    kids = List(Instance(HasTraits))
    m = Dict(Str, Instance(HasTraits))
    s = Set(Instance(HasTraits))
    nums = List(Int)
    # a dependency compared by identity: an equal but distinct value IS a change (1 -> 1.0 -> True)
    raw = Any(1, comparison_mode=ComparisonMode.identity)
    # traits selected through metadata (`+offset`): the metadata VALUE may be anything but None, also 0
    off0 = Int(offset=0)
    off1 = Int(offset=10)
    # a dependency that is not part of the pickled state
    tval = Int(transient=True)


def f_scalar(o):
    return o.value * 3 + 1


def f_child(o):
    return o.child.value + 7 if o.child is not None else -1


def f_kids(o):
    return sum((i + 1) * k.value for i, k in enumerate(o.kids)) + 100 * len(o.kids)


def f_dict(o):
    return sum(v.value * (ord(k[-1]) - 95) for k, v in o.m.items()) + 10 * len(o.m)


def f_set(o):
    return sum(v.value for v in o.s) + 1000 * len(o.s)


def f_nums(o):
    return sum((i + 2) * n for i, n in enumerate(o.nums))


def f_nested(o):
    return sum(k.value for k in o.child.kids) if o.child is not None else -5


def f_kidchild(o):
    return sum(k.child.value if k.child is not None else 1 for k in o.kids)


def f_multi(o):
    return o.value + 2 * f_child(o) + f_nums(o)


def f_mitems(o, idx):
    # depends on the keys and on WHICH objects are the values (not on their traits); an object outside the pool
    # (copy.deepcopy of a HasTraits leaves the values of a Dict trait shared with the original) counts as -9
    return sum((ord(k[-1]) - 90) * (idx.get(id(v), -9) + 1) for k, v in o.m.items())


def f_sitems(o, idx):
    return sum(idx.get(id(v), -9) + 1 for v in o.s) + 50 * len(o.s)


def f_area(o):
    return o.value * 7 + o.other * 3


def f_meta(o):
    return o.off0 * 3 + o.off1 * 7 + 1


def f_trans(o):
    return o.tval * 2 + 1


def f_maybe(o):
    # legitimately None in some states ("current selection or None"): None is a value like any other
    return None if o.value % 2 == 0 else o.value * 5


def f_dynchild(o):
    # the dependency is an INSTANCE trait of the child (added with add_trait before the child is attached)
    c = o.child
    return c.extra * 2 + 1 if c is not None else -1


# while a pickle is restored: {"name": dependency restored first, "attr": property to read in its static handler}
RESTORE_READ = {}


def _static_value_changed(self, new):
    # an ordinary static change handler that reads the (cached) property, e.g. to keep a log up to date
    if RESTORE_READ.get("name") == "value":
        getattr(self, RESTORE_READ["attr"])


def _static_other_changed(self, new):
    if RESTORE_READ.get("name") == "other":
        getattr(self, RESTORE_READ["attr"])


def f_raw(o):
    # sensitive to the type of the value, not only to its equality class
    v = o.raw
    return [int, float, bool].index(type(v)) * 10 + int(v)


RAW_VALUES = [lambda: 1, lambda: float("1.0"), lambda: True, lambda: 2, lambda: float("2.0"), lambda: False,
              lambda: 0, lambda: float("0.0")]


def f_inner(o):
    return o.value // 2


def f_chain(o):
    # depends on another observed (cached) property, which is not injective in `value`
    return 5 * f_inner(o) + 2


# name -> (observe expression, function, view spec)
PROPS = {
    "scalar": ("value", f_scalar),
    "child": ("child.value", f_child),
    "kids": ("kids.items.value", f_kids),
    "dict": ("m.items.value", f_dict),
    "set": ("s.items.value", f_set),
    "nums": ("nums.items", f_nums),
    "nested": ("child.kids.items.value", f_nested),
    "kidchild": ("kids.items.child.value", f_kidchild),
    "multi": (["value", "child.value", "nums.items"], f_multi),
    "chain": ("c_inner", f_chain),
    "mitems": ("m.items", None),
    "sitems": ("s.items", None),
    "raw": ("raw", f_raw),
    "area": (["value", "other"], f_area),
    "maybe": ("value", f_maybe),
    "meta": ("+offset", f_meta),
    "trans": ("tval", f_trans),
}
IDX = {}          # id(obj) -> pool index of the case being run (for the identity-dependent getters)
IDFUNS = {"mitems": f_mitems, "sitems": f_sitems}


def _mk(name, fn, cached):
    def getter(self):
        bump(self, ("c_" if cached else "u_") + name)
        if fn is None:
            return IDFUNS[name](self, IDX)
        return fn(self)
    getter.__name__ = "_get_%s_%s" % ("c" if cached else "u", name)
    return cached_property(getter) if cached else getter


_ns = {}
for _n, (_expr, _fn) in PROPS.items():
    _ns["c_" + _n] = Property(Int, observe=_expr)
    _ns["_get_c_" + _n] = _mk(_n, _fn, True)
    _ns["u_" + _n] = Property(Int, observe=_expr)
    _ns["_get_u_" + _n] = _mk(_n, _fn, False)


_ns["c_inner"] = Property(Int, observe="value")
_ns["_get_c_inner"] = cached_property(lambda self: self.value // 2)


# the same scalar dependency, but with the getter given explicitly to Property() (a CTrait of kind property is
# built at once, not a ForwardProperty resolved by the metaclass from the `_get_<name>` method)
def _mk_explicit(cached):
    nm = ("c_" if cached else "u_") + "xscalar"

    def getter(self):
        bump(self, nm)
        return f_scalar(self)
    getter.__name__ = "_get_" + nm
    return Property(cached_property(getter) if cached else getter, observe="value")


_ns["c_xscalar"] = _mk_explicit(True)
_ns["u_xscalar"] = _mk_explicit(False)
EXTRA_PROPS = {"xscalar": f_scalar, "dynchild": f_dynchild, "tname": f_scalar}


# properties with ordinary names that start with one of the letters of "_get_" (total, text): the cache slot of a
# cached property is "_traits_cache_" + <name>, whatever the name starts with
def _get_total(self):
    bump(self, "total")
    return f_scalar(self)


def _get_text(self):
    bump(self, "text")
    return f_scalar(self)


_ns["total"] = Property(Int, observe="value")
_ns["_get_total"] = cached_property(_get_total)
_ns["text"] = Property(Int, observe="value")
_ns["_get_text"] = _get_text
ATTRS = {("tname", True): "total", ("tname", False): "text"}


def f_other(o):
    return o.other * 3 + 1


def _tpc(self, name, old, *rest):
    d = DELIVERED.setdefault(id(self), {})
    d[name] = d.get(name, 0) + 1
    return HasTraits.trait_property_changed(self, name, old, *rest)


_ns["_value_changed"] = _static_value_changed
_ns["_other_changed"] = _static_other_changed
_ns["trait_property_changed"] = _tpc
_ns["__module__"] = __name__
Root = type("Root", (Node,), _ns)


def _mk_sub(name, fn):
    def getter(self):
        bump(self, "u_" + name)
        if fn is None:
            return IDFUNS[name](self, IDX)
        return fn(self)
    getter.__name__ = "_get_u_%s" % name
    return cached_property(getter)


# a subclass that REDECLARES an inherited observed property with another dependency: only the subclass's
# expression may invalidate it (a change of `value`, the base class's dependency, is not relevant any more)
def _redecl_getter(self):
    bump(self, "c_scalar")
    return f_other(self)


_redecl_getter.__name__ = "_get_c_scalar"
RootRedecl = type("RootRedecl", (Root,), {"c_scalar": Property(Int, observe="other"),
                                          "_get_c_scalar": cached_property(_redecl_getter),
                                          "__module__": __name__})


# a subclass that overrides ONLY the getter methods of the inherited (uncached) observed properties and
# marks them @cached_property; the Property declarations themselves are inherited
RootSub = type("RootSub", (Root,), dict([("_get_u_" + _n, _mk_sub(_n, _fn)) for _n, (_e, _fn) in PROPS.items()]
                                        + [("__module__", __name__)]))


# a class whose property depends on an INSTANCE trait of the child through a required name (every object of the pool
# gets the trait with add_trait before the links are set)
# an owner whose CONSTRUCTION touches the observed container defaults (the documented traits_init hook): the default
# values are created, and must be hooked, while the object is still being constructed
class RootTouch(Root):
    def traits_init(self):
        self.kids, self.m, self.s, self.nums


# pool objects that have an observed (cached) Property themselves, and an owner that observes ALL traits of its child
# with the `*` wildcard: a change two levels down changes only the child's COMPUTED trait
class NodeK(Node):
    ksum = Property(Int, observe="kids.items.value")

    @cached_property
    def _get_ksum(self):
        return sum(k.value for k in self.kids)


def f_star(o):
    c = o.child
    return c.value + 10 * sum(k.value for k in c.kids) if c is not None else -1


EXTRA_PROPS["star"] = f_star
RootStar = type("RootStar", (Root,), {
    "c_star": Property(Int, observe="child.*"), "_get_c_star": _mk("star", f_star, True),
    "u_star": Property(Int, observe="child.*"), "_get_u_star": _mk("star", f_star, False),
    "__module__": __name__})


RootDynChild = type("RootDynChild", (Root,), {
    "c_dynchild": Property(Int, observe="child.extra"), "_get_c_dynchild": _mk("dynchild", f_dynchild, True),
    "u_dynchild": Property(Int, observe="child.extra"), "_get_u_dynchild": _mk("dynchild", f_dynchild, False),
    "__module__": __name__})


# ---------- from-scratch view of what the observe expression matches ----------
PATHS = {
    "scalar": [["value"]], "child": [["child", "value"]], "kids": [["kids", "*", "value"]],
    "dict": [["m", "*", "value"]], "set": [["s", "*", "value"]], "nums": [["nums", "*"]],
    "nested": [["child", "kids", "*", "value"]], "kidchild": [["kids", "*", "child", "value"]],
    "multi": [["value"], ["child", "value"], ["nums", "*"]],
    "mitems": [["m", "*"]], "sitems": [["s", "*"]], "xscalar": [["value"]], "redecl": [["other"]],
    "area": [["value"], ["other"]], "maybe": [["value"]], "dynchild": [["child", "extra"]], "tname": [["value"]],
    "meta": [["off0"], ["off1"]], "trans": [["tval"]],
}
# (the "raw" and "chain" shapes have their own view below)
TCODE = {"value": 1, "other": 2, "child": 3, "kids": 4, "m": 5, "s": 6, "nums": 7, "extra": 8, "off0": 9, "off1": 10, "tval": 11}


SCALARS = ("value", "other", "extra", "off0", "off1", "tval")
EMPTY = {"kids": list, "nums": list, "m": dict, "s": set}


def members(c):
    if isinstance(c, dict):
        return [c[k] for k in sorted(c)]
    if isinstance(c, (set, frozenset)):
        return list(c)
    return list(c)


def walk(obj, path, idx, matched, view):
    """matched: set of ('t', id(obj), trait) / ('c', id(container)); view: canonical ints."""
    if obj is None or not path:
        return
    name = path[0]
    if name == "*":
        matched.add(("c", id(obj)))
        ms = members(obj)
        if isinstance(obj, dict):
            view += [-2, len(ms)] + [ord(k[-1]) for k in sorted(obj)]
        elif isinstance(obj, (set, frozenset)):
            ms = sorted(ms, key=lambda x: idx.get(id(x), -1) if not isinstance(x, int) else x)
            view += [-3, len(ms)]
        else:
            view += [-4, len(ms)]
        for x in ms:
            if isinstance(x, int):
                view.append(x)
            else:
                view.append(idx.get(id(x), -9))
                walk(x, path[1:], idx, matched, view)
        return
    matched.add(("t", id(obj), name))
    val = obj.__dict__.get(name)
    if name in SCALARS:
        view += [TCODE[name], idx.get(id(obj), -9), val if val is not None else 0]
        return
    if name == "child":
        view += [TCODE[name], idx.get(id(obj), -9), idx.get(id(val), -1) if val is not None else -1]
        walk(val, path[1:], idx, matched, view)
        return
    view += [TCODE[name], idx.get(id(obj), -9)]
    if val is None and name in EMPTY:
        # deleted / reset and not yet re-created: the trait's value is its (empty) default
        val = EMPTY[name]()
    walk(val, path[1:], idx, matched, view)


def snapshot_view(root, pname, idx):
    if pname == "raw":
        return {("t", id(root), "raw")}, [-7, f_raw(root)]
    if pname == "star":
        # `child.*`: every trait of the child; what its computed trait ksum depends on is reached through ksum
        c = root.__dict__.get("child")
        matched = {("t", id(root), "child")}
        if c is None:
            return matched, [-7, -1]
        matched |= {("t", id(c), nm) for nm in c.trait_names()}
        ks = list(c.__dict__.get("kids") or [])
        matched.add(("c", id(c.__dict__.get("kids"))))
        matched |= {("t", id(k), "value") for k in ks}
        return matched, [-7, idx.get(id(c), -9), c.__dict__.get("value") or 0, len(ks)] + \
            [x for k in ks for x in (idx.get(id(k), -9), k.__dict__.get("value") or 0)]
    if pname == "chain":
        # the dependency is itself a property: its value is the view, `value` is what a mutation touches
        return {("t", id(root), "value")}, [-7, f_inner(root)]
    matched, view = set(), []
    for p in PATHS[pname]:
        view.append(-7)
        walk(root, p, idx, matched, view)
    return matched, view


def run_case(case):
    pname, cached = case["prop"], case["cached"]
    sub = bool(case.get("sub"))
    added = case.get("added")                # "instance" / "class": the property is added with add_trait / add_class_trait
    redecl = bool(case.get("redecl"))        # prop "scalar", cached: c_scalar redeclared with observe="other"
    RootCls = RootRedecl if redecl else RootSub if sub else RootDynChild if pname == "dynchild" else Root
    touch = bool(case.get("touch")) and RootCls is Root      # the root's construction touches its container defaults
    if touch:
        RootCls = RootTouch
    if pname == "star":
        RootCls = RootStar
    NodeCls = NodeK if pname == "star" else Node
    attr = ATTRS.get((pname, cached)) or ("u_" if (sub or not cached) else "c_") + pname
    if added:
        # listed finding: has_traits.add_trait / add_class_trait ignore the `observe` metadata of a Property
        attr = "d_scalar"

        def _dyn_getter(self):
            bump(self, "d_scalar")
            return f_scalar(self)
        _dyn_getter.__name__ = "_get_d_scalar"
        dyn_trait = Property(cached_property(_dyn_getter) if cached else _dyn_getter, observe="value")
        if added == "class":
            RootCls = type("RootDyn", (Root,), {"__module__": __name__})
            RootCls.add_class_trait("d_scalar", dyn_trait)
    fn = f_other if redecl else EXTRA_PROPS[pname] if pname in EXTRA_PROPS else PROPS[pname][1]
    vname = "redecl" if redecl else pname
    if fn is None:
        def fn(o, _f=IDFUNS[pname]):
            return _f(o, IDX)
    n = case["n"]
    if case.get("kwargs"):
        # state given to the constructor: the observers are installed before the state is set
        pool = [None] * n
        for i in range(n - 1, -1, -1):
            d = case["init"][i]
            kw = dict(value=d["value"], kids=[pool[j] for j in d["kids"]], m={k: pool[j] for k, j in d["m"]},
                      s=set(pool[j] for j in d["s"]), nums=list(d["nums"]))
            if d.get("child") is not None:
                kw["child"] = pool[d["child"]]
            pool[i] = (RootCls if i == 0 else NodeCls)(**kw)
    else:
        pool = [RootCls()] + [NodeCls() for _ in range(n - 1)]
        if pname == "dynchild":
            for o in pool:
                o.add_trait("extra", Int())
        for i, d in enumerate(case["init"]):
            o = pool[i]
            o.value = d["value"]
            if d.get("child") is not None:
                o.child = pool[d["child"]]
            if touch and i == 0:
                # the defaults created during construction are filled in place, never reassigned
                o.kids.extend([pool[j] for j in d["kids"]])
                o.m.update({k: pool[j] for k, j in d["m"]})
                o.s.update(set(pool[j] for j in d["s"]))
                o.nums.extend(list(d["nums"]))
                continue
            o.kids = [pool[j] for j in d["kids"]]
            o.m = {k: pool[j] for k, j in d["m"]}
            o.s = set(pool[j] for j in d["s"])
            o.nums = list(d["nums"])
    if added == "instance":
        pool[0].add_trait("d_scalar", dyn_trait)
    listeners = []      # [style, callable, events seen] in attachment order

    def canon(v):
        # values are ints; anything else (Undefined, None ...) is reported as a sentinel
        return v if type(v) is int else -99999

    ARM = {}        # {"pending": v2} while a SetArm step is running; {"mid": ...} once the clamp listener has fired

    def make_listener(style):
        seen = []
        if style == "clamp":
            # a listener of the property that changes ANOTHER dependency from inside the property's own
            # notification (re-entrant history): once per SetArm step it assigns root.other
            def fn(event):
                seen.append([None if event.old is Undefined else canon(event.old), canon(event.new)])
                if "pending" in ARM:
                    v2 = ARM.pop("pending")
                    _, view_ = snapshot_view(pool[0], vname, idx_of())
                    ARM["mid"] = {"oracle": canon(fn_oracle(pool[0])), "view": view_, "getter": gcount(),
                                  "delivered": dcount(), "cache": cache_slot(), "nevents": len(seen)}
                    pool[0].other = v2
            return ["observe", fn, seen]
        if style == "observe":
            def fn(event):
                seen.append([None if event.old is Undefined else canon(event.old), canon(event.new)])
        else:
            # legacy on_trait_change handler with the (object, name, old, new) signature
            def fn(obj, name, old, new):
                seen.append([None if old is Undefined else canon(old), canon(new)])
        return [style, fn, seen]

    def events_seen():
        # what ONE listener received; all listeners must have received the same
        if not listeners:
            return []
        first = [list(e) for e in listeners[0][2]]
        if any([list(e) for e in l_[2]] != first for l_ in listeners[1:]):
            return first + [[None, -77777]]
        return first

    def idx_of():
        d_ = {id(o): i for i, o in enumerate(pool)}
        IDX.clear()
        IDX.update(d_)
        return d_

    idx_of()

    def gcount():
        return GETTER.get((id(pool[0]), attr), 0)

    def dcount():
        return DELIVERED.get(id(pool[0]), {}).get(attr, 0)

    def cache_slot():
        v = pool[0].__dict__.get("_traits_cache_" + attr, Undefined)
        return None if v is Undefined else canon(v)

    matched, view0 = snapshot_view(pool[0], vname, idx_of())
    out = {"init_view": view0, "init_oracle": canon(fn(pool[0])), "hist": []}
    fn_oracle = fn
    nested_obs = None
    for opi, op in enumerate(case["ops"]):
        for l_ in listeners:
            del l_[2][:]
        g0, d0 = gcount(), dcount()
        k = op[0]
        val, touched, err = None, None, None
        if k == "Nested":
            # the second half of the preceding SetArm step: what the clamp listener's own assignment did
            if nested_obs is None:
                _, view = snapshot_view(pool[0], vname, idx_of())
                nested_obs = {"val": None, "oracle": canon(fn(pool[0])), "view": view, "getter": 0, "events": [],
                              "delivered": 0, "cache": cache_slot(), "touched": False, "err": None}
            out["hist"].append(nested_obs)
            nested_obs = None
            continue
        try:
            if k == "Read":
                val = canon(getattr(pool[0], attr))
            elif k == "Listen":
                l_ = make_listener(op[1] if len(op) > 1 else "observe")
                if l_[0] == "observe":
                    pool[0].observe(l_[1], attr)
                else:
                    pool[0].on_trait_change(l_[1], attr)
                listeners.append(l_)
            elif k == "Unlisten":
                l_ = listeners.pop()
                if l_[0] == "observe":
                    pool[0].observe(l_[1], attr, remove=True)
                else:
                    pool[0].on_trait_change(l_[1], attr, remove=True)
            elif k == "Copy":
                mode = op[1]
                if mode == "pickle":
                    if pname == "area":
                        # the static handler of the dependency that is restored FIRST reads the property during the
                        # restore; the restoration of the other dependency must flush what it cached
                        order = [k_ for k_ in pool[0].__getstate__() if k_ in ("value", "other")]
                        RESTORE_READ.update(name=order[0], attr=attr)
                    try:
                        newpool = pickle.loads(pickle.dumps(pool, op[2]))
                    finally:
                        RESTORE_READ.clear()
                elif mode == "deepcopy":
                    newpool = copy.deepcopy(pool)
                elif mode == "shallow":
                    # copy.copy of the root only: the new root shares children and items with the pool
                    newpool = [copy.copy(pool[0])] + pool[1:]
                else:
                    memo = {}
                    newroot = pool[0].clone_traits(memo=memo, copy="deep")
                    newpool = [memo.get(id(o), o) for o in pool]
                    newpool[0] = newroot
                pool[:] = newpool
                del listeners[:]          # dynamic listeners are not part of a copy
                idx_of()
                g0, d0 = gcount(), dcount()
            else:
                # a mutation: ["Set", i, trait, v] / list, dict, set operations
                o = pool[op[1]]
                matched, _ = snapshot_view(pool[0], vname, idx_of())
                if k == "SetArm":
                    # root.value = v with the clamp listener armed (only if the next step is its "Nested" half)
                    touched = ("t", id(o), "value") in matched
                    if opi + 1 < len(case["ops"]) and case["ops"][opi + 1][0] == "Nested":
                        ARM["pending"] = op[3]
                    try:
                        o.value = op[2]
                    finally:
                        ARM.pop("pending", None)
                elif k == "Redeclare":
                    # the dependency trait is declared again on this instance (add_trait of an existing name keeps
                    # the notifiers of the old trait): nothing changes, nothing may be lost
                    touched = ("t", id(o), op[2]) in matched
                    o.add_trait(op[2], Int(getattr(o, op[2])))
                elif k == "ReAdd":
                    # the instance trait is removed and added back (trait_added fires, the observers must be re-hooked);
                    # its value is the default before and after: nothing observable changes
                    touched = False
                    o.remove_trait("extra")
                    o.add_trait("extra", Int())
                elif k == "Reset":
                    # ["Reset", i, trait, how]: obj.reset_traits([trait]) / del obj.trait: back to the default value
                    touched = ("t", id(o), op[2]) in matched
                    if op[3] == 0:
                        o.reset_traits([op[2]])
                    elif op[2] in o.__dict__:
                        delattr(o, op[2])
                elif k == "SetRaw":
                    touched = ("t", id(o), "raw") in matched
                    o.raw = RAW_VALUES[op[2]]()
                elif k == "Set":
                    tr, v = op[2], op[3]
                    touched = ("t", id(o), tr) in matched
                    if tr in SCALARS:
                        setattr(o, tr, v)
                    elif tr == "child":
                        o.child = None if v is None else pool[v]
                    elif tr == "kids":
                        o.kids = [pool[j] for j in v]
                    elif tr == "m":
                        o.m = {kk: pool[j] for kk, j in v}
                    elif tr == "s":
                        o.s = set(pool[j] for j in v)
                    elif tr == "nums":
                        o.nums = list(v)
                else:
                    tr = op[2]
                    c = getattr(o, tr)
                    touched = ("c", id(c)) in matched
                    a = op[3:]
                    item = (lambda j: pool[j]) if tr != "nums" else (lambda j: j)
                    if k == "Append":
                        c.append(item(a[0]))
                    elif k == "Insert":
                        c.insert(a[0], item(a[1]))
                    elif k == "Pop":
                        c.pop(a[0])
                    elif k == "SetItem":
                        c[a[0]] = item(a[1])
                    elif k == "SetSame":
                        c[a[0]] = c[a[0]]
                    elif k == "Remove":
                        c.remove(item(a[0]))
                    elif k == "Clear":
                        c.clear()
                    elif k == "Extend":
                        c.extend([item(j) for j in a[0]])
                    elif k == "Reverse":
                        c.reverse()
                    elif k == "SetSlice":
                        # one slice assignment that keeps the items but changes their multiplicities (+ new items)
                        old_ = list(c)
                        c[:] = [old_[j] for j in range(len(old_)) for _ in range(a[0][j])] + [item(e) for e in a[1]]
                    elif k == "DSet":
                        c[a[0]] = pool[a[1]]
                    elif k == "DDel":
                        del c[a[0]]
                    elif k == "DUpdate":
                        c.update({kk: pool[j] for kk, j in a[0]})
                    elif k == "SAdd":
                        c.add(pool[a[0]])
                    elif k == "SInter":
                        c.intersection_update(*[[pool[j] for j in arg] for arg in a[0]])
                    elif k == "SDiff":
                        c.difference_update(*[[pool[j] for j in arg] for arg in a[0]])
                    elif k == "SUpdate":
                        c.update(*[[pool[j] for j in arg] for arg in a[0]])
                    elif k == "SSym":
                        c.symmetric_difference_update([pool[j] for j in a[0]])
                    elif k == "SDiscard":
                        c.discard(pool[a[0]])
                    else:
                        raise ValueError(k)
        except Exception as e:  # noqa: a violating implementation must yield an observation, not a crash
            err = type(e).__name__
        try:
            _, view = snapshot_view(pool[0], vname, idx_of())
            oracle = canon(fn(pool[0]))
        except Exception as e:  # noqa
            view, oracle = [-1], -88888
            err = err or ("oracle:" + type(e).__name__)
        mid = ARM.pop("mid", None)
        if mid is not None:
            ev_ = events_seen()
            nested_obs = {"val": None, "oracle": oracle, "view": view, "getter": gcount() - mid["getter"],
                          "events": ev_[mid["nevents"]:], "delivered": dcount() - mid["delivered"],
                          "cache": cache_slot(), "touched": True, "err": err}
            out["hist"].append({"val": None, "oracle": mid["oracle"], "view": mid["view"], "getter": mid["getter"] - g0,
                                "events": ev_[:mid["nevents"]], "delivered": mid["delivered"] - d0,
                                "cache": mid["cache"], "touched": touched, "err": None})
            continue
        out["hist"].append({"val": val, "oracle": oracle, "view": view, "getter": gcount() - g0,
                            "events": events_seen(), "delivered": dcount() - d0,
                            "cache": cache_slot(), "touched": touched, "err": err})
    return out


def main():
    cases = dlib.load()
    sys.stdout.write(json.dumps([run_case(c) for c in cases]))
    sys.stdout.flush()


main()
