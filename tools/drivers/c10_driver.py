"""C10 implementation driver: builds a HasTraits class (and a subclass overriding some
defaults) from the case's configuration, runs an interleaved history on several
instances and records, after every step, the value returned, the full view of the
target instance and digests of the views of all instances and of the class tables.

Views are taken without perturbing anything: __dict__, _instance_traits(),
__class_traits__, notifier lists, and the driver's own call counters / handler logs.
Objects are numbered in order of first appearance (oids); scalars have oid 0.
"""
import collections
import sys
import os
import uuid
import warnings

import numpy

sys.path.insert(0, os.path.dirname(os.path.abspath(__file__)))
import dlib  # noqa: E402

warnings.simplefilter("ignore")

from traits.api import (Any, Array, ComparisonMode, Enum, Range, TraitType, UUID, Dict, HasTraits, Int, List, Set, Tuple, Union, Undefined,  # noqa: E402
                        Uninitialized)
from traits.trait_notifiers import StaticTraitChangeNotifyWrapper  # noqa: E402
from traits.trait_list_object import TraitListObject  # noqa: E402
from traits.trait_dict_object import TraitDictObject  # noqa: E402

KINDS = ["KConst", "KListCopy", "KDictCopy", "KTraitList", "KTraitDict", "KTraitSet", "KFactory", "KMethod",
         "KTuple", "KUnion", "KEvent", "KMethodInt", "KTuple2", "KArray", "KUuid"]
MOD = 2305843009213693951


def digest(l):
    h = 0
    for c in l:
        h = (h * 1000003 + c + 7) & MOD
    return h


def enc_list(l):
    return [len(l)] + list(l)


def enc_value(v):
    out = [v["shape"], len(v["parts"])]
    for o, c in v["parts"]:
        out += [o] + enc_list(c)
    return out


def enc_tdef(t):
    return [KINDS.index(t["kind"]), t["scalar"], t["doid"], t["nnotif"], 1 if t["static"] else 0, t["cmp"], t["label"]] + \
        enc_list(t["content"])


def enc_inst(i):
    out = [i["cls"], len(i["dict"])]
    for n, v in i["dict"]:
        out += [n] + enc_value(v)
    out.append(len(i["itraits"]))
    for n, t in i["itraits"]:
        out += [n] + enc_tdef(t)
    out.append(len(i["calls"]))
    for n, c in i["calls"]:
        out += [n, c]
    out.append(len(i["log"]))
    for h, n, o, nw in i["log"]:
        out += [h, n] + enc_list(o) + enc_list(nw)
    out.append(len(i["regs"]))
    for n, h in i["regs"]:
        out += [n, h]
    return out


def enc_classes(cs):
    out = [len(cs)]
    for c in cs:
        out.append(len(c))
        for n, t in c:
            out += [n] + enc_tdef(t)
    return out


def dict_of(content):
    return {content[i]: content[i + 1] for i in range(0, len(content), 2)}


class UserList(list):
    """a list subclass instance as the declared default of an Any trait"""


class InferredDefault(TraitType):
    """a user-defined trait type whose default value kind is inferred from the default value (get_default_value)"""


class World:
    def __init__(self, case):
        self.case = case
        self.pool = {}          # id(obj) -> oid
        self.keep = []          # keeps numbered objects alive so that ids are never reused
        self.insts = []
        self.logs = {}          # id(instance) -> log
        self.counts = {}        # (instance index, name) -> calls of the default method / factory
        self.regs = []          # per instance: [(name, hid)]
        self.shadow = []        # per instance: {name: kind} of traits added with add_trait
        self.current = -1       # target of the running operation (for factories, which get no object)
        self.shared = {}        # shared id -> one CTrait object handed to add_trait on several instances
        self.cfg = {t["name"]: t for t in case["traits"]}
        self.sub = {o["name"]: o for o in case["sub"]}
        self.classes = self.build_classes()

    # ----- oids
    def oid(self, obj):
        if type(obj) is int or obj is None:
            return 0
        k = id(obj)
        if k not in self.pool:
            self.pool[k] = len(self.pool) + 1
            self.keep.append(obj)
        return self.pool[k]

    def index_of(self, obj):
        for i, o in enumerate(self.insts):
            if o is obj:
                return i
        return self.current if self.current >= len(self.insts) else -1

    # ----- values
    def content(self, v):
        if v is Uninitialized or v is Undefined:
            return [-1000]
        if type(v) is int:
            return [v]
        if type(v) is float:
            return [int(round(v * 10))]       # a float scalar is shown in tenths (3.5 -> 35; an int 3 stays 3)
        if isinstance(v, numpy.ndarray):
            return [int(x) for x in v.tolist()]
        if isinstance(v, uuid.UUID):
            return []
        if isinstance(v, list):
            return [x if type(x) is int else -7 for x in v]
        if isinstance(v, dict):
            out = []
            for a, b in v.items():
                out += [a, b]
            return out
        if isinstance(v, (set, frozenset)):
            return sorted(v)
        if isinstance(v, tuple) and len(v) == 2 and isinstance(v[0], list) and isinstance(v[1], list):
            return self.content(v[0]) + self.content(v[1])
        if isinstance(v, tuple) and len(v) == 2 and isinstance(v[0], list):
            return self.content(v[0]) + [v[1]]
        return [-999]

    def value(self, v):
        if type(v) is int:
            return {"shape": 0, "parts": [[0, [v]]]}
        if type(v) is float:
            return {"shape": 0, "parts": [[0, self.content(v)]]}
        if isinstance(v, numpy.ndarray):
            return {"shape": 8, "parts": [[self.oid(v), self.content(v)]]}
        if isinstance(v, uuid.UUID):
            return {"shape": 10, "parts": [[self.oid(v), []]]}
        if isinstance(v, list):
            shape = 5 if isinstance(v, TraitListObject) else 1
            return {"shape": shape, "parts": [[self.oid(v), self.content(v)]]}
        if isinstance(v, dict):
            return {"shape": 6 if isinstance(v, TraitDictObject) else 2, "parts": [[self.oid(v), self.content(v)]]}
        if isinstance(v, (set, frozenset)):
            return {"shape": 3, "parts": [[self.oid(v), self.content(v)]]}
        if isinstance(v, tuple) and len(v) == 2 and isinstance(v[0], list) and isinstance(v[1], list):
            return {"shape": 7, "parts": [[self.oid(v), []], [self.oid(v[0]), self.content(v[0])],
                                          [self.oid(v[1]), self.content(v[1])]]}
        if isinstance(v, tuple) and len(v) == 2 and isinstance(v[0], list) and type(v[1]) is int:
            return {"shape": 4, "parts": [[self.oid(v), []], [self.oid(v[0]), self.content(v[0])], [0, [v[1]]]]}
        return {"shape": 9, "parts": []}

    # ----- classes
    def build_classes(self):
        w = self

        def counted_method(name, content):
            def default(self):
                i = w.index_of(self)
                w.counts[(i, name)] = w.counts.get((i, name), 0) + 1
                return list(content)
            return default

        def counted_int_method(name, content):
            def default(self):
                i = w.index_of(self)
                w.counts[(i, name)] = w.counts.get((i, name), 0) + 1
                return content[0]
            return default

        def counted_factory(name, content):
            def factory():
                w.counts[(w.current, name)] = w.counts.get((w.current, name), 0) + 1
                return list(content)
            return factory

        def static_handler(name):
            def changed(self, old, new):
                w.logs.setdefault(id(self), []).append([0, name, w.content(old), w.content(new)])
            return changed

        ns = {}
        for t in self.case["traits"]:
            n, k, c = t["name"], t["kind"], t["content"]
            a = "t%d" % n
            md = {}
            if t.get("cmp", "equality") != "equality":
                md["comparison_mode"] = getattr(ComparisonMode, t["cmp"])
            if t.get("dyn_range"):
                # a dynamic range: bounds and default are read by name from the object; Base has int bounds and default
                # c, Sub float bounds and default c + 0.5 (so the value type differs between instances)
                ns["lo%d" % n], ns["hi%d" % n], ns["start%d" % n] = 0, 100, c[0]
                ns[a] = Range(low="lo%d" % n, high="hi%d" % n, value="start%d" % n)
            elif t.get("dyn_enum"):
                # a dynamic enumeration: the legal values are read by name from the object; without a default method
                # the default is the first legal value, with one (counted) it is what the method returns
                vals = [c[0], c[0] + 1, c[0] + 2] if k == "KConst" else [c[0] + 1, c[0], c[0] + 2]
                ns["choices%d" % n] = List(Int, vals)
                ns[a] = Enum(values="choices%d" % n, **md)
                if k == "KMethodInt":
                    ns["_%s_default" % a] = counted_int_method(n, c)
            elif k == "KConst":
                ns[a] = Int(c[0], **md)
            elif k == "KListCopy" and t.get("inferred"):
                ns[a] = InferredDefault(list(c), **md)
            elif k == "KDictCopy" and t.get("inferred"):
                ns[a] = InferredDefault(dict_of(c), **md)
            elif k == "KListCopy":
                ns[a] = Any(UserList(c) if t.get("subclass") else list(c), **md)
            elif k == "KDictCopy":
                ns[a] = Any(collections.OrderedDict(dict_of(c)) if t.get("subclass") else dict_of(c), **md)
            elif k == "KTraitList":
                ns[a] = List(Int, list(c), **md)
            elif k == "KTraitDict":
                ns[a] = Dict(Int, Int, dict_of(c), **md)
            elif k == "KTraitSet":
                ns[a] = Set(Int, set(c), **md)
            elif k == "KFactory":
                ns[a] = Any(factory=counted_factory(n, c), **md)
            elif k == "KMethod":
                ns[a] = List(Int, **md)
                ns["_%s_default" % a] = counted_method(n, c)
            elif k == "KMethodInt":
                ns[a] = Int(0, **md)
                ns["_%s_default" % a] = counted_int_method(n, c)
            elif k == "KTuple":
                ns[a] = Tuple(List(Int, list(c)), Int(t["scalar"]), **md)
            elif k == "KUuid":
                ns[a] = UUID(**md) if md else UUID          # the documented declaration is the bare class
            elif k == "KArray":
                ns[a] = Array(dtype=float, shape=(len(c),), value=[float(x) for x in c], **md)
            elif k == "KTuple2":
                ns[a] = Tuple(List(Int, list(c)), List(Int, [t["scalar"]]), **md)
            elif k == "KUnion":
                ns[a] = Union(List(Int, list(c)), Int, **md)
            else:
                raise ValueError(k)
            if t["static"]:
                ns["_%s_changed" % a] = static_handler(n)
        wild = self.case.get("wild")
        if wild:
            # a wildcard trait: every name not defined otherwise (t60, t61, ...) resolves through the prefix trait ""
            ns["_"] = Int(wild["default"])
            for n in wild["static"]:
                ns["_t%d_changed" % n] = static_handler(n)
        if self.case.get("anytrait"):
            def anytrait_changed(self, name, old, new):
                c = w.name_code(name)
                if 0 <= c < 999:        # the catch-all also sees "<name>_items" / trait_added events: not value changes
                    w.logs.setdefault(id(self), []).append([-5, c, w.content(old), w.content(new)])
            ns["_anytrait_changed"] = anytrait_changed
        shared = self.case.get("shared_ct")
        if shared:
            ct = Int(shared["value"]).as_ctrait()        # one ready-made CTrait object declared under several names
            for n in shared["names"]:
                ns["t%d" % n] = ct
            for n in shared["static"]:
                ns["_t%d_changed" % n] = static_handler(n)
        base = type(HasTraits)("Base", (HasTraits,), ns)
        ns2 = {}
        for o in self.case["sub"]:
            a = "t%d" % o["name"]
            if o["how"] == "const":
                ns2[a] = o["content"][0]
            elif o["how"] == "list":
                ns2[a] = list(o["content"])
            elif o["how"] == "method" and self.cfg[o["name"]]["kind"] in ("KConst", "KMethodInt"):
                ns2["_%s_default" % a] = counted_int_method(o["name"], o["content"])
            elif o["how"] == "method":
                ns2["_%s_default" % a] = counted_method(o["name"], o["content"])
            else:
                raise ValueError(o["how"])
        for t in self.case["traits"]:
            if t.get("dyn_range"):
                n = t["name"]
                ns2["lo%d" % n], ns2["hi%d" % n], ns2["start%d" % n] = 0.0, 100.0, t["content"][0] + 0.5
        sub = type(HasTraits)("Sub", (base,), ns2)
        return [base, sub]

    # ----- trait definitions as observed
    def name_code(self, s):
        if s == "trait_added":
            return -1
        if s.startswith("t") and s.endswith("_items") and s[1:-6].isdigit():
            return int(s[1:-6]) + 1000
        if s.startswith("t") and s[1:].isdigit():
            return int(s[1:])
        if s.startswith("_traits_cache_t") and s[15:].isdigit():
            return int(s[15:])          # the stored state of a property-like (dynamic) trait
        return 999

    def tdef(self, ct, n, cls_index, shadow_kind=None):
        notifiers = ct._notifiers(False) or []
        static = any(isinstance(x, StaticTraitChangeNotifyWrapper) for x in notifiers)
        t = {"kind": "KEvent", "content": [], "scalar": 0, "doid": 0, "nnotif": len(notifiers), "static": static,
             "cmp": 2, "label": 0}
        label = getattr(ct, "label", None)
        if label is not None:        # the `label` metadata of the definition (0: unset)
            t["label"] = int(label) if str(label).isdigit() else 999
        if ct.type == "event" or n is None or n in (-1, -2):      # "<name>_items" and trait_added traits
            return t
        t["cmp"] = {ComparisonMode.none: 0, ComparisonMode.identity: 1, ComparisonMode.equality: 2}[ct.comparison_mode]
        dvt, dv = ct.default_value()
        declared = self.cfg.get(n)
        over = self.sub.get(n) if cls_index == 1 else None
        if dvt == 0 and declared is not None and declared.get("dyn_enum") and shadow_kind is None:
            t["kind"], t["content"] = "KConst", list(declared["content"])     # (default: the first legal value)
        elif dvt == 0:
            t["kind"] = "KConst"
            t["content"] = [dv] if type(dv) is int else [-999]
        elif dvt in (3, 5):
            t["kind"] = "KListCopy" if dvt == 3 else "KTraitList"
            t["content"], t["doid"] = self.content(dv), self.oid(dv)
        elif dvt in (4, 6):
            t["kind"] = "KDictCopy" if dvt == 4 else "KTraitDict"
            t["content"], t["doid"] = self.content(dv), self.oid(dv)
        elif dvt == 9:
            t["kind"] = "KTraitSet"
            t["content"], t["doid"] = self.content(dv), self.oid(dv)
        elif dvt == 7 and isinstance(dv[1], tuple) and len(dv[1]) == 1 and isinstance(dv[1][0], numpy.ndarray):
            # Array: copy_default_value(<the validated class-level array>)
            t["kind"], t["content"], t["doid"] = "KArray", self.content(dv[1][0]), self.oid(dv[1][0])
        elif dvt == 7 and getattr(dv[0], "__name__", "") == "_create_uuid":
            t["kind"] = "KUuid"
        elif dvt == 0 and isinstance(dv, numpy.ndarray):
            t["kind"], t["content"], t["doid"] = "KConst", self.content(dv), self.oid(dv)
        elif dvt == 7 and declared is not None and shadow_kind is None:
            t["kind"] = "KFactory"
            t["content"] = list(declared["content"])       # what the callable returns is configuration, echoed
        elif dvt == 8 and declared is not None and shadow_kind is None:
            q = getattr(getattr(dv, "__func__", dv), "__qualname__", "")
            if q == "BaseRange._get_default_value" and declared.get("dyn_range"):
                c0 = declared["content"][0]
                t["kind"], t["content"] = "KConst", ([c0] if cls_index == 0 else [10 * c0 + 5])    # (echoed bounds)
            elif q == "BaseTuple._get_default_value":
                t["kind"], t["content"], t["scalar"] = declared["kind"], list(declared["content"]), declared["scalar"]
            elif q == "Union._get_default_value":
                t["kind"], t["content"] = "KUnion", list(declared["content"])
            else:
                t["kind"] = "KMethodInt" if declared["kind"] in ("KConst", "KMethodInt") else "KMethod"
                t["content"] = list(over["content"]) if (over and over["how"] == "method") else list(declared["content"])
        else:
            t["kind"], t["content"] = "KEvent", [-999]
        return t

    def class_tables(self):
        out = []
        for ci, cls in enumerate(self.classes):
            cts = cls.__dict__["__class_traits__"]
            rows = []
            bts = cls.__dict__["__base_traits__"]      # what class_traits() / traits() / subclasses start from
            names = sorted(set(self.name_code(k) for k in list(cts) + list(bts)
                               if 0 <= self.name_code(k) < 999 and k != "trait_added"))
            for n in names:
                ct = cts["t%d" % n] if ("t%d" % n) in cts else bts["t%d" % n]
                rows.append([n, self.tdef(ct, n, ci)])
                if n < 60 and (("t%d" % n) not in cts or ("t%d" % n) not in bts):   # (wildcard names live in cts only)
                    rows.append([n + 2000, self.tdef(ct, n, ci)])     # defined in only one of the two class dictionaries
            # the "<name>_items" event traits the class defines (container traits); one created on demand must go to
            # the instance that needed it, never here
            for k in sorted((k for k in cts if self.name_code(k) >= 1000), key=self.name_code):
                rows.append([self.name_code(k), self.tdef(cts[k], None, ci)])
            wild = self.case.get("wild")
            if wild:
                # the definition a wildcard name with static handlers will get (the class defines _tN_changed), and
                # the prefix trait itself
                proto = cls.__prefix_traits__[""]
                for n in range(60, 70):
                    if hasattr(cls, "_t%d_changed" % n):
                        t = self.tdef(proto, -3, ci)
                        t["nnotif"], t["static"] = t["nnotif"] + 1, True
                        rows.append([n + 3000, t])
                rows.append([-3, self.tdef(proto, -3, ci)])
            if "@" in cls.__prefix_traits__:      # the class defines _anytrait_changed
                rows.append([-4, {"kind": "KEvent", "content": [], "scalar": 0, "doid": 0, "nnotif": 0, "static": False,
                                  "cmp": 2, "label": 0}])
            rows.append([-1, self.tdef(cts["trait_added"], -1, ci)])
            out.append(rows)
        return out

    # ----- instance views
    def view(self, i):
        obj = self.insts[i]
        ci = self.classes.index(type(obj))
        d = []
        for k, v in obj.__dict__.items():
            c = self.name_code(k)
            if c != 999:
                if k.startswith("_traits_cache_"):
                    v = getattr(obj, "t%d" % c)     # what the stored state reads as (a pure read once the entry exists)
                d.append([c, self.value(v)])
        its = []
        for k, ct in obj._instance_traits().items():
            c = self.name_code(k)
            base = c - 1000 if c >= 1000 else c
            its.append([c, self.tdef(ct, base if c < 1000 else None, ci, self.shadow[i].get(c))])
        calls = sorted([n, c] for (j, n), c in self.counts.items() if j == i and c)
        return {"cls": ci, "dict": d, "itraits": its, "calls": calls,
                "log": [list(e) for e in self.logs.get(id(obj), [])], "regs": [list(r) for r in self.regs[i]]}

    # ----- handlers
    def otc_handler(self, hid):
        def handler(obj, name, old, new):
            c = self.name_code(name)
            if 0 <= c < 999:        # an object-level handler also sees "<name>_items" / trait_added events: not value changes
                self.logs.setdefault(id(obj), []).append([hid, c, self.content(old), self.content(new)])
        return handler

    def obs_handler(self, hid):
        def handler(event):
            self.logs.setdefault(id(event.object), []).append(
                [hid, self.name_code(event.name), self.content(event.old), self.content(event.new)])
        return handler

    # ----- operations
    def kind_of(self, i, n):
        if n in self.shadow[i]:
            return self.shadow[i][n]
        if n not in self.cfg:
            return "KConst"            # a wildcard name
        t = self.cfg[n]
        if type(self.insts[i]) is self.classes[1] and n in self.sub and self.sub[n]["how"] == "method":
            return "KMethodInt" if t["kind"] in ("KConst", "KMethodInt") else "KMethod"
        return t["kind"]

    def payload(self, kind, content, scalar):
        if kind in ("KConst", "KMethodInt"):
            return content[0]
        if kind in ("KDictCopy", "KTraitDict"):
            return dict_of(content)
        if kind == "KTraitSet":
            return set(content)
        if kind == "KTuple":
            return (list(content), scalar)
        if kind == "KTuple2":
            return (list(content), [scalar])
        if kind == "KArray":
            return [float(x) for x in content]
        return list(content)

    def do(self, op):
        k = op[0]
        ret = None
        if k == "NewInst":
            self.current = len(self.insts)
            obj = self.classes[op[1]]()
            self.insts.append(obj)
            self.regs.append([])
            self.shadow.append({})
            # counters attributed while the constructor ran belong to the new instance
            return self.current, None
        i = op[1]
        self.current = i
        obj = self.insts[i]
        if k == "Introspect":
            mode = op[2]
            if mode >= 300000:
                # the declared default as reported by obj.trait(name).default, then edited in place: a copy
                n, code = (mode % 100000) // 100, mode % 100
                ct = obj.trait("t%d" % n)
                d = ct.default if ct is not None else None
                if isinstance(d, list):
                    d.append(900 + code)
                elif isinstance(d, dict):
                    d[900 + code] = code
                elif isinstance(d, set):
                    d.add(900 + code)
            elif mode >= 100000:
                # a private copy of a trait definition (also asked for with force=True), then its metadata and its
                # default edited: no effect on anybody
                forced = mode >= 200000
                n, code = (mode % 100000) // 100, mode % 100
                copy = obj.trait("t%d" % n, True, True) if forced else obj.trait("t%d" % n, copy=True)
                if copy is not None:
                    copy.label = str(code)
                    if forced:
                        copy.set_default_value(0, 40 + code)
            elif mode == 0:
                obj.copyable_trait_names()
            elif mode == 1:
                obj.traits(transient=None)
            elif mode == 2:
                obj.trait_names(type="trait")
            elif mode == 3:
                obj.traits()
            else:
                obj.trait_names()
            return i, None
        a = "t%d" % op[2]
        if k == "Read":
            ret = getattr(obj, a)
        elif k == "Assign":
            setattr(obj, a, self.payload(self.kind_of(i, op[2]), op[3], op[4]))
        elif k == "Delete":
            # counters count runs since the attribute last became unassigned
            self.counts.pop((i, op[2]), None)
            delattr(obj, a)
        elif k == "SetMeta":
            # metadata of a definition that add_trait gave to this instance alone
            if a not in obj._instance_traits() or a in type(obj).__dict__["__class_traits__"]:
                raise RuntimeError("not a trait added to this instance")
            obj.trait(a).label = str(op[3])
        elif k == "AssignFrom":
            src = self.insts[op[3]]
            if a not in src.__dict__:
                raise RuntimeError("source attribute is not materialised")
            setattr(obj, a, src.__dict__[a])       # the very container object of another instance
        elif k == "Mutate":
            v = getattr(obj, a)
            x = op[3]
            if isinstance(v, numpy.ndarray):
                if len(v):
                    v[0] = x
            elif isinstance(v, list):
                v.append(x)
            elif isinstance(v, dict):
                v[x] = x
            elif isinstance(v, set):
                v.add(x)
            elif isinstance(v, tuple) and isinstance(v[0], list) and isinstance(v[1], list):
                v[1].append(x)          # the SECOND container member
            elif isinstance(v, tuple) and isinstance(v[0], list):
                v[0].append(x)
        elif k == "Register" and op[2] == -2:
            obj.on_trait_change(self.otc_handler(op[3]))          # no name: the object's own notifier list
            self.regs[i].append([op[2], op[3]])
        elif k == "Register":
            if op[4]:
                obj.observe(self.obs_handler(op[3]), a)
            else:
                obj.on_trait_change(self.otc_handler(op[3]), a)
            self.regs[i].append([op[2], op[3]])
        elif k == "AddTrait":
            t = op[3]
            if t["kind"] == "KConst" and t.get("shared") is not None:
                key = (t["shared"], t["content"][0])
                if key not in self.shared:
                    self.shared[key] = Int(t["content"][0]).as_ctrait()
                obj.add_trait(a, self.shared[key])      # the very same CTrait object for every instance
            elif t["kind"] == "KConst":
                obj.add_trait(a, Int(t["content"][0]))
            else:
                obj.add_trait(a, List(Int, list(t["content"])))
            self.shadow[i][op[2]] = t["kind"]
        else:
            raise ValueError(k)
        return i, ret

    def observe_step(self, op):
        exc = False
        try:
            target, ret = self.do(op)
        except Exception:  # noqa
            exc = True
            target = op[1] if op[0] != "NewInst" else len(self.insts)
            ret = None
        rv = {"shape": 9, "parts": []} if exc else ({"shape": 0, "parts": []} if ret is None and op[0] != "Read"
                                                   else self.value(ret))
        if target < len(self.insts):
            tv = self.view(target)
        else:
            tv = {"cls": 0, "dict": [], "itraits": [], "calls": [], "log": [], "regs": []}
        views = [tv if j == target else self.view(j) for j in range(len(self.insts))]
        ob = {"ret": rv, "target": tv, "digests": [digest(enc_inst(v)) for v in views],
              "classes": digest(enc_classes(self.class_tables())), "next": len(self.pool) + 1, "exc": exc}
        return ob


def run_case(case):
    w = World(case)
    tables = w.class_tables()          # numbers the class-level default objects first
    init = {"classes": tables, "digest": digest(enc_classes(tables)), "next": len(w.pool) + 1}
    steps = [w.observe_step(op) for op in case["ops"]]
    return {"init": init, "steps": steps}


def main():
    cases = dlib.load()
    dlib.dump([run_case(c) for c in cases])


main()
