"""C02 implementation driver: runs assignment / read histories on a HasTraits object of the tree under
test whose trait `x` has the requested kind (normal trait with a comparison mode, or Event), a
validating trait type (rejects one pool value, converts another) and the requested mix of handlers
(static _anytrait_changed / _x_changed / _x_fired, on_trait_change, observe; any of them raising), and
records per operation: outcome class, the stored value (peeked in __dict__), the handler calls
(handler id, old, new) in call order and what reached the notification exception handlers.
Also measures bool(a == b) / bool(a != b) on the value pool (CPython / pool classes, inputs of the model)."""
import logging
import os
import sys
import warnings

import numpy as np

sys.path.insert(0, os.path.dirname(os.path.abspath(__file__)))
import dlib  # noqa: E402

from traits.api import (  # noqa: E402
    Any, Array, ComparisonMode, Event, Instance, Int, List, PrototypedFrom, Range, Trait, HasTraits, TraitError, TraitType, Undefined, Uninitialized, observe, on_trait_change,
    pop_exception_handler, push_exception_handler)
from traits.observation import api as obs_api  # noqa: E402

logging.disable(logging.CRITICAL)
warnings.simplefilter("ignore")


class Eq:
    def __init__(self, k):
        self.k = k

    def __eq__(self, o):
        return isinstance(o, Eq) and self.k == o.k

    def __hash__(self):
        return hash(self.k)


class EqRaises:
    def __eq__(self, o):
        raise RuntimeError("eq")

    __hash__ = object.__hash__        # __ne__ is the default one: it calls __eq__, hence raises too


class Incoherent:
    """== and != both answer True (only possible when __ne__ is overridden)."""

    def __eq__(self, o):
        return True

    def __ne__(self, o):
        return True

    __hash__ = object.__hash__


class NoTruth:
    def __bool__(self):
        raise ValueError("The truth value of an array with more than one element is ambiguous")


class ArrayLike:
    """== and != answer with an object that has no truth value (like numpy arrays of several elements)."""

    def __eq__(self, o):
        return NoTruth()

    def __ne__(self, o):
        return NoTruth()

    __hash__ = object.__hash__


class BadRepr:
    """str() and repr() raise: what the default notification exception handler formats into its log message."""

    def __repr__(self):
        raise RuntimeError("repr")

    __str__ = __repr__


class Marker:
    pass


# the value pool; index = atom
POOL = [Eq(1), Eq(1), Eq(2), float("nan"), float("nan"), EqRaises(), None, [1], [1], Marker(), Marker(), Incoherent(),
        0, 0.0, ArrayLike(), BadRepr(), 3, 5, 7, 99,
        np.array([2.5]), np.array([2.5]), np.array([3.5]), np.array([1.0, 2.0]), np.array([1.0, 2.0])]
REJ, ALIAS = 9, 10            # pool[REJ] is rejected by the trait, pool[ALIAS] is converted to pool[0]
MODES = {"none": ComparisonMode.none, "identity": ComparisonMode.identity, "equality": ComparisonMode.equality}


FRESH = []        # objects outside the pool (defaults produced afresh), in order of first appearance: atoms 1000, 1001, ...


class FreshDefault:
    """A default value that is a new, unequal object each time it is produced."""


def atom(v):
    for i, p in enumerate(POOL):
        if v is p:
            return i
    if v is Marker:
        return 999
    for i, p in enumerate(FRESH):
        if v is p:
            return 1000 + i
    FRESH.append(v)
    return 1000 + len(FRESH) - 1


def old_atom(v):
    if v is Undefined:
        return "U"
    if v is Uninitialized:
        return "I"
    return atom(v)


def cmp3(f):
    try:
        return "T" if bool(f()) else "F"
    except Exception:
        return "R"


def tables():
    eq = [[cmp3(lambda a=a, b=b: a == b) for b in POOL] for a in POOL]
    ne = [[cmp3(lambda a=a, b=b: a != b) for b in POOL] for a in POOL]
    return eq, ne


class Pick(TraitType):
    """Accepts every pool value except POOL[REJ]; converts POOL[ALIAS] to POOL[0]."""

    def validate(self, object, name, value):
        if value is POOL[REJ]:
            self.error(object, name, value)
        if value is POOL[ALIAS]:
            return POOL[0]
        return value


class PickOriginal(Pick):
    """Same validation, but the trait stores the assigned object itself (like Expression / AdaptsTo)."""

    def as_ctrait(self):
        ctrait = super().as_ctrait()
        ctrait.setattr_original_value = True
        return ctrait


LOG = []          # (hid, old, new) of the current operation
SINK = []
RAISES = set()
RAISE_KIND = ["HandlerError"]


class HandlerError(Exception):
    pass


def record(hid, old, new):
    LOG.append([hid, old_atom(old), atom(new)])
    if hid in RAISES:
        if RAISE_KIND[0] == "TraitError":      # what a handler raises when it assigns an invalid value to some trait
            raise TraitError("handler %d" % hid)
        raise HandlerError(hid)


def legacy_sink(obj, name, old, new):
    SINK.append([LOG[-1][0] if LOG else -1, old_atom(old), atom(new)])


def observe_sink(event):
    SINK.append([LOG[-1][0] if LOG else -1, old_atom(event.old), atom(event.new)])


_classes = {}
_shared = {}


def make_trait(kind, mode, default, orig=False, variant=""):
    """The definition of trait x (a fresh object each time: also what add_trait("x", ...) is given)."""
    cls_t = PickOriginal if orig else Pick
    if variant == "any":              # built-in Any: no validate function at all (the `validate == NULL` branches)
        return Any(POOL[default], comparison_mode=MODES[mode]) if kind == "normal" else Event()
    if variant in ("ddef", "fresh-eq", "fresh-ne") and kind == "normal":      # dynamic default: _x_default method
        return cls_t(comparison_mode=MODES[mode])
    return cls_t(default_value=POOL[default], comparison_mode=MODES[mode]) if kind == "normal" else Event(Pick())


def make_class(kind, mode, default, statics, orig=False, variant="", build="", sibling=False, subclass=False):
    key = (kind, mode, default, tuple(sorted(statics)), bool(orig), variant, build, sibling, subclass)
    if key in _classes:
        return _classes[key]
    if build.startswith("derived-") and kind == "normal":
        # a definition DERIVED from an already built CTrait that is in another comparison mode:
        # Trait(base_ctrait, comparison_mode=...) clones the base (its mode bits included) and then sets the mode
        base = make_trait(kind, build[len("derived-"):], default, orig, variant).as_ctrait()
        ns = {"x": Trait(base, comparison_mode=MODES[mode]), "y": make_trait(kind, mode, default, orig, variant)}
    elif build == "shared":
        # ONE pre-built CTrait object used for two attributes of this class and for a sibling class with the same
        # static handlers (the module-level idiom `Coordinate = Trait(0.0)`): every use must get its own notifier list
        if not sibling:
            ct = make_trait(kind, mode, default, orig, variant).as_ctrait()
            _shared[key] = ct
        ct = _shared[key[:-2] + (False, subclass)]
        ns = {"x": ct, "y": ct}
    elif variant == "array":
        # numpy Array trait: identity comparison mode by default (trait_numeric.AbstractArray), default copied per instance
        ns = {"x": Array(value=np.array([9.5])), "y": Int(0)}
    elif variant == "drange":
        # Range with DYNAMIC bounds: a property-like trait (BaseRange._get_value / _set_value, trait_types.py l.1890-1917)
        # that keeps its value in __dict__["_traits_cache_x"] and notifies through trait_property_changed when value != old
        ns = {"x": Range(low="lo", high="hi", value=5), "lo": Int(0), "hi": Int(10), "y": Int(0)}
    else:
        ns = {"x": make_trait(kind, mode, default, orig, variant), "y": make_trait(kind, mode, default, orig, variant)}
    ns["e"] = Event()                 # another trait of another kind on the same object (same anytrait wrapper)
    if variant == "ddef" and kind == "normal":
        ns["_x_default"] = (lambda self, d=default: POOL[d])
    if variant == "fresh-eq" and kind == "normal":       # produced afresh each time, all equal: what List() / Dict() defaults are
        ns["_x_default"] = (lambda self: [])
    if variant == "fresh-ne" and kind == "normal":       # produced afresh each time, all different (Instance(X, ()) style)
        ns["_x_default"] = (lambda self: FreshDefault())
    if "any" in statics:
        def _anytrait_changed(self, name, old, new):
            if name == "x":
                record(0, old, new)
        ns["_anytrait_changed"] = _anytrait_changed
    if "changed" in statics:
        def _x_changed(self, old, new):
            record(1, old, new)
        ns["_x_changed"] = _x_changed
    if "fired" in statics:
        def _x_fired(self, old, new):
            record(2, old, new)
        ns["_x_fired"] = _x_fired
    if "dotc" in statics:            # @on_trait_change("x") method: TraitChangeNotifyWrapper in its *method listener* form
        @on_trait_change("x")
        def _decorated_otc(self, obj, name, old, new):
            record(3, old, new)
        ns["_decorated_otc"] = _decorated_otc
    if "dobs" in statics:            # @observe("x") method, hooked up by _init_trait_observers
        @observe("x")
        def _decorated_obs(self, event):
            record(4, event.old, event.new)
        ns["_decorated_obs"] = _decorated_obs
    if "dotcp" in statics:           # @on_trait_change("x", post_init=True): hooked up by _post_init_trait_listeners
        @on_trait_change("x", post_init=True)
        def _decorated_otc_post(self, obj, name, old, new):
            record(6, old, new)
        ns["_decorated_otc_post"] = _decorated_otc_post
    if "dobsp" in statics:           # @observe("x", post_init=True): hooked up by _post_init_trait_observers
        @observe("x", post_init=True)
        def _decorated_obs_post(self, event):
            record(7, event.old, event.new)
        ns["_decorated_obs_post"] = _decorated_obs_post
    if "dobsx" in statics:           # a static handler migrated to observe WITHOUT renaming it: @observe("x") def _x_changed
        @observe("x")
        def _x_changed(self, event):
            if hasattr(event, "old") and hasattr(event, "new"):
                record(5, event.old, event.new)
            else:                    # called like a static handler, with the bare new value
                record(5, Marker, event)
        ns["_x_changed"] = _x_changed
    cls = type(HasTraits)("H", (HasTraits,), ns)
    if subclass:
        cls = type(HasTraits)("S", (cls,), {})       # the handlers are INHERITED by the class under test
    _classes[key] = cls
    if build == "shared" and not sibling:
        make_class(kind, mode, default, statics, orig, variant, build, sibling=True, subclass=subclass)   # same CTrait object
    return cls


CUR = {}          # the object under test, hid -> callable/owner, hid -> kind, the set of registered dynamic handler ids
REACT = {}        # hid -> [("kill", victim) | ("spawn", kind, child)]: what the handler does while it is being notified


def fire(hid, old, new):
    """Body of every dynamic handler: first (un)register what it is told to — DURING the dispatch — then record."""
    for r in REACT.get(hid, ()):
        if r[0] == "kill":
            if r[1] in CUR["live"]:
                attach(CUR["kinds"][r[1]], r[1], remove=True)
        elif r[2] not in CUR["live"]:
            CUR["kinds"][r[2]] = r[1]
            attach(r[1], r[2])
    record(hid, old, new)


def make_otc(hid):
    def f(obj, name, old, new):
        fire(hid, old, new)
    return f


def make_otcany(hid):
    def f(obj, name, old, new):
        if name == "x":
            fire(hid, old, new)
    return f


def make_obs(hid):
    def f(event):
        fire(hid, event.old, event.new)
    return f


class MethodOwner:
    """Owner of bound-method handlers.  All owners compare EQUAL (like dataclass instances with equal fields) and are
    distinct objects: registration must tell them apart by identity."""

    def __init__(self, hid):
        self.hid = hid

    def __eq__(self, other):
        return isinstance(other, MethodOwner)

    def __hash__(self):
        return 17

    def legacy(self, obj, name, old, new):
        fire(self.hid, old, new)

    def observer(self, event):
        fire(self.hid, event.old, event.new)


class Owner(HasTraits):
    """Holds the object under test in a List: handlers can then be registered THROUGH it with an extended name."""
    members = List(Instance(HasTraits))


def make_otcx(hid):
    def f(obj, name, old, new):
        if name == "x" and obj is CUR["a"]:      # 'members.x' also reports changes of `members` itself: not ours
            fire(hid, old, new)
    return f


def make_obsx(hid):
    def f(event):
        if event.object is CUR["a"]:
            fire(hid, event.old, event.new)
    return f


def owner():
    if "owner" not in CUR:
        other = type(CUR["a"])()
        CUR["owner"] = Owner(members=[CUR["a"], other])
        CUR["other"] = other
    return CUR["owner"]


def attach(kind, hid, remove=False):
    """Register (or remove) handler `hid` of the given kind on trait x of the object under test."""
    a, reg = CUR["a"], CUR["reg"]
    base = kind.replace("_once", "")
    if base in ("otcx", "obsx"):
        # registered on the OWNER: legacy extended name through the list / observe expression through the list items
        if not remove:
            reg[hid] = make_otcx(hid) if base == "otcx" else make_obsx(hid)
            CUR["live"].add(hid)
        else:
            CUR["live"].discard(hid)
        if base == "otcx":
            owner().on_trait_change(reg[hid], "members.x", remove=remove)
        else:
            owner().observe(reg[hid], "members:items:x", remove=remove)
        return
    if not remove:
        reg[hid] = (make_otc(hid) if base == "otc" else make_otcany(hid) if base == "otcany" else
                    make_obs(hid) if base == "obs" else MethodOwner(hid))
        CUR["live"].add(hid)
    else:
        CUR["live"].discard(hid)
    h = reg[hid]
    if base == "otc":
        a.on_trait_change(h, "x", remove=remove)
    elif base == "otcany":
        a.on_trait_change(h, remove=remove)
    elif base == "obs":
        a.observe(h, "x", remove=remove)
    elif base == "otcm":
        a.on_trait_change(h.legacy, "x", remove=remove)
    elif base == "obsm":
        a.observe(h.observer, "x", remove=remove)
    else:
        raise ValueError(kind)


class Style(HasTraits):
    caption = Any()                   # None = POOL[6] to start with


_proto_classes = {}


def proto_class(statics):
    """class with x = PrototypedFrom("style", prefix="caption"): x mirrors style.caption until a local value is assigned."""
    key = tuple(sorted(statics))
    if key not in _proto_classes:
        ns = {"style": Instance(Style, ()), "x": PrototypedFrom("style", prefix="caption")}
        if "any" in statics:
            def _anytrait_changed(self, name, old, new):
                if name == "x":
                    record(0, old, new)
            ns["_anytrait_changed"] = _anytrait_changed
        if "changed" in statics:
            def _x_changed(self, old, new):
                record(1, old, new)
            ns["_x_changed"] = _x_changed
        _proto_classes[key] = type(HasTraits)("L", (HasTraits,), ns)
    return _proto_classes[key]


def run_proto_case(case):
    a = proto_class(case["statics"])()
    del FRESH[:]
    RAISES.clear()
    CUR.clear()
    CUR.update(a=a, reg={}, kinds={}, live=set())
    REACT.clear()
    for i, m in enumerate(case["dyn"]):
        CUR["kinds"][10 + i] = m
        attach(m, 10 + i)
    out = []
    for op in case["ops"]:
        del LOG[:]
        try:
            if op[0] == "Assign":
                a.x = POOL[op[1]]
            elif op[0] == "Delete":
                del a.x
            elif op[0] == "Proto":
                a.style.caption = POOL[op[1]]
            else:
                a.x
            o = "Ok"
        except Exception as e:  # noqa: BLE001
            o = "Other:" + type(e).__name__
        slot = a.__dict__.get("x", Marker)
        out.append({"out": o, "slot": None if slot is Marker else atom(slot), "read": atom(a.x), "calls": [list(c) for c in LOG]})
    return out


def run_case(case):
    if case.get("scenario") == "proto":
        return run_proto_case(case)
    a = make_class(case["kind"], case["mode"], case["default"], case["statics"], case.get("orig", False),
                   case.get("variant", ""), case.get("build", ""), subclass=bool(case.get("subclass")))()
    del FRESH[:]
    RAISES.clear()
    RAISES.update(case["raises"])
    RAISE_KIND[0] = case.get("raise_kind", "HandlerError")
    CUR.clear()
    CUR.update(a=a, reg={}, kinds={}, live=set())
    REACT.clear()
    for i, m in enumerate(case["dyn"]):
        if m.endswith("_once"):
            REACT.setdefault(10 + i, []).append(("kill", 10 + i))
    for op in case["ops"]:
        if op[0] == "Register" and op[1].endswith("_once"):
            REACT.setdefault(op[2], []).append(("kill", op[2]))
    for r in case.get("reacts", []):
        REACT.setdefault(r[0], []).append(tuple(r[1:]))
    for i, m in enumerate(case["dyn"]):
        CUR["kinds"][10 + i] = m
        attach(m, 10 + i)
    out = []
    for op in case["ops"]:
        del LOG[:]
        del SINK[:]
        try:
            if op[0] == "Assign":
                a.x = POOL[op[1]]
            elif op[0] == "Delete":
                del a.x
            elif op[0] == "Retrait":
                a.add_trait("x", make_trait(case["kind"], case["mode"], case["default"], case.get("orig", False),
                                            case.get("variant", "")))
            elif op[0] == "QuietAssign":
                a.trait_set(trait_change_notify=False, x=POOL[op[1]])
            elif op[0] == "Other":             # another trait of the same object: the Event e, or the sibling attribute y
                if op[1] == "e":
                    a.e = POOL[2]
                elif op[1] == "y":
                    a.y = POOL[12] if case.get("variant") in ("drange", "array") else POOL[2]
                elif op[1] == "reassign-reversed":     # the owner's list is re-assigned with the same objects
                    owner().members = list(reversed(owner().members))
                elif op[1] == "reassign-same-order":
                    owner().members = list(owner().members)
                elif op[1] == "sort-in-place":
                    owner().members.sort(key=id)
                elif op[1] == "reverse-in-place":
                    owner().members.reverse()
                else:
                    raise ValueError(op)
            elif op[0] == "SetMode":           # reconfigure the (instance) trait at run time
                a._trait("x", 2).comparison_mode = MODES[op[1]]
            elif op[0] == "Notify":            # obj._trait_change_notify(False / True)
                a._trait_change_notify(bool(op[1]))
            elif op[0] == "Register":          # in the middle of the history
                if op[2] not in CUR["live"]:
                    CUR["kinds"][op[2]] = op[1]
                    attach(op[1], op[2])
            elif op[0] == "Unregister":
                if op[1] in CUR["live"]:
                    attach(CUR["kinds"][op[1]], op[1], remove=True)
            else:
                a.x
            o = "Ok"
        except TraitError:
            o = "TraitError"
        except AttributeError:
            o = "AttributeError"
        except Exception as e:  # noqa: BLE001
            o = "Other:" + type(e).__name__
        slot = a.__dict__.get("_traits_cache_x" if case.get("variant") == "drange" else "x", Marker)
        out.append({"out": o, "slot": None if slot is Marker else atom(slot), "calls": [list(c) for c in LOG],
                    "sink": [list(c) for c in SINK]})
    return out


def main():
    cases = dlib.load()
    eq, ne = tables()
    if "--tables" in sys.argv:
        fresh = {}
        for name, mk in (("fresh-eq", lambda: []), ("fresh-ne", FreshDefault), ("fresh-array", lambda: np.array([9.5]))):
            d, d2 = mk(), mk()
            fresh[name] = {
                "eq": {"row": [cmp3(lambda p=p: d == p) for p in POOL], "col": [cmp3(lambda p=p: p == d) for p in POOL],
                       "other": cmp3(lambda: d == d2), "self": cmp3(lambda: d == d)},
                "ne": {"row": [cmp3(lambda p=p: d != p) for p in POOL], "col": [cmp3(lambda p=p: p != d) for p in POOL],
                       "other": cmp3(lambda: d != d2), "self": cmp3(lambda: d != d)}}
        dlib.dump({"fresh": fresh, "eq": eq, "ne": ne, "validate": [None if i == REJ else (0 if i == ALIAS else i) for i in range(len(POOL))]})
        return
    res = []
    for c in cases:
        if c.get("sinkmode") == "default":
            # the library's own default handlers (NotificationExceptionHandler._log_exception and the observe
            # counterpart) format and log the exception; logging is disabled above, routing is not observable
            res.append({"steps": run_case(c)})
            continue
        push_exception_handler(handler=legacy_sink, reraise_exceptions=False)
        obs_api.push_exception_handler(handler=observe_sink, reraise_exceptions=False)
        try:
            res.append({"steps": run_case(c)})
        finally:
            obs_api.pop_exception_handler()
            pop_exception_handler()
    dlib.dump(res)


if __name__ == "__main__":
    main()
