"""C18 implementation driver, crash stream: generated API programs against the build under test.

Payload {"programs": [{"seed": s, "n": ops}...], "log": path}.  Every program is generated from its seed
(deterministic under PYTHONHASHSEED=0), every operation is appended to the log ("P <i>" / "O <k> <text>")
BEFORE it is executed, so that after a segfault / abort / sanitiser report the harness knows the program and
the operation ("crashed at op k").  Output: per program {"ops": n, "raised": count by exception class}.

Surface: class definition with many trait kinds; get/set/del (valid, invalid, error-injecting); container
mutation; on_trait_change / observe registration and removal, also from inside handlers; add_trait /
remove_trait, also from inside handlers; trait_set/reset/clone/copy/deepcopy/pickle of objects; getstate /
setstate / pickle / deepcopy / clone of trait definition objects; validate_trait; trait_property_changed;
sync_trait; gc.collect at random points; error injection: the k-th user callback of an operation raises
(validators, defaults, factories, getters, setters, post_setattr, handlers).
"""
import copy
import gc
import logging
import os
import pickle
import random
import sys

sys.path.insert(0, os.path.dirname(os.path.abspath(__file__)))
import dlib  # noqa: E402

logging.disable(logging.CRITICAL)

from traits.api import (Any, Bool, Callable, CInt, Constant, DelegatesTo, Dict, Disallow, Either, Enum, Event,  # noqa
                        Float, HasTraits, HasStrictTraits, Instance, Int, List, Map, PrototypedFrom, Property,
                        Python, Range, ReadOnly, Set, Str, Tuple, Union, cached_property, observe,
                        push_exception_handler, pop_exception_handler, TraitError, Undefined)
from traits.trait_type import TraitType  # noqa: E402
from traits.ctrait import CTrait  # noqa: E402


class Boom(Exception):
    pass


class Fault(object):
    """call-ordinal fault injection shared by all user callbacks"""
    def __init__(self):
        self.at = -1
        self.n = 0

    def arm(self, k):
        self.at, self.n = k, 0

    def tick(self, what):
        self.n += 1
        if self.n == self.at:
            raise Boom(what)


F = Fault()
HOOK = [None]        # re-entrant action run by some handlers
COUNT = [0]


class Checked(TraitType):
    """Python-level validator + post_setattr, both fault points"""
    default_value = 0

    def validate(self, obj, name, value):
        F.tick("validate")
        if isinstance(value, str):
            self.error(obj, name, value)
        return value

    def post_setattr(self, obj, name, value):
        F.tick("post_setattr")


def _fget0():
    F.tick("fget0")
    return 7


def _fget1(obj):
    F.tick("fget1")
    return obj.__dict__.get("_pv", 1)


def _fget2(obj, name):
    F.tick("fget2")
    return obj.__dict__.get("_pv", 2)


def _fset1(value):
    F.tick("fset1")


def _fset2(obj, value):
    F.tick("fset2")
    obj.__dict__["_pv"] = value


def _fset3(obj, name, value):
    F.tick("fset3")
    old = obj.__dict__.get("_pv", 0)
    obj.__dict__["_pv"] = value
    obj.trait_property_changed(name, old, value)


def factory():
    F.tick("factory")
    return Leaf()


class Leaf(HasTraits):
    v = Int()
    w = Str("w")
    tags = List(Str)
    c = Checked()


def make_class(rnd):
    ns = dict(
        i=Int(), f=Float(), s=Str(), b=Bool(), r=Range(0.0, 10.0), ri=Range(0, 10), e=Enum(1, 2, 3),
        m=Map({"a": 1, "b": 2}), t=Tuple(Int, Str), u=Either(Int, Str, None), un=Union(Int, List(Int)),
        l=List(Int, maxlen=6), n=List(List(Int)), d=Dict(Str, List(Int)), st=Set(Int), ci=CInt(),
        inst=Instance(Leaf), fac=Instance(Leaf, factory=factory), kids=List(Instance(Leaf)),
        cb=Callable(), a=Any(), ev=Event(), evi=Event(Int), ro=ReadOnly(), k=Constant(5), py=Python(),
        chk=Checked(), tr=Int(transient=True),
        dl=DelegatesTo("inst", "v"), pf=PrototypedFrom("inst", "w"),
        p0=Property(fget=_fget0, fset=_fset1), p1=Property(fget=_fget1, fset=_fset2),
        p2=Property(fget=_fget2, fset=_fset3),
        pv=Property(fget=_fget1, fset=_fset2, trait=Int), pv3=Property(fget=_fget2, fset=_fset3, trait=Range(0, 9)),
        total=Property(Int, observe="l.items"),
    )

    def _get_total(self):
        F.tick("getter")
        return sum(self.l)
    ns["_get_total"] = cached_property(_get_total)

    def _a_default(self):
        F.tick("default")
        return [1, 2]
    ns["_a_default"] = _a_default

    def _l_default(self):
        F.tick("default")
        return [1]
    ns["_l_default"] = _l_default

    def _i_changed(self, old, new):
        F.tick("static-handler")
        if HOOK[0] is not None:
            h, HOOK[0] = HOOK[0], None
            h()
    ns["_i_changed"] = _i_changed

    def _kid(self, event):
        F.tick("observer")
    ns["_kid"] = observe("kids.items.v")(_kid)
    base = rnd.choice([HasTraits, HasTraits, HasStrictTraits])
    COUNT[0] += 1
    name = "G%d" % COUNT[0]
    ns["__module__"] = "__main__"
    ns["__qualname__"] = name
    G = type(name, (base,), ns)
    setattr(sys.modules["__main__"], name, G)      # so that instances pickle by reference
    return G


NAMES = ["i", "f", "s", "b", "r", "ri", "e", "m", "t", "u", "un", "l", "n", "d", "st", "ci", "inst", "fac", "kids",
         "cb", "a", "ev", "evi", "ro", "k", "py", "chk", "tr", "dl", "pf", "p0", "p1", "p2", "pv", "pv3", "total",
         "zz", "_priv", "m_"]


def values(rnd):
    return rnd.choice([0, 1, -1, 5, 11, 2 ** 70, 1.5, float("nan"), "a", "b", "", None, True, (1, "x"), (1, 2),
                       [1, 2], [1, "x"], [[1], [2]], {"a": [1]}, {1: 2}, {1, 2}, {"x"}, b"x", object(), Leaf(),
                       Leaf, len, Undefined, 3 + 4j, [1] * 8])


def prog(rnd, nops, log):
    G = make_class(rnd)
    objs = [G(), G(i=3, l=[1, 2], inst=Leaf())]
    handlers = []
    raised = {}

    def obj():
        return rnd.choice(objs)

    def mk_handler():
        kind = rnd.randrange(5)

        def h(*args):
            F.tick("handler")
            if kind == 1 and handlers:                      # removes a handler during notification
                o, hh, nm = handlers.pop(rnd.randrange(len(handlers)))
                o.on_trait_change(hh, nm, remove=True)
            elif kind == 2:                                   # adds one
                o = args[0] if args and isinstance(args[0], HasTraits) else objs[0]
                hh = mk_handler()
                o.on_trait_change(hh, "i")
                handlers.append((o, hh, "i"))
            elif kind == 3:                                   # removes / adds a trait during notification
                o = objs[0]
                if "dyn" in o.trait_names():
                    o.remove_trait("dyn")
                else:
                    o.add_trait("dyn", Int(4))
            elif kind == 4:
                gc.collect()
        return h

    def do(k):
        o = obj()
        nm = rnd.choice(NAMES)
        if k == "set":
            v = values(rnd)
            return "set %s %r" % (nm, type(v).__name__), lambda: setattr(o, nm, v)
        if k == "get":
            return "get %s" % nm, lambda: getattr(o, nm)
        if k == "del":
            return "del %s" % nm, lambda: delattr(o, nm)
        if k == "mut":
            c = rnd.choice(["l", "n", "d", "st", "kids", "a"])
            v = values(rnd)
            m = rnd.choice(["append", "extend", "insert", "pop", "clear", "setitem", "delitem", "add", "update",
                            "sort", "remove", "imul"])

            def f():
                x = getattr(o, c)
                if m == "append":
                    x.append(v)
                elif m == "extend":
                    x.extend(v if isinstance(v, (list, tuple, set)) else [v])
                elif m == "insert":
                    x.insert(rnd.randint(-3, 3), v)
                elif m == "pop":
                    x.pop()
                elif m == "clear":
                    x.clear()
                elif m == "setitem":
                    x[rnd.choice([0, -1, "a", slice(0, 2), slice(None, None, 2)])] = v
                elif m == "delitem":
                    del x[rnd.choice([0, -1, "a", slice(0, 2)])]
                elif m == "add":
                    x.add(v)
                elif m == "update":
                    x.update(v)
                elif m == "sort":
                    x.sort()
                elif m == "remove":
                    x.remove(v)
                else:
                    x *= rnd.randint(0, 2)
            return "mut %s.%s %s" % (c, m, type(v).__name__), f
        if k == "otc":
            h = mk_handler()
            n2 = rnd.choice(["i", "l", "l_items", "a", "inst.v", "kids.v", "+", "ev", "pv", "total", "anytrait"])

            def f():
                if n2 == "anytrait":
                    o.on_trait_change(h)
                    handlers.append((o, h, ""))
                else:
                    o.on_trait_change(h, n2)
                    handlers.append((o, h, n2))
            return "on_trait_change %s" % n2, f
        if k == "otc-remove":
            def f():
                if handlers:
                    oo, hh, n2 = handlers.pop(rnd.randrange(len(handlers)))
                    if n2:
                        oo.on_trait_change(hh, n2, remove=True)
                    else:
                        oo.on_trait_change(hh, remove=True)
            return "on_trait_change remove", f
        if k == "observe":
            h = mk_handler()
            ex = rnd.choice(["i", "l.items", "kids.items.v", "inst.v", "d.items", "*", "st.items", "inst:tags.items"])
            rem = rnd.random() < 0.3
            return "observe %s remove=%s" % (ex, rem), lambda: o.observe(h, ex, remove=rem)
        if k == "add_trait":
            tt = rnd.choice([Int(1), Str("x"), List(Int), Checked(), Property(fget=_fget1, fset=_fset2),
                             Property(fget=_fget1, fset=_fset2, trait=Int), Event(), Instance(Leaf, ())])
            return "add_trait dyn %s" % type(tt).__name__, lambda: o.add_trait("dyn", tt)
        if k == "remove_trait":
            return "remove_trait", lambda: o.remove_trait(rnd.choice(["dyn", "i", "zz"]))
        if k == "hook":
            def f():
                HOOK[0] = rnd.choice([lambda: o.remove_trait("dyn"), lambda: o.add_trait("dyn", Int()),
                                      lambda: delattr(o, "i"), lambda: gc.collect(),
                                      lambda: setattr(o, "l", [9]), lambda: o.on_trait_change(mk_handler(), "i")])
                o.i = rnd.randint(0, 99)
            return "set i with re-entrant static handler", f
        if k == "copy":
            m = rnd.choice(["pickle0", "pickle2", "pickle5", "deepcopy", "copy", "clone", "clone-deep", "copy_traits",
                            "getstate-setstate", "reset", "trait_set", "trait_get"])

            def f():
                if m.startswith("pickle"):
                    objs.append(pickle.loads(pickle.dumps(o, protocol=int(m[6:]))))
                elif m == "deepcopy":
                    objs.append(copy.deepcopy(o))
                elif m == "copy":
                    objs.append(copy.copy(o))
                elif m == "clone":
                    objs.append(o.clone_traits())
                elif m == "clone-deep":
                    objs.append(o.clone_traits(copy="deep"))
                elif m == "copy_traits":
                    o.copy_traits(obj(), copy=rnd.choice([None, "deep", "shallow"]))
                elif m == "getstate-setstate":
                    st = o.__getstate__()
                    G.__new__(G).__setstate__(st)
                elif m == "reset":
                    o.reset_traits()
                elif m == "trait_set":
                    o.trait_set(i=values(rnd), s=values(rnd), l=values(rnd))
                else:
                    o.trait_get()
                if len(objs) > 6:
                    del objs[2]
            return "object %s" % m, f
        if k == "ctrait":
            m = rnd.choice(["getstate", "roundtrip", "pickle", "deepcopy", "clone", "validate", "default",
                            "setstate-self", "notifiers"])

            def f():
                ct = o.trait(nm) or o.trait("i")
                if m == "getstate":
                    ct.__getstate__()
                elif m == "roundtrip":
                    c2 = CTrait(0)
                    c2.__setstate__(ct.__getstate__())
                    c2.__getstate__()
                elif m == "pickle":
                    pickle.loads(pickle.dumps(ct)).__getstate__()
                elif m == "deepcopy":
                    copy.deepcopy(ct).__getstate__()
                elif m == "clone":
                    c2 = CTrait(0)
                    c2.clone(ct)
                    c2.__getstate__()
                elif m == "validate":
                    ct.validate(o, nm, values(rnd))
                elif m == "default":
                    ct.default_value_for(o, nm)
                elif m == "setstate-self":
                    ct.__setstate__(ct.__getstate__())
                else:
                    ct._notifiers(rnd.random() < 0.5)
            return "ctrait %s of %s" % (m, nm), f
        if k == "validate_trait":
            v = values(rnd)
            return "validate_trait %s" % nm, lambda: o.validate_trait(nm, v)
        if k == "tpc":
            return "trait_property_changed %s" % nm, lambda: o.trait_property_changed(nm, values(rnd), values(rnd))
        if k == "sync":
            rem = rnd.random() < 0.3
            return "sync_trait remove=%s" % rem, lambda: objs[0].sync_trait(rnd.choice(["i", "l", "s"]), objs[1],
                                                                          mutual=rnd.random() < 0.5, remove=rem)
        if k == "gc":
            return "gc.collect", gc.collect
        if k == "drop":
            def f():
                if len(objs) > 2:
                    del objs[rnd.randrange(2, len(objs))]
                gc.collect()
            return "drop object + gc", f
        if k == "notify-off":
            onoff = rnd.random() < 0.5
            return "_trait_change_notify(%s)" % onoff, lambda: o._trait_change_notify(onoff)
        raise ValueError(k)

    kinds = ["set"] * 8 + ["get"] * 5 + ["del"] * 2 + ["mut"] * 6 + ["otc"] * 3 + ["otc-remove", "observe", "observe",
             "add_trait", "remove_trait", "hook", "hook", "copy", "copy", "ctrait", "ctrait", "ctrait", "validate_trait",
             "tpc", "sync", "gc", "drop", "notify-off"]
    reraise = rnd.random() < 0.5
    push_exception_handler(lambda *a: None, reraise_exceptions=reraise, main=True)
    try:
        for k in range(nops):
            kind = rnd.choice(kinds)
            fault = rnd.choice([-1, -1, 1, 1, 2, 3, 4])
            text, f = do(kind)
            log.write("O %d %s fault@%d\n" % (k, text, fault))
            log.flush()
            F.arm(fault)
            try:
                f()
            except RecursionError:
                raised["RecursionError"] = raised.get("RecursionError", 0) + 1
            except Exception as e:
                n = type(e).__name__
                raised[n] = raised.get(n, 0) + 1
            F.arm(-1)
            if rnd.random() < 0.05:
                gc.collect()
    finally:
        pop_exception_handler()
        F.arm(-1)
        HOOK[0] = None
    return dict(ops=nops, raised=raised)


# ---------------------------------------------------------------------------------------------------------
# finaliser scenarios: garbage collection (and touching / resurrecting the owner) from inside the teardown of
# HasTraits objects, trait definitions, containers and handlers.  Run by the harness in its own subprocess with
# PYTHONMALLOC=debug so that a use of freed memory is fatal instead of silent.
# ---------------------------------------------------------------------------------------------------------
KEEP = []


class CollectOnDel(object):
    def __init__(self, owner=None, resurrect=False):
        self.owner = owner
        self.resurrect = resurrect

    def __del__(self):
        gc.collect()
        o = self.owner
        if o is not None:
            try:
                o.trait_names()
                o.a = 1
                getattr(o, "a")
            except Exception:
                pass
            if self.resurrect:
                KEEP.append(o)


class FHolder(HasTraits):
    a = Any()
    payload = Any()
    lst = List(Any)
    d = Dict(Str, Any)
    st = Set(Any)
    child = Instance(HasTraits)
    ev = Event()


def finalizer_scenarios(log):
    def note(name):
        log.write("F %s\n" % name)
        log.flush()

    note("payload-collects-during-dealloc")
    for _ in range(20):
        h = FHolder()
        h.payload = CollectOnDel()
        del h
    note("payload-in-containers")
    for _ in range(10):
        h = FHolder(lst=[CollectOnDel(), 1], d={"a": CollectOnDel()}, st={CollectOnDel()})
        del h
    note("cycle-through-owner-touch")
    for _ in range(10):
        h = FHolder()
        h.payload = CollectOnDel(owner=h)
        del h
        gc.collect()
    note("cycle-through-owner-resurrect")
    for _ in range(10):
        h = FHolder()
        h.payload = CollectOnDel(owner=h, resurrect=True)
        del h
        gc.collect()
    del KEEP[:]
    gc.collect()
    note("nested-chain-trashcan")
    h = FHolder(payload=CollectOnDel())
    for _ in range(400):
        h = FHolder(child=h, payload=CollectOnDel() if _ % 50 == 0 else None)
    del h
    note("instance-trait-default-with-finaliser")
    for _ in range(10):
        h = FHolder()
        h.add_trait("z", Any(CollectOnDel()))
        h.z
        h.remove_trait("z")
        del h
    note("class-trait-default-with-finaliser")
    for _ in range(5):
        K = type("FK", (HasTraits,), {"q": Any(CollectOnDel()), "r": List(Any, [CollectOnDel()])})
        k = K()
        k.q, k.r
        del k, K
        gc.collect()
    note("handler-with-finaliser")
    for _ in range(10):
        h = FHolder()
        fin = CollectOnDel()

        def handler(new, _fin=fin):
            pass
        h.on_trait_change(handler, "a")
        h.observe(lambda event, _fin=CollectOnDel(): None, "lst.items")
        h.a = 5
        del fin, handler
        del h
    note("event-and-notification-values")
    for _ in range(10):
        h = FHolder()
        h.on_trait_change(lambda: None, "ev")
        h.ev = CollectOnDel()
        h.a = CollectOnDel()
        h.a = CollectOnDel(owner=h)
        h.a = None
        del h
        gc.collect()
    note("default-init-reentrant-assign")
    # first read of a trait whose post_setattr hook (documented TraitType API) re-assigns / deletes the attribute
    # that is being default-initialised: the uniquely referenced dynamic default must stay alive until the caller of
    # getattr releases it
    reading = [False]

    class RawV(object):
        def __init__(self):
            self.data = [1, 2, 3]

        def __del__(self):
            if reading[0]:
                died[0] += 1

    died = [0]

    for mode in ("setq", "set", "dictpop", "none"):
        class Canon(TraitType):
            def validate(self, obj, name, value):
                return value

            def post_setattr(self, obj, name, value, mode=mode):
                if isinstance(value, RawV):
                    if mode == "setq":
                        obj.trait_setq(**{name: "canonical"})
                    elif mode == "set":
                        setattr(obj, name, "canonical")
                    elif mode == "dictpop":
                        obj.__dict__.pop(name, None)
                    gc.collect()

        class RH(HasTraits):
            x = Canon()

            def _x_default(self):
                return RawV()
        for _ in range(5):
            h = RH()
            died[0] = 0
            reading[0] = True
            try:
                first = h.x
            except Exception:
                first = None
            reading[0] = False
            if first is not None and died[0]:
                sys.stderr.write("FAIL: the dynamic default was deallocated while the attribute read that returned it "
                                 "was still running (getattr returned freed memory), mode %s\n" % mode)
                sys.stderr.flush()
                os._exit(70)
            if first is not None:
                first.data.append(len(repr(first)))
            del first
            try:
                h.x
                del h.x
                h.x
            except Exception:
                pass
            del h
    note("handler-reassigns-during-notification")
    # a change handler that assigns / deletes the SAME attribute while it is being notified, with uniquely
    # referenced old and new values (C18/Owner.v: every reference used after a callback is owned)
    class Uniq(object):
        def __init__(self):
            self.data = [1]

    class RN(HasTraits):
        a = Any()
        depth = Int()

        def _a_default(self):
            return Uniq()

    for action in ("assign", "delete", "assign-delete", "pop"):
        for _ in range(5):
            h = RN()

            def handler(obj, name, old, new):
                if obj.depth > 2:
                    return
                obj.depth += 1
                try:
                    if "assign" in action:
                        setattr(obj, name, Uniq())
                    if "delete" in action:
                        delattr(obj, name)
                    if action == "pop":
                        obj.__dict__.pop(name, None)
                    gc.collect()
                    if old is not None and hasattr(old, "data"):
                        old.data.append(1)
                    if new is not None and hasattr(new, "data"):
                        new.data.append(2)
                finally:
                    obj.depth -= 1
            h.on_trait_change(handler, "a")
            h.a                       # default materialised
            h.a = Uniq()
            h.a = Uniq()
            try:
                del h.a
            except Exception:
                pass
            h.a
            del h
    note("anytrait-handler-unregisters-during-dispatch")
    # object-level (anytrait) handlers, no trait-level notifiers on the changed trait; one-shot handlers unregister
    # themselves / later handlers / all handlers while the notification is being dispatched (call_notifiers must
    # iterate over its own snapshot of the lists)
    class AH(HasTraits):
        plain = Any()
        other = Any()

    for pattern in ("self", "later", "all", "earlier-and-later"):
        for _ in range(10):
            h = AH()
            hs = []

            def make(i):
                def handler():
                    if pattern == "self" and i == 0:
                        h.on_trait_change(hs[0], remove=True)
                    elif pattern == "later" and i == 0:
                        h.on_trait_change(hs[2], remove=True)
                        h.on_trait_change(hs[3], remove=True)
                    elif pattern == "all" and i == 1:
                        for x in list(hs):
                            try:
                                h.on_trait_change(x, remove=True)
                            except Exception:
                                pass
                    elif pattern == "earlier-and-later" and i == 1:
                        h.on_trait_change(hs[0], remove=True)
                        h.on_trait_change(hs[3], remove=True)
                    gc.collect()
                return handler
            for i in range(4):
                hs.append(make(i))
                h.on_trait_change(hs[i])          # no name: object-level notifier
            h.plain = CollectOnDel()
            h.other = 5
            h.plain = None
            del hs[:]
            del h
    note("default-attribute-error-with-warnings-as-errors")
    # default-value resolution raising AttributeError (a misspelled attribute in _x_default, a failing factory) while
    # warnings are errors: _warn_on_attribute_error (ctraits.c 1795-1838) chains the exceptions
    import warnings

    class WD(HasTraits):
        x = Any()
        inst = Instance(FHolder, factory=lambda: FHolder().no_such_attribute)

        def _x_default(self):
            return self.no_such_attribute

    with warnings.catch_warnings():
        warnings.simplefilter("error")
        for _ in range(200):
            w = WD()
            for nm in ("x", "inst"):
                try:
                    getattr(w, nm)
                except Exception as exc:
                    repr(exc), repr(exc.__cause__), repr(exc.__context__)
                    del exc
            del w
        gc.collect()
    with warnings.catch_warnings():
        warnings.simplefilter("ignore")
        for _ in range(50):
            w = WD()
            try:
                w.x
            except Exception:
                pass
            del w
    note("function-local-class-survives-gc")
    # a class defined inside a function, referenced only by the running frame, whose only instance is cyclic garbage:
    # a collection must not tear the class down
    def local_class_scenario():
        class Local(HasTraits):
            x = Any()
            y = Int(3)

        for _ in range(3):
            a = Local()
            a.x = a                      # a reference cycle through the instance
            del a
            gc.collect()
        b = Local()                      # RuntimeError('No ctrait_dict') / AttributeError when the class was torn down
        if Local.__mro__ is None or "__class_traits__" not in Local.__dict__ or b.y != 3:
            raise RuntimeError("class torn down")
        b.x = 5
        return Local
    for _ in range(5):
        try:
            local_class_scenario()
        except Exception as exc:
            sys.stderr.write("FAIL: a garbage collection tore down a live function-local HasTraits class: %r\n" % (exc,))
            sys.stderr.flush()
            os._exit(70)
    note("heap-check")
    junk = [FHolder(payload=i) for i in range(2000)]
    del junk
    gc.collect()
    note("done")


def delegate_replaced_scenario(log):
    """setattr_delegate (ctraits.c 2559-2660) keeps only a BORROWED reference to the delegate object (PyDict_GetItem,
    or getattr followed at once by Py_DECREF) while it calls the target trait's setattr; a Python-level validator of
    the target trait that re-assigns the delegating object's delegate attribute drops the last reference to the
    delegate, and setattr_trait goes on using it."""
    log.write("F delegate-replaced-during-delegated-set\n")
    log.flush()
    holder = []

    class Evil(TraitType):
        def validate(self, obj, name, value):
            holder[0].leaf = DLeaf()       # obj (the delegate) loses its owner
            gc.collect()
            junk = [bytearray(64) for _ in range(500)]
            del junk
            return value

    class DLeaf(HasTraits):
        v = Evil()

        def _v_changed(self, new):
            pass

    class DOwner(HasTraits):
        leaf = Instance(DLeaf)
        v = DelegatesTo("leaf")

    for _ in range(50):
        o = DOwner(leaf=DLeaf())
        holder[:] = [o]
        o.v = object()
        del o
    # a delegate computed by a method: a fresh object with no other owner at all
    log.write("F delegate-replaced-during-delegated-set\n")
    log.flush()

    class TLeaf(HasTraits):
        v = Any()

        def _v_changed(self, new):
            gc.collect()

    class TOwner(HasTraits):
        leaf = Property()
        v = DelegatesTo("leaf")

        def _get_leaf(self):
            return TLeaf()

    for _ in range(50):
        o = TOwner()
        try:
            o.v = object()
        except Exception:
            pass
        del o
    junk = [DOwner(leaf=DLeaf()) for _ in range(500)]
    del junk
    gc.collect()
    log.write("F done\n")
    log.flush()


def trait_removed_scenario(log):
    """has_traits_setattro (ctraits.c 649-666) takes the trait object out of the instance-trait dict as a BORROWED
    reference and calls trait->setattr(trait, trait, obj, name, value); a Python-level validator that removes that
    instance trait (obj.remove_trait(name)) frees the CTrait, and setattr_trait goes on reading traitd->flags,
    traitd->post_setattr, traito->notifiers."""
    log.write("F trait-removed-during-validation\n")
    log.flush()

    class Evil(TraitType):
        def validate(self, obj, name, value):
            obj.remove_trait(name)
            gc.collect()
            junk = [bytearray(200) for _ in range(1000)]
            del junk
            return value

        def post_setattr(self, obj, name, value):
            pass

    class TH(HasTraits):
        pass

    for _ in range(100):
        h = TH()
        h.add_trait("z", Evil())
        h.on_trait_change(lambda: None, "z")
        try:
            h.z = object()
        except Exception:
            pass
        del h
    junk = [TH() for _ in range(500)]
    del junk
    gc.collect()
    log.write("F done\n")
    log.flush()


def trait_removed_default_scenario(log):
    """has_traits_getattro (857-862) -> getattr_trait with the trait object BORROWED from the instance-trait dict: a
    callable default that removes the instance trait frees the CTrait; getattr_trait goes on reading
    trait->post_setattr / trait->notifiers."""
    log.write("F trait-removed-during-default\n")
    log.flush()

    class D(TraitType):
        def get_default_value(self):
            return (8, self._mk)

        def _mk(self, obj):
            obj.remove_trait("z")
            gc.collect()
            junk = [bytearray(100) for _ in range(1000)]
            del junk
            return 7

        def post_setattr(self, obj, name, value):
            pass

    class TH2(HasTraits):
        pass

    for _ in range(100):
        h = TH2()
        h.add_trait("z", D())
        h.on_trait_change(lambda: None, "z")
        try:
            h.z
        except Exception:
            pass
        del h
    gc.collect()
    log.write("F done\n")
    log.flush()


def trait_removed_tpc_scenario(log):
    """trait_property_changed (1094-1135) reads tnotifiers = trait->notifiers, releases the trait, and — when the new
    value is omitted — calls has_traits_getattro (the property getter: arbitrary code) BEFORE call_notifiers uses the
    borrowed notifier list; a getter that removes the instance trait frees the list."""
    log.write("F trait-removed-during-property-changed\n")
    log.flush()

    def getter(obj):
        obj.remove_trait("p")
        gc.collect()
        junk = [bytearray(100) for _ in range(1000)]
        del junk
        return 5

    class TH3(HasTraits):
        pass

    for _ in range(100):
        h = TH3()
        h.add_trait("p", Property(fget=getter))
        h.on_trait_change(lambda: None, "p")
        try:
            h.trait_property_changed("p", 1)
        except Exception:
            pass
        del h
    gc.collect()
    log.write("F done\n")
    log.flush()


ONLY = {"delegate-replaced": delegate_replaced_scenario, "trait-removed": trait_removed_scenario,
        "trait-removed-default": trait_removed_default_scenario, "trait-removed-tpc": trait_removed_tpc_scenario}


def main():
    payload = dlib.load()
    if payload.get("finalizers"):
        log = open(payload["log"], "a")
        if payload.get("only") in ONLY:
            ONLY[payload["only"]](log)
            log.close()
            dlib.dump(dict(ok=True))
            return
        finalizer_scenarios(log)
        log.close()
        dlib.dump(dict(ok=True))
        return
    log = open(payload["log"], "a")
    out = []
    for i, p in enumerate(payload["programs"]):
        log.write("P %d %d\n" % (p["index"], p["seed"]))
        log.flush()
        out.append(prog(random.Random(p["seed"]), p["n"], log))
    log.write("END\n")
    log.close()
    dlib.dump(out)


if __name__ == "__main__":
    main()
