"""C07 implementation driver: executes set histories on the real TraitSet /
TraitSetObject of the tree under test and records canonical observations."""
import copy
import operator
import pickle
import sys
import os

sys.path.insert(0, os.path.dirname(os.path.abspath(__file__)))
import dlib  # noqa: E402

from traits.api import Any, CInt, HasTraits, Int, Set, TraitError  # noqa: E402
from traits.trait_set_object import TraitSet  # noqa: E402

EXN = ["KeyError", "TraitError", "TypeError", "AttributeError"]


def val(a):
    if 0 <= a < 100:
        return a
    if 100 <= a < 200:
        return str(a - 100)
    if a == 200:
        return None
    if a == 201:
        return (1,)
    if 300 <= a < 400:
        return float(a - 300)      # equal to the int a-300, but not an int
    raise ValueError(a)


def atom(v):
    if type(v) is int:
        return v
    if type(v) is float:
        return 300 + int(v)
    if type(v) is str:
        return 100 + int(v)
    if v is None:
        return 200
    if v == (1,):
        return 201
    raise ValueError(repr(v))


def v_int(x):
    if type(x) is not int:
        raise TraitError("not an int")
    return x


def v_cint(x):
    try:
        return int(x)
    except (TypeError, ValueError):
        raise TraitError("not convertible")


class HInt(HasTraits):
    s = Set(Int)


class HCInt(HasTraits):
    s = Set(CInt)


class HAny(HasTraits):
    s = Set(Any)


VALIDATORS = {"VAll": None, "VInt": v_int, "VCInt": v_cint}
OWNERS = {"VAll": HAny, "VInt": HInt, "VCInt": HCInt}
PROBE = {"VAll": [(200, 200), (105, 105)], "VInt": [(200, None), (105, None), (5, 5)],
         "VCInt": [(200, None), (105, 5), (5, 5)]}


def shaped(items, kind):
    """An argument iterable of the given shape (one-shot iterators expose double consumption)."""
    if kind == "iter":
        return iter(items)
    if kind == "gen":
        return (x for x in items)
    if kind == "tuple":
        return tuple(items)
    return items


def args_of(ts, op):
    kinds = op[2] if len(op) > 2 else []
    out = []
    for i, l in enumerate(op[1]):
        if l == "self":
            out.append(ts)
        else:
            out.append(shaped([val(a) for a in l], kinds[i] if i < len(kinds) else "list"))
    return out


def make(case):
    init = [val(a) for a in case["init"]]
    if case["target"] == "plain":
        return None, TraitSet(init, item_validator=VALIDATORS[case["vk"]])
    owner = OWNERS[case["vk"]]()
    owner.s = set(init)
    return owner, owner.s


def contents(ts):
    return sorted(atom(v) for v in ts)


def still_validates(ts, vk):
    for a, want in PROBE[vk]:
        try:
            got = atom(ts.item_validator(val(a)))
        except TraitError:
            got = None
        if got != want:
            return False
    return True


def run_case(case):
    owner, ts = make(case)
    events = []

    def rec(s, removed, added):
        events.append([sorted(atom(v) for v in removed), sorted(atom(v) for v in added)])

    ts.notifiers.append(rec)
    oev = None
    if owner is not None:
        oev = []

        def observer(ev):
            if ev.object is not owner.s:
                oev.append([[-1], [-1]])      # event.object must identify the set that changed
            oev.append([sorted(atom(v) for v in ev.removed), sorted(atom(v) for v in ev.added)])

        owner.observe(observer, "s:items")
        legacy = []

        def legacy_items(event):         # the pre-6.0 channel: TraitSetObject.notifier -> TraitSetEvent on `s_items`
            legacy.append([sorted(atom(v) for v in event.removed), sorted(atom(v) for v in event.added)])

        owner.on_trait_change(legacy_items, "s_items")
    hist = []
    for op in case["ops"]:
        del events[:]
        if oev is not None:
            del oev[:]
            del legacy[:]
        k = op[0]
        out, ret, cv = "Ok", None, None
        try:
            if k == "Add":
                ts.add(val(op[1]))
            elif k == "Discard":
                ts.discard(val(op[1]))
            elif k == "Remove":
                ts.remove(val(op[1]))
            elif k == "Pop":
                ret = atom(ts.pop())
            elif k == "Clear":
                ts.clear()
            elif k == "Update":
                ts.update(*args_of(ts, op))
            elif k in ("Ior", "Iand", "Isub", "Ixor"):
                items = [val(a) for a in op[2]]
                arg = (set(items) if op[1] == "set" else frozenset(items) if op[1] == "frozenset" else
                       TraitSet(items) if op[1] == "traitset" else      # operand validated by other rules (none)
                       ts if op[1] == "self" else items)                # the receiver as its own operand
                f = {"Ior": operator.ior, "Iand": operator.iand, "Isub": operator.isub,
                     "Ixor": operator.ixor}[k]
                r = f(ts, arg)
                if r is not ts:
                    raise RuntimeError("in-place operator returned a new object")
            elif k == "DiffUpdate":
                ts.difference_update(*args_of(ts, op))
            elif k == "InterUpdate":
                ts.intersection_update(*args_of(ts, op))
            elif k == "SymDiffUpdate":
                ts.symmetric_difference_update(ts if op[1] == "self" else
                                               shaped([val(a) for a in op[1]], op[2] if len(op) > 2 else "list"))
            elif k == "Copy":
                if op[1] == "copy":
                    new = copy.copy(ts)
                elif op[1] == "deep":
                    new = copy.deepcopy(ts)
                else:
                    new = pickle.loads(pickle.dumps(ts, int(op[2])))
                if type(new) is not type(ts):
                    raise RuntimeError("copy has another type")
                cv = still_validates(new, case["vk"]) and rec not in new.notifiers
                ts = new
                ts.notifiers.append(rec)
                oev = None          # the copy is detached from the owner: its observers do not follow it
            else:
                raise ValueError(k)
        except Exception as e:  # noqa
            out = dlib.exn_name(e, EXN)
        if oev is not None and legacy != oev:
            oev.append([[-2], [-2]])     # the legacy items event must carry the same deltas as the observer event
        hist.append({"out": out, "after": contents(ts), "events": [list(e) for e in events],
                     "ret": ret, "cv": cv, "oev": None if oev is None else [list(e) for e in oev]})
    return hist


def main():
    cases = dlib.load()
    dlib.dump([run_case(c) for c in cases])


main()
