"""C04 implementation driver: histories on the containers stored in List / Set / Dict traits
(TraitListObject / TraitSetObject / TraitDictObject of the tree under test), whole-value
assignment, the nested configurations List(List(T)) and Dict(Str, List(Int)), and the
mutating-method inventory of the running interpreter.

stdin: [case...] (each with "kind": "list"|"set"|"dict"|"nested"|"ndict") -> [[obs per step] per case]
       {"mode": "mutators"} -> inventory
"""
import operator
import sys
import os

sys.path.insert(0, os.path.dirname(os.path.abspath(__file__)))
import dlib  # noqa: E402
import c05_driver as L  # noqa: E402

from traits.api import Any, CInt, Dict, HasTraits, Int, List, Set, Str, TraitError  # noqa: E402
from traits.trait_list_object import TraitList, TraitListObject  # noqa: E402
from traits.trait_set_object import TraitSet, TraitSetObject  # noqa: E402
from traits.trait_dict_object import TraitDict, TraitDictObject  # noqa: E402

val, atom, raw_init = L.val, L.atom, L.raw_init
INNER = L.INNER
EXN = ["IndexError", "ValueError", "TraitError", "TypeError", "KeyError", "AttributeError"]
_classes = {}


def cls_for(key, make):
    if key not in _classes:
        _classes[key] = type("H%d" % len(_classes), (HasTraits,), {"x": make()})
    return _classes[key]


def list_kw(mn, mx):
    kw = {"minlen": mn}
    if mx is not None:
        kw["maxlen"] = mx
    return kw


class Rec:
    """recording notifier attached to every container that is reachable at the moment"""

    def __init__(self):
        self.n = 0
        self.list_events = []

    def on_list(self, tl, index, removed, added):
        self.n += 1
        self.list_events.append([L.enc_index(index), [atom(v) for v in removed], [atom(v) for v in added]])

    def on_set(self, ts, removed, added):
        self.n += 1

    def on_outer(self, tl, index, removed, added):
        self.n += 1

    def on_dict(self, td, removed, added, changed):
        self.n += 1

    def attach(self, c, fn):
        if not any(n == fn for n in c.notifiers):
            c.notifiers.append(fn)

    def reset(self):
        self.n = 0
        del self.list_events[:]


def exn(e):
    return dlib.exn_name(e, EXN)


# ---------------------------------------------------------------- list
def run_list(case):
    owner = cls_for(("list", case["vk"], case["minlen"], case["maxlen"]),
                    lambda: List(INNER[case["vk"]], **list_kw(case["minlen"], case["maxlen"])))()
    owner.x = [raw_init(case["vk"], a) for a in case["init"]]
    rec = Rec()
    hist = []
    for op in case["ops"]:
        tl = owner.x
        if type(tl) is not TraitListObject:
            raise RuntimeError("List trait value is not a TraitListObject")
        rec.attach(tl, rec.on_list)
        rec.reset()
        out, ret = "Ok", None
        try:
            if op[0] == "Assign":
                items = [val(a) for a in op[2]]
                owner.x = items if op[1] else tuple(items)
            else:
                ret = L.apply_op(tl, op)
        except Exception as e:  # noqa
            out = exn(e)
        hist.append({"out": out, "after": [atom(v) for v in owner.x], "events": [list(e) for e in rec.list_events],
                     "ret": ret})
    return hist


# ---------------------------------------------------------------- set
def run_set(case):
    owner = cls_for(("set", case["vk"]), lambda: Set(INNER[case["vk"]]))()
    owner.x = set(raw_init(case["vk"], a) for a in case["init"])
    rec = Rec()
    hist = []
    for op in case["ops"]:
        ts = owner.x
        if type(ts) is not TraitSetObject:
            raise RuntimeError("Set trait value is not a TraitSetObject")
        rec.attach(ts, rec.on_set)
        rec.reset()
        out, ret = "Ok", None
        k = op[0]
        try:
            if k == "Assign":
                items = [val(a) for a in op[2]]
                owner.x = set(items) if op[1] else items
            elif k == "Add":
                ts.add(val(op[1]))
            elif k == "Discard":
                ts.discard(val(op[1]))
            elif k == "Remove":
                ts.remove(val(op[1]))
            elif k == "Pop":
                ret = atom(ts.pop())
            elif k == "Clear":
                ts.clear()
            elif k == "Update":
                ts.update(*[[val(a) for a in l] for l in op[1]])
            elif k in ("Ior", "Iand", "Isub", "Ixor"):
                items = [val(a) for a in op[2]]
                arg = set(items) if op[1] == "set" else frozenset(items) if op[1] == "frozenset" else items
                f = {"Ior": operator.ior, "Iand": operator.iand, "Isub": operator.isub, "Ixor": operator.ixor}[k]
                if f(ts, arg) is not ts:
                    raise RuntimeError("in-place operator returned a new object")
            elif k == "DiffUpdate":
                ts.difference_update(*[[val(a) for a in l] for l in op[1]])
            elif k == "InterUpdate":
                ts.intersection_update(*[[val(a) for a in l] for l in op[1]])
            elif k == "SymDiffUpdate":
                ts.symmetric_difference_update([val(a) for a in op[1]])
            else:
                raise ValueError(k)
        except Exception as e:  # noqa
            out = exn(e)
        hist.append({"out": out, "after": sorted(atom(v) for v in owner.x), "nev": rec.n, "ret": ret})
    return hist


# ---------------------------------------------------------------- dict
NODEFAULT = "nodefault"


def pairs(ps):
    return [(val(k), val(v)) for k, v in ps]


def run_dict(case):
    owner = cls_for(("dict", case["kk"], case["vk"]), lambda: Dict(INNER[case["kk"]], INNER[case["vk"]]))()
    owner.x = dict((raw_init(case["kk"], k), raw_init(case["vk"], v)) for k, v in case["init"])
    rec = Rec()
    hist = []
    for op in case["ops"]:
        td = owner.x
        if type(td) is not TraitDictObject:
            raise RuntimeError("Dict trait value is not a TraitDictObject")
        rec.attach(td, rec.on_dict)
        rec.reset()
        out = "Ok"
        k = op[0]
        try:
            if k == "Assign":
                owner.x = dict(pairs(op[2])) if op[1] else pairs(op[2])
            elif k == "SetItem":
                td[val(op[1])] = val(op[2])
            elif k == "DelItem":
                del td[val(op[1])]
            elif k == "Update":
                td.update(dict(pairs(op[2])) if op[1] else pairs(op[2]))
            elif k == "Ior":
                if operator.ior(td, dict(pairs(op[2])) if op[1] else pairs(op[2])) is not td:
                    raise RuntimeError("|= returned a new object")
            elif k == "SetDefault":
                td.setdefault(val(op[1]), val(op[2]))
            elif k == "Pop":
                if op[2] is None:
                    td.pop(val(op[1]))
                else:
                    td.pop(val(op[1]), val(op[2]))
            elif k == "PopItem":
                td.popitem()
            elif k == "Clear":
                td.clear()
            else:
                raise ValueError(k)
        except Exception as e:  # noqa
            out = exn(e)
        hist.append({"out": out, "after": [[atom(a), atom(b)] for a, b in owner.x.items()], "nev": rec.n})   # insertion order (popitem)
    return hist


# ---------------------------------------------------------------- List(List(T))
class NotAList:
    pass


def raw(r):
    return NotAList() if r is None else [val(a) for a in r]


def run_nested(case):
    imn, imx = case["ib"]
    omn, omx = case["ob"]
    owner = cls_for(("nested", case["vk"], imn, imx, omn, omx),
                    lambda: List(List(INNER[case["vk"]], **list_kw(imn, imx)), **list_kw(omn, omx)))()
    owner.x = [[raw_init(case["vk"], a) for a in r] for r in case["init"]]
    rec = Rec()
    hist = []
    for op in case["ops"]:
        tl = owner.x
        rec.attach(tl, rec.on_outer)
        for inner in tl:
            if type(inner) is not TraitListObject:
                raise RuntimeError("inner value is not a TraitListObject")
            rec.attach(inner, rec.on_list)
        rec.reset()
        out = "Ok"
        k = op[0]
        try:
            if k == "NAppend":
                tl.append(raw(op[1]))
            elif k == "NExtend":
                tl.extend([raw(r) for r in op[1]])
            elif k == "NInsert":
                tl.insert(op[1], raw(op[2]))
            elif k == "NSetInt":
                tl[op[1]] = raw(op[2])
            elif k == "NSetSlice":
                tl[L.sl(op[1])] = [raw(r) for r in op[2]]
            elif k == "NDelInt":
                del tl[op[1]]
            elif k == "NDelSlice":
                del tl[L.sl(op[1])]
            elif k == "NPop":
                tl.pop() if op[1] is None else tl.pop(op[1])
            elif k == "NReverse":
                tl.reverse()
            elif k == "NClear":
                tl.clear()
            elif k == "NAssign":
                owner.x = NotAList() if op[1] is None else [raw(r) for r in op[1]]
            elif k == "NInner":
                if not 0 <= op[1] < len(tl):
                    raise IndexError("no such inner list")
                L.apply_op(tl[op[1]], op[2])
            else:
                raise ValueError(k)
        except Exception as e:  # noqa
            out = exn(e)
        hist.append({"out": out, "after": [[atom(v) for v in inner] for inner in owner.x], "nev": rec.n})
    return hist


# ---------------------------------------------------------------- Dict(Str, List(Int))
def run_ndict(case):
    imn, imx = case["ib"]
    vk = case.get("vk", "VInt")
    owner = cls_for(("ndict", vk, imn, imx), lambda: Dict(Str, List(INNER[vk], **list_kw(imn, imx))))()
    owner.x = dict((val(k), [raw_init(vk, a) for a in r]) for k, r in case["init"])
    rec = Rec()
    hist = []
    for op in case["ops"]:
        td = owner.x
        rec.attach(td, rec.on_dict)
        for inner in td.values():
            if type(inner) is not TraitListObject:
                raise RuntimeError("inner value is not a TraitListObject")
            rec.attach(inner, rec.on_list)
        rec.reset()
        out = "Ok"
        k = op[0]
        try:
            if k == "SetItem":
                td[val(op[1])] = raw(op[2])
            elif k == "Update":
                td.update(dict((val(a), raw(r)) for a, r in op[1]))
            elif k == "SetDefault":
                td.setdefault(val(op[1]), raw(op[2]))
            elif k == "DelItem":
                del td[val(op[1])]
            elif k == "Pop":
                td.pop(val(op[1]))
            elif k == "Clear":
                td.clear()
            elif k == "Assign":
                owner.x = dict((val(a), raw(r)) for a, r in op[1])
            elif k == "Inner":
                L.apply_op(td[val(op[1])], op[2])
            else:
                raise ValueError(k)
        except Exception as e:  # noqa
            out = exn(e)
        hist.append({"out": out, "after": [[atom(a), [atom(v) for v in inner]] for a, inner in owner.x.items()],
                     "nev": rec.n})     # insertion order
    return hist


# ---------------------------------------------------------------- inventory of mutating methods
NONMUT = {
    "list": {"__add__", "__class__", "__class_getitem__", "__contains__", "__delattr__", "__dir__", "__doc__", "__eq__",
             "__format__", "__ge__", "__getattribute__", "__getitem__", "__getstate__", "__gt__", "__hash__", "__init__",
             "__init_subclass__", "__iter__", "__le__", "__len__", "__lt__", "__mul__", "__ne__", "__new__",
             "__reduce__", "__reduce_ex__", "__repr__", "__reversed__", "__rmul__", "__setattr__", "__sizeof__",
             "__str__", "__subclasshook__", "copy", "count", "index"},
    "set": {"__and__", "__class__", "__class_getitem__", "__contains__", "__delattr__", "__dir__", "__doc__", "__eq__",
            "__format__", "__ge__", "__getattribute__", "__getstate__", "__gt__", "__hash__", "__init__",
            "__init_subclass__", "__iter__", "__le__", "__len__", "__lt__", "__ne__", "__new__", "__or__", "__rand__",
            "__reduce__", "__reduce_ex__", "__repr__", "__ror__", "__rsub__", "__rxor__", "__setattr__", "__sizeof__",
            "__str__", "__sub__", "__subclasshook__", "__xor__", "copy", "difference", "intersection", "isdisjoint",
            "issubset", "issuperset", "symmetric_difference", "union"},
    "dict": {"__class__", "__class_getitem__", "__contains__", "__delattr__", "__dir__", "__doc__", "__eq__",
             "__format__", "__ge__", "__getattribute__", "__getitem__", "__getstate__", "__gt__", "__hash__", "__init__",
             "__init_subclass__", "__iter__", "__le__", "__len__", "__lt__", "__ne__", "__new__", "__or__",
             "__reduce__", "__reduce_ex__", "__repr__", "__reversed__", "__ror__", "__setattr__", "__sizeof__",
             "__str__", "__subclasshook__", "copy", "fromkeys", "get", "items", "keys", "values"},
}


def run_mutators():
    out = {}
    for name, base, tcls, ocls in (("list", list, TraitList, TraitListObject), ("set", set, TraitSet, TraitSetObject),
                                   ("dict", dict, TraitDict, TraitDictObject)):
        muts = sorted(set(dir(base)) - NONMUT[name])
        out[name] = {
            "mutators": muts,
            "not_overridden": [m for m in muts + ["__init__"] if getattr(tcls, m) is getattr(base, m)],
            "object_class_is_subclass": issubclass(ocls, tcls),
            # TraitListObject must re-override every length-changing method with the _validate_length guard
            "object_overrides": sorted(m for m in muts if m in ocls.__dict__),
        }
    return out


def main():
    p = dlib.load()
    fn = {"list": run_list, "set": run_set, "dict": run_dict, "nested": run_nested, "ndict": run_ndict}
    if isinstance(p, list):              # vlib.hist passes the bare list of cases; each names its kind
        dlib.dump([fn[c["kind"]](c) for c in p])
    elif p["mode"] == "mutators":
        dlib.dump(run_mutators())
    else:
        dlib.dump([fn[p["mode"]](c) for c in p["cases"]])


if __name__ == "__main__":
    main()
