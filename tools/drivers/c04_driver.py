"""C04 implementation driver: histories on the containers stored in List / Set / Dict traits
(TraitListObject / TraitSetObject / TraitDictObject of the tree under test), whole-value
assignment, the nested configurations List(List(T)) and Dict(Str, List(Int)), and the
mutating-method inventory of the running interpreter.

stdin: [case...] (each with "kind": "list"|"set"|"dict"|"nested"|"ndict") -> [[obs per step] per case]
       {"mode": "mutators"} -> inventory
"""
import copy
import gc
import operator
import pickle
import sys
import os

sys.path.insert(0, os.path.dirname(os.path.abspath(__file__)))
import dlib  # noqa: E402
import c05_driver as L  # noqa: E402

from traits.api import Any, CInt, Dict, HasTraits, Instance, Int, List, Set, Str, TraitError, TraitType  # noqa: E402
from traits.trait_list_object import TraitList, TraitListObject  # noqa: E402
from traits.trait_set_object import TraitSet, TraitSetObject  # noqa: E402
from traits.trait_dict_object import TraitDict, TraitDictObject  # noqa: E402

val, atom, raw_init = L.val, L.atom, L.raw_init
Cell = L.Cell          # Instance("Cell") forward references are resolved in this module's namespace


class IntIVF(TraitType):
    """VInt through the documented simplified hook is_valid_for only (no validate, no fast_validate)"""

    def is_valid_for(self, value):
        return type(value) is int and 0 <= value < 100


class IncVF(TraitType):
    """VInc through the documented simplified hook value_for only"""

    def value_for(self, value):
        if type(value) is int and 0 <= value < 90:
            return value + 1
        raise TraitError("not in 0..89")


_HOOKS = [False]       # set per case: Int-like / Inc inner traits are the hook-only TraitTypes above


def inner_trait(vk):
    if _HOOKS[0] and vk == "VInt":
        return IntIVF
    if _HOOKS[0] and vk == "VInc":
        return IncVF
    return Instance("Cell") if vk == "VInst" else L.INNER[vk]


class _Inner(dict):
    def __missing__(self, vk):
        return inner_trait(vk)


INNER = _Inner()       # INNER[vk]: a fresh trait for VInst, the class for the others
EXN = ["IndexError", "ValueError", "TraitError", "TypeError", "KeyError", "AttributeError", "OverflowError"]
_classes = {}


_FALSY = [None]        # set per case: the owner class defines __len__ -> 0 / __bool__ -> False
_ITEMS = [True]        # set per case: the container traits are declared with items=False (no <name>_items event)
_List, _Set, _Dict = List, Set, Dict


def List(*a, **k):  # noqa: F811
    k.setdefault("items", _ITEMS[0])
    return _List(*a, **k)


def Set(*a, **k):  # noqa: F811
    k.setdefault("items", _ITEMS[0])
    return _Set(*a, **k)


def Dict(*a, **k):  # noqa: F811
    k.setdefault("items", _ITEMS[0])
    return _Dict(*a, **k)


def cls_for(key, make):
    key = (key, _FALSY[0], _ITEMS[0], _HOOKS[0])
    if "VInst" in repr(key):
        # a forward reference Instance("Cell") is resolved (and the trait fixed up) at the first validation: every case
        # gets its own class, so that its first assignment is that first validation
        key = (key, len(_classes))
    if key not in _classes:
        name = "H%d" % len(_classes)
        members = {"x": make(), "__module__": "__main__", "__qualname__": name}
        members.update(L.falsy_members(_FALSY[0]))
        _classes[key] = type(name, (HasTraits,), members)
        globals()[name] = _classes[key]        # importable by name: instances can be pickled
    return _classes[key]


def list_kw(mn, mx):
    kw = {"minlen": mn}
    if mx is not None:
        kw["maxlen"] = mx
    return kw


class Rec:
    """recording notifier attached to every container that is reachable at the moment"""

    def __init__(self, owner=None):
        self.n = 0
        self.t = 0                     # change notifications of the trait itself (obj.x), counted on failing ops only
        self.list_events = []
        if owner is not None:
            owner.on_trait_change(self.on_trait, "x")

    def on_trait(self):
        self.t += 1

    def failed(self, out):
        """a failing operation must notify nobody: also no change notification of the trait itself"""
        if out != "Ok" and self.t:
            self.n += self.t
            self.list_events.append([["I", -1000003], [], []])

    def on_list(self, tl, index, removed, added):
        self.n += 1
        self.list_events.append([L.enc_index(index), [atom(v) for v in removed], [atom(v) for v in added]])

    def on_set(self, ts, removed, added):
        self.n += 1

    def on_outer(self, tl, index, removed, added):
        self.n += 1

    def on_dict(self, td, removed, added, changed):
        self.n += 1

    def attach(self, c, fn):
        # a violating implementation may store something that is not a trait container: nothing to attach to,
        # the contents are still recorded and judged by the law
        ns = getattr(c, "notifiers", None)
        if isinstance(ns, list) and not any(n == fn for n in ns):
            ns.append(fn)

    def reset(self):
        self.n = 0
        self.t = 0
        del self.list_events[:]


def exn(e):
    return dlib.exn_name(e, EXN)


def enc_inner(x):
    """contents of an inner list; something that is not a list at all is shown as [999] (never valid)"""
    return [atom(v) for v in x] if isinstance(x, list) else [999]


def repickled(owner):
    """the owner after a pickle round trip (HasTraits.__setstate__ re-assigns every trait value: validated again, wrapped
    into fresh container objects connected to the new owner)"""
    return pickle.loads(pickle.dumps(owner))


def is_repickle(op):
    return op[0] in ("Assign", "NAssign") and op[-1] == "repickle"


def loose_like(owner, how, raw_init_value, fill):
    """A trait container of the same trait as owner.x that validates nothing any more: a deep copy (no owner) or
    the value of an object that has been garbage collected ("orphan"); `fill` puts the raw contents into it with
    the methods of the built-in base class, so whatever they are they get in."""
    if how == "deepcopy":
        c = copy.deepcopy(owner.x)
    elif how == "copy":
        c = copy.copy(owner.x)
    elif how == "pickle":
        c = pickle.loads(pickle.dumps(owner.x))
    elif how == "self":
        return owner.x                 # obj.x = obj.x (what `obj.x += ...` does after the in-place operation)
    elif how == "orphan":
        tmp = type(owner)()
        tmp.x = raw_init_value
        c = tmp.x
        del tmp
        gc.collect()
    else:
        raise ValueError(how)
    if type(c) is not type(owner.x):
        raise RuntimeError("no loose container of the same type")
    fill(c)
    return c


def loose_set(ts, items):
    """an ownerless trait set of the same trait holding exactly these raw items"""
    c = copy.deepcopy(ts)
    set.clear(c)
    set.update(c, items)
    return c


def loose_dict(td, op):
    """the mapping argument of update / |=: a plain dict, or (trailing "loose" marker) an ownerless trait dict"""
    d = dict((val(k), val(v)) for k, v in op[2])
    if op[-1] == "loose" and isinstance(td, dict):
        c = copy.deepcopy(td)
        dict.clear(c)
        dict.update(c, d)
        return c
    return d


def fill_list(items):
    def f(c):
        list.clear(c)
        list.extend(c, items)
    return f


# ---------------------------------------------------------------- list
def run_list(case):
    init_raw = [raw_init(case["vk"], a) for a in case["init"]]
    if case.get("init_mode") == "default":       # the start value is the trait's declared default, never assigned
        owner = cls_for(("list-d", case["vk"], case["minlen"], case["maxlen"], tuple(init_raw)),
                        lambda: List(INNER[case["vk"]], list(init_raw), **list_kw(case["minlen"], case["maxlen"])))()
    else:
        owner = cls_for(("list", case["vk"], case["minlen"], case["maxlen"]),
                        lambda: List(INNER[case["vk"]], **list_kw(case["minlen"], case["maxlen"])))()
        owner.x = list(init_raw)
    rec = Rec(owner)
    hist = []
    for op in case["ops"]:
        tl = owner.x
        rec.attach(tl, rec.on_list)
        rec.reset()
        out, ret = "Ok", None
        try:
            if is_repickle(op):
                owner = repickled(owner)
                rec = Rec(owner)
            elif op[0] == "Assign":
                items = [val(a) for a in op[2]]
                how = op[3] if len(op) > 3 else "plain"
                if how != "plain":
                    owner.x = loose_like(owner, how, list(init_raw), fill_list(items))
                else:
                    owner.x = items if op[1] else tuple(items)
            else:
                ret = L.apply_op(tl, op)
        except Exception as e:  # noqa
            out = exn(e)
        rec.failed(out)
        hist.append({"out": out, "after": [atom(v) for v in owner.x], "events": [list(e) for e in rec.list_events],
                     "ret": ret})
    return hist


# ---------------------------------------------------------------- set
def run_set(case):
    init_raw = set(raw_init(case["vk"], a) for a in case["init"])
    if case.get("init_mode") == "default":
        owner = cls_for(("set-d", case["vk"], tuple(sorted(init_raw, key=repr))),
                        lambda: Set(INNER[case["vk"]], set(init_raw)))()
    else:
        owner = cls_for(("set", case["vk"]), lambda: Set(INNER[case["vk"]]))()
        owner.x = set(init_raw)
    rec = Rec(owner)
    hist = []
    for op in case["ops"]:
        ts = owner.x
        rec.attach(ts, rec.on_set)
        rec.reset()
        out, ret = "Ok", None
        k = op[0]
        try:
            if is_repickle(op):
                owner = repickled(owner)
                rec = Rec(owner)
            elif k == "Assign":
                items = [val(a) for a in op[2]]
                how = op[3] if len(op) > 3 else "plain"
                if how != "plain":
                    owner.x = loose_like(owner, how, set(init_raw), lambda c: (set.clear(c), set.update(c, items)))
                else:
                    owner.x = set(items) if op[1] else items
            elif k == "Add":
                ts.add(val(op[1]))
            elif k == "Discard":
                ts.discard(val(op[1]))
            elif k == "Remove":
                ts.remove(val(op[1]))
            elif k == "Pop":
                ret = atom(ts.pop())
            elif k == "Clear":
                ts.clear()
            elif k == "Update":
                args = [[val(a) for a in l] for l in op[1]]
                if op[-1] == "loose":
                    args = [loose_set(ts, l) for l in args]
                ts.update(*args)
            elif k in ("Ior", "Iand", "Isub", "Ixor"):
                items = [val(a) for a in op[2]]
                arg = set(items) if op[1] == "set" else frozenset(items) if op[1] == "frozenset" else items
                if op[-1] == "loose" and op[1] == "set":
                    arg = loose_set(ts, items)
                f = {"Ior": operator.ior, "Iand": operator.iand, "Isub": operator.isub, "Ixor": operator.ixor}[k]
                if f(ts, arg) is not ts:
                    raise RuntimeError("in-place operator returned a new object")
            elif k == "DiffUpdate":
                ts.difference_update(*[[val(a) for a in l] for l in op[1]])
            elif k == "InterUpdate":
                ts.intersection_update(*[[val(a) for a in l] for l in op[1]])
            elif k == "SymDiffUpdate":
                ts.symmetric_difference_update([val(a) for a in op[1]])
            else:
                raise ValueError(k)
        except Exception as e:  # noqa
            out = exn(e)
        rec.failed(out)
        hist.append({"out": out, "after": sorted(atom(v) for v in owner.x), "nev": rec.n, "ret": ret})
    return hist


# ---------------------------------------------------------------- dict
NODEFAULT = "nodefault"


def pairs(ps):
    return [(val(k), val(v)) for k, v in ps]


def run_dict(case):
    init_raw = dict((raw_init(case["kk"], k), raw_init(case["vk"], v)) for k, v in case["init"])
    if case.get("init_mode") == "default":
        owner = cls_for(("dict-d", case["kk"], case["vk"], tuple(init_raw.items())),
                        lambda: Dict(INNER[case["kk"]], INNER[case["vk"]], dict(init_raw)))()
    else:
        owner = cls_for(("dict", case["kk"], case["vk"]), lambda: Dict(INNER[case["kk"]], INNER[case["vk"]]))()
        owner.x = dict(init_raw)
    rec = Rec(owner)
    hist = []
    for op in case["ops"]:
        td = owner.x
        rec.attach(td, rec.on_dict)
        rec.reset()
        out = "Ok"
        k = op[0]
        try:
            if is_repickle(op):
                owner = repickled(owner)
                rec = Rec(owner)
            elif k == "Assign":
                how = op[3] if len(op) > 3 else "plain"
                if how != "plain":
                    ps = dict(pairs(op[2]))
                    owner.x = loose_like(owner, how, dict(init_raw), lambda c: (dict.clear(c), dict.update(c, ps)))
                else:
                    owner.x = dict(pairs(op[2])) if op[1] else pairs(op[2])
            elif k == "SetItem":
                td[val(op[1])] = val(op[2])
            elif k == "DelItem":
                del td[val(op[1])]
            elif k == "UpdateKw":
                kw = dict((str(val(a)), val(b)) for a, b in op[2])     # keyword names: the str atoms
                if op[1] is None:
                    td.update(**kw)
                else:
                    td.update(dict(pairs(op[1])), **kw)
            elif k == "Update":
                td.update(loose_dict(td, op) if op[1] else pairs(op[2]))
            elif k == "Ior":
                if operator.ior(td, loose_dict(td, op) if op[1] else pairs(op[2])) is not td:
                    raise RuntimeError("|= returned a new object")
            elif k == "SetDefault":
                td.setdefault(val(op[1]), val(op[2]))
            elif k == "Pop":
                if op[2] is None:
                    td.pop(val(op[1]))
                else:
                    td.pop(val(op[1]), val(op[2]))
            elif k == "PopItem":
                td.popitem()
            elif k == "Clear":
                td.clear()
            else:
                raise ValueError(k)
        except Exception as e:  # noqa
            out = exn(e)
        rec.failed(out)
        hist.append({"out": out, "after": [[atom(a), atom(b)] for a, b in owner.x.items()], "nev": rec.n})   # insertion order (popitem)
    return hist


# ---------------------------------------------------------------- List(List(T))
class NotAList:
    pass


def raw(r, inner_src=None):
    """r: None (not a list), a list of atoms (plain Python list), or {"loose": [...]}: an ownerless trait list of the
    inner trait (deep copy of an existing inner list) holding these raw items"""
    if r is None:
        return NotAList()
    if r == "cell":
        return L.CELL                  # an instance of the innermost Instance("Cell") class where a list is expected
    if r == "nonevalue":
        return None
    if isinstance(r, dict):
        items = [val(a) for a in r["loose"]]
        if inner_src is None:
            return items
        c = copy.deepcopy(inner_src)
        list.clear(c)
        list.extend(c, items)
        return c
    return [val(a) for a in r]


def run_nested(case):
    imn, imx = case["ib"]
    omn, omx = case["ob"]
    owner = cls_for(("nested", case["vk"], imn, imx, omn, omx),
                    lambda: List(List(INNER[case["vk"]], **list_kw(imn, imx)), **list_kw(omn, omx)))()
    init_raw = [[raw_init(case["vk"], a) for a in r] for r in case["init"]]
    if not case.get("no_init"):        # no_init: start from the declared default (the empty list), nothing validated yet
        owner.x = [list(r) for r in init_raw]
    rec = Rec(owner)
    hist = []
    for op in case["ops"]:
        tl = owner.x
        src = tl[0] if len(tl) else None            # an inner trait list to derive ownerless ones from
        rec.attach(tl, rec.on_outer)
        for inner in tl:
            rec.attach(inner, rec.on_list)
        rec.reset()
        out = "Ok"
        k = op[0]
        try:
            if is_repickle(op):
                owner = repickled(owner)
                rec = Rec(owner)
            elif k == "NAppend":
                tl.append(raw(op[1], src))
            elif k == "NExtend":
                tl.extend([raw(r, src) for r in op[1]])
            elif k == "NInsert":
                tl.insert(op[1], raw(op[2], src))
            elif k == "NSetInt":
                tl[op[1]] = raw(op[2], src)
            elif k == "NSetSlice":
                tl[L.sl(op[1])] = [raw(r, src) for r in op[2]]
            elif k == "NDelInt":
                del tl[op[1]]
            elif k == "NDelSlice":
                del tl[L.sl(op[1])]
            elif k == "NPop":
                tl.pop() if op[1] is None else tl.pop(op[1])
            elif k == "NReverse":
                tl.reverse()
            elif k == "NClear":
                tl.clear()
            elif k == "NAssign":
                how = op[2] if len(op) > 2 else "plain"
                if op[1] is None:
                    owner.x = NotAList()
                elif how != "plain":
                    items = [raw(r, src) for r in op[1]]
                    owner.x = loose_like(owner, how, [list(r) for r in init_raw], fill_list(items))
                else:
                    owner.x = [raw(r, src) for r in op[1]]
            elif k == "NInner":
                if not 0 <= op[1] < len(tl):
                    raise IndexError("no such inner list")
                L.apply_op(tl[op[1]], op[2])
            else:
                raise ValueError(k)
        except Exception as e:  # noqa
            out = exn(e)
        rec.failed(out)
        hist.append({"out": out, "after": [enc_inner(inner) for inner in owner.x], "nev": rec.n})
    return hist


# ---------------------------------------------------------------- Dict(Str, List(Int))
def run_ndict(case):
    imn, imx = case["ib"]
    vk = case.get("vk", "VInt")
    owner = cls_for(("ndict", vk, imn, imx), lambda: Dict(Str, List(INNER[vk], **list_kw(imn, imx))))()
    init_raw = dict((val(k), [raw_init(vk, a) for a in r]) for k, r in case["init"])
    owner.x = dict((k, list(v)) for k, v in init_raw.items())
    rec = Rec(owner)
    hist = []
    for op in case["ops"]:
        td = owner.x
        src = next(iter(td.values()), None)
        rec.attach(td, rec.on_dict)
        for inner in td.values():
            rec.attach(inner, rec.on_list)
        rec.reset()
        out = "Ok"
        k = op[0]
        try:
            if is_repickle(op):
                owner = repickled(owner)
                rec = Rec(owner)
            elif k == "SetItem":
                td[val(op[1])] = raw(op[2], src)
            elif k == "Update":
                td.update(dict((val(a), raw(r, src)) for a, r in op[1]))
            elif k == "SetDefault":
                td.setdefault(val(op[1]), raw(op[2], src))
            elif k == "DelItem":
                del td[val(op[1])]
            elif k == "Pop":
                td.pop(val(op[1]))
            elif k == "Clear":
                td.clear()
            elif k == "Assign":
                how = op[2] if len(op) > 2 and isinstance(op[2], str) else "plain"
                ps = dict((val(a), raw(r, src)) for a, r in op[1])
                if how != "plain":
                    owner.x = loose_like(owner, how, dict((k, list(v)) for k, v in init_raw.items()),
                                         lambda c: (dict.clear(c), dict.update(c, ps)))
                else:
                    owner.x = ps
            elif k == "Inner":
                L.apply_op(td[val(op[1])], op[2])
            else:
                raise ValueError(k)
        except Exception as e:  # noqa
            out = exn(e)
        rec.failed(out)
        hist.append({"out": out, "after": [[atom(a), enc_inner(inner)] for a, inner in owner.x.items()],
                     "nev": rec.n})     # insertion order
    return hist


# ---------------------------------------------------------------- any nesting of List(...) and Dict(K, ...)
# type spec: ["A", vk] | ["L", inner, minlen, maxlen] | ["D", kk, value type]
# raw / stored values: atom (int) | list | {"d": [[key atom, value], ...]}
def deep_trait(t):
    if t[0] == "A":
        return INNER[t[1]]
    if t[0] == "L":
        return List(deep_trait(t[1]), **list_kw(t[2], t[3]))
    return Dict(INNER[t[1]], deep_trait(t[2]))


def deep_val(r):
    if isinstance(r, dict):
        return dict((val(k), deep_val(v)) for k, v in r["d"])
    return [deep_val(x) for x in r] if isinstance(r, list) else val(r)


def deep_init(t, r):
    if t[0] == "A":
        return raw_init(t[1], r)
    if t[0] == "L":
        return [deep_init(t[1], x) for x in r]
    return dict((raw_init(t[1], k), deep_init(t[2], v)) for k, v in r["d"])


def deep_enc(v):
    if isinstance(v, dict):
        return {"d": [[atom(k), deep_enc(x)] for k, x in v.items()]}
    return [deep_enc(x) for x in v] if isinstance(v, list) else atom(v)


def deep_attach(rec, v):
    if isinstance(v, list):
        rec.attach(v, rec.on_outer)
        for x in v:
            deep_attach(rec, x)
    elif isinstance(v, dict):
        rec.attach(v, rec.on_dict)
        for x in v.values():
            deep_attach(rec, x)


def deep_list_op(tl, g):
    k = g[0]
    if k == "GAppend":
        tl.append(deep_val(g[1]))
    elif k == "GExtend":
        tl.extend([deep_val(r) for r in g[1]])
    elif k == "GInsert":
        tl.insert(g[1], deep_val(g[2]))
    elif k == "GSetInt":
        tl[g[1]] = deep_val(g[2])
    elif k == "GSetSlice":
        tl[L.sl(g[1])] = [deep_val(r) for r in g[2]]
    elif k == "GDelInt":
        del tl[g[1]]
    elif k == "GDelSlice":
        del tl[L.sl(g[1])]
    elif k == "GPop":
        tl.pop() if g[1] is None else tl.pop(g[1])
    elif k == "GReverse":
        tl.reverse()
    elif k == "GClear":
        tl.clear()
    elif k == "GRemove":
        tl.remove(deep_val(g[1]))
    elif k == "GSort":
        tl.sort(reverse=bool(g[1]))
    elif k == "GImul":
        if operator.imul(tl, g[1]) is not tl:
            raise RuntimeError("*= returned a new object")
    else:
        raise ValueError(k)


def deep_dict_op(td, g):
    k = g[0]
    if k == "DgSetItem":
        td[val(g[1])] = deep_val(g[2])
    elif k == "DgUpdate":
        td.update(dict((val(a), deep_val(r)) for a, r in g[1]))
    elif k == "DgSetDefault":
        td.setdefault(val(g[1]), deep_val(g[2]))
    elif k == "DgDelItem":
        del td[val(g[1])]
    elif k == "DgPop":
        td.pop(val(g[1]))
    elif k == "DgClear":
        td.clear()
    else:
        raise ValueError(k)


def run_deep(case):
    t = case["type"]
    owner = cls_for(("deep", repr(t)), lambda: deep_trait(t))()
    if not case.get("no_init"):
        owner.x = deep_init(t, case["init"])
    rec = Rec(owner)
    hist = []
    for op in case["ops"]:
        deep_attach(rec, owner.x)
        rec.reset()
        out = "Ok"
        try:
            if is_repickle(op):
                owner = repickled(owner)
                rec = Rec(owner)
            elif op[0] == "Assign":
                owner.x = deep_val(op[1])
            else:
                node = owner.x
                for e in op[1]:
                    if isinstance(e, dict):
                        if not isinstance(node, dict):
                            raise TypeError("the path leaves the containers")
                        node = node[val(e["k"])]
                    else:
                        if not isinstance(node, list):
                            raise TypeError("the path leaves the containers")
                        if not 0 <= e < len(node):
                            raise IndexError("no such inner list")
                        node = node[e]
                kind, g = op[2]
                if kind == "L":
                    if not isinstance(node, list):
                        raise TypeError("not a list")
                    deep_list_op(node, g)
                else:
                    if not isinstance(node, dict):
                        raise TypeError("not a dict")
                    deep_dict_op(node, g)
        except Exception as e:  # noqa
            out = exn(e)
        rec.failed(out)
        hist.append({"out": out, "after": deep_enc(owner.x), "nev": rec.n})
    return hist


# ---------------------------------------------------------------- default values: first read of a never-assigned trait
def run_default(case):
    """The trait declares the raw default case["d"] (valid or not, inside or outside the bounds); a fresh instance
    is created and the trait is READ (twice).  Observation: the outcome class and, if readable, the contents."""
    sub = case["sub"]
    if sub == "list":
        d = [val(a) for a in case["d"]]
        mk = lambda: List(INNER[case["vk"]], list(d), **list_kw(case["minlen"], case["maxlen"]))  # noqa
    elif sub == "set":
        d = set(val(a) for a in case["d"])
        mk = lambda: Set(INNER[case["vk"]], set(d))  # noqa
    else:
        d = dict((val(k), val(v)) for k, v in case["d"])
        mk = lambda: Dict(INNER[case["kk"]], INNER[case["vk"]], dict(d))  # noqa
    owner = cls_for(("default", len(_classes)), mk)()

    def read():
        try:
            v = owner.x
            if sub == "list":
                return "Ok", [atom(x) for x in v]
            if sub == "set":
                return "Ok", sorted(atom(x) for x in v)
            return "Ok", [[atom(a), atom(b)] for a, b in v.items()]
        except Exception as e:  # noqa
            return exn(e), None
    first = read()
    second = read()
    if second != first:
        first = ("OtherError", None)        # the two reads must agree
    return [{"out": first[0], "after": first[1]}]


# ---------------------------------------------------------------- inventory of mutating methods
NONMUT = {
    "list": {"__add__", "__class__", "__class_getitem__", "__contains__", "__delattr__", "__dir__", "__doc__", "__eq__",
             "__format__", "__ge__", "__getattribute__", "__getitem__", "__getstate__", "__gt__", "__hash__", "__init__",
             "__init_subclass__", "__iter__", "__le__", "__len__", "__lt__", "__mul__", "__ne__", "__new__",
             "__reduce__", "__reduce_ex__", "__repr__", "__reversed__", "__rmul__", "__setattr__", "__sizeof__",
             "__str__", "__subclasshook__", "copy", "count", "index"},
    "set": {"__and__", "__class__", "__class_getitem__", "__contains__", "__delattr__", "__dir__", "__doc__", "__eq__",
            "__format__", "__ge__", "__getattribute__", "__getstate__", "__gt__", "__hash__", "__init__",
            "__init_subclass__", "__iter__", "__le__", "__len__", "__lt__", "__ne__", "__new__", "__or__", "__rand__",
            "__reduce__", "__reduce_ex__", "__repr__", "__ror__", "__rsub__", "__rxor__", "__setattr__", "__sizeof__",
            "__str__", "__sub__", "__subclasshook__", "__xor__", "copy", "difference", "intersection", "isdisjoint",
            "issubset", "issuperset", "symmetric_difference", "union"},
    "dict": {"__class__", "__class_getitem__", "__contains__", "__delattr__", "__dir__", "__doc__", "__eq__",
             "__format__", "__ge__", "__getattribute__", "__getitem__", "__getstate__", "__gt__", "__hash__", "__init__",
             "__init_subclass__", "__iter__", "__le__", "__len__", "__lt__", "__ne__", "__new__", "__or__",
             "__reduce__", "__reduce_ex__", "__repr__", "__reversed__", "__ror__", "__setattr__", "__sizeof__",
             "__str__", "__subclasshook__", "copy", "fromkeys", "get", "items", "keys", "values"},
}


def run_mutators():
    out = {}
    for name, base, tcls, ocls in (("list", list, TraitList, TraitListObject), ("set", set, TraitSet, TraitSetObject),
                                   ("dict", dict, TraitDict, TraitDictObject)):
        muts = sorted(set(dir(base)) - NONMUT[name])
        out[name] = {
            "mutators": muts,
            "not_overridden": [m for m in muts + ["__init__"] if getattr(tcls, m) is getattr(base, m)],
            "object_class_is_subclass": issubclass(ocls, tcls),
            # TraitListObject must re-override every length-changing method with the _validate_length guard
            "object_overrides": sorted(m for m in muts if m in ocls.__dict__),
        }
    return out


def main():
    p = dlib.load()
    fn = {"list": run_list, "set": run_set, "dict": run_dict, "nested": run_nested, "ndict": run_ndict,
          "deep": run_deep, "default": run_default}
    def one(c):
        L.reset_pool()
        _FALSY[0] = c.get("falsy")
        _ITEMS[0] = not c.get("no_items")
        _HOOKS[0] = bool(c.get("hooks"))
        return fn[c["kind"]](c)
    if isinstance(p, list):              # vlib.hist passes the bare list of cases; each names its kind
        dlib.dump([one(c) for c in p])
    elif p["mode"] == "mutators":
        dlib.dump(run_mutators())
    else:
        dlib.dump([fn[p["mode"]](c) for c in p["cases"]])


if __name__ == "__main__":
    main()
