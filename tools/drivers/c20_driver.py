"""C20 implementation driver: executes sync_trait histories on real HasTraits objects of the tree
under test.  Per operation it records: the exception class that escaped (if any), the values of
all four traits of every live object, the number of change notifications each (object, trait)
delivered to a recording handler (trait and trait_items channels together), and the number of
exceptions the traits notification machinery swallowed and handed to the exception handler
(push_exception_handler(handler=recording, reraise_exceptions=False)) or that were reported as
unraisable (weakref callbacks)."""
import gc
import json
import logging
import os
import sys
import weakref

sys.path.insert(0, os.path.dirname(os.path.abspath(__file__)))
import dlib  # noqa: E402

logging.disable(logging.CRITICAL)

from traits.api import Any, DelegatesTo, HasTraits, Instance, Int, List, TraitType, push_exception_handler  # noqa: E402

EXN = ["IndexError", "ValueError", "TraitError", "TypeError", "KeyError", "AttributeError", "RecursionError"]
# the list traits are called `items` and `values`: names that end in characters of the suffix "_items" (fifth wave:
# the items handler must cut the suffix, not strip a character set)
NAMES = ["s0", "s1", "items", "values"]
ALL_NAMES = NAMES + ["a0"]


class A(HasTraits):
    s0 = Int
    s1 = Int
    items = List(Int)
    values = List(Int)
    a0 = Any          # partner-only: takes whatever it is given; neither observed nor operated on


# Object variants (case["variant"][oid], default "plain"); the property does not distinguish them:
#  "deleg":  items is a DELEGATED list attribute (DelegatesTo a List(Int) on a private model object): sync_trait has to
#            recognise it as a list trait through base_trait() and hook <name>_items on it like on a plain List;
#  "valerr": s1 is an integer trait whose validator signals rejection with a ValueError subclass, not TraitError:
#            as a partner that rejects a value it must be skipped like any other (the handler's `except: pass`).
class M(HasTraits):
    items = List(Int)


class D(HasTraits):
    s0 = Int
    s1 = Int
    model = Instance(M, ())
    items = DelegatesTo("model")
    values = List(Int)
    a0 = Any


class Refused(ValueError):
    pass


class IntV(TraitType):
    default_value = 0

    def validate(self, object, name, value):
        if type(value) is int:
            return value
        raise Refused("%r is not an integer" % (value,))


class V(HasTraits):
    s0 = Int
    s1 = IntV()
    items = List(Int)
    values = List(Int)
    a0 = Any


VARIANTS = {"plain": A, "deleg": D, "valerr": V}


LOGGED = [0]


def _exc_handler(obj, name, old, new):
    LOGGED[0] += 1


def _unraisable(u):
    LOGGED[0] += 1


push_exception_handler(handler=_exc_handler, reraise_exceptions=False, main=True)
sys.unraisablehook = _unraisable


def make_recorder(oid, counts):
    def rec(obj, name, old, new):
        base = name[:-6] if name.endswith("_items") else name
        counts[(oid, base)] = counts.get((oid, base), 0) + 1
    return rec


def sl(t):
    return slice(t[0], t[1], t[2])


def mutate(lst, m):
    k = m[0]
    if k == "Append":
        lst.append(m[1])
    elif k == "Insert":
        lst.insert(m[1], m[2])
    elif k == "SetI":
        lst[m[1]] = m[2]
    elif k == "DelI":
        del lst[m[1]]
    elif k == "SetS":
        lst[sl(m[1])] = list(m[2])
    elif k == "DelS":
        del lst[sl(m[1])]
    elif k == "Extend":
        lst.extend(list(m[1]))
    elif k == "Iadd":
        lst += list(m[1])
    elif k == "Imul":
        lst *= m[1]
    elif k == "Pop":
        if m[1] is None:
            lst.pop()
        else:
            lst.pop(m[1])
    elif k == "Remove":
        lst.remove(m[1])
    elif k == "Clear":
        lst.clear()
    elif k == "Sort":
        lst.sort(reverse=bool(m[1]))
    elif k == "Reverse":
        lst.reverse()
    else:
        raise RuntimeError("unknown mutator %r" % (m,))


def run_case(case, emit=None):
    counts = {}
    pool = []
    for oid, vals in enumerate(case["init"]):
        o = VARIANTS[(case.get("variant") or ["plain"] * len(case["init"]))[oid]](
            s0=vals[0], s1=vals[1], items=list(vals[2]), values=list(vals[3]))
        rec = make_recorder(oid, counts)
        for n in NAMES:
            o.on_trait_change(rec, n)
        for n in NAMES[2:]:
            o.on_trait_change(rec, n + "_items")
        pool.append(o)
    out = []
    for op in case["ops"]:
        counts.clear()
        LOGGED[0] = 0
        res = "Done"
        try:
            k = op[0]
            if k == "Assign":
                v = op[3]
                setattr(pool[op[1]], NAMES[op[2]], list(v) if isinstance(v, list) else v)
            elif k == "Mut":
                mutate(getattr(pool[op[1]], NAMES[op[2]]), op[3])
            elif k == "Sync":
                pool[op[1]].sync_trait(NAMES[op[2]], pool[op[3]], alias=ALL_NAMES[op[4]], mutual=bool(op[5]))
            elif k == "Unsync":
                pool[op[1]].sync_trait(NAMES[op[2]], pool[op[3]], alias=ALL_NAMES[op[4]], mutual=bool(op[5]),
                                       remove=True)
            elif k == "Collect":
                wr = weakref.ref(pool[op[1]])
                pool[op[1]] = None
                if wr() is not None:      # only objects caught in a cycle need the collector (8 ms per run)
                    gc.collect()
            else:
                raise RuntimeError("unknown op %r" % (op,))
        except Exception as e:  # noqa: BLE001
            # the "valerr" variant's own way of rejecting a value is the rejection outcome
            res = "TraitError" if isinstance(e, Refused) else dlib.exn_name(e, EXN)
            e = None
        vals, cnt = [], []
        for oid, o in enumerate(pool):
            if o is None:
                vals.append([])
                cnt.append([])
            else:
                vals.append([o.s0, o.s1, list(o.items), list(o.values)])
                cnt.append([counts.get((oid, n), 0) for n in NAMES])
        out.append(dict(out=res, vals=vals, cnt=cnt, logged=LOGGED[0]))
        if emit is not None:
            emit(out[-1])
    pool[:] = []
    return out


# ---------------------------------------------------------------- watchdog
# The property forbids unbounded recursion.  Without the lock table the propagation does not loop
# forever (RecursionError is swallowed by the handlers' bare `except: pass`) but takes time exponential
# in the recursion limit, so the histories run in a worker process that reports every finished
# operation; when one operation takes longer than OP_BUDGET seconds (after the worker reported ready) the worker is killed, the operation
# is recorded as RecursionError (the history is cut there) and a new worker continues with the next
# history.  After MAX_TIMEOUTS such events the remaining histories are returned empty (not run).
OP_BUDGET = 20.0
STARTUP_BUDGET = 600.0
MAX_TIMEOUTS = 3


def worker():
    cases = dlib.load()
    w = sys.stdout
    w.write(json.dumps([-1, None]) + "\n")     # ready: start-up (imports, parsing) is not an operation
    w.flush()
    for k, c in enumerate(cases):
        def emit(ob, k=k):
            w.write(json.dumps([k, ob]) + "\n")
            w.flush()
        run_case(c, emit)
        w.write(json.dumps([k, None]) + "\n")
        w.flush()


def supervise(cases):
    import selectors
    import subprocess
    results = [None] * len(cases)
    start, timeouts = 0, 0
    while start < len(cases) and timeouts < MAX_TIMEOUTS:
        proc = subprocess.Popen([sys.executable, os.path.abspath(__file__), "--worker"],
                                stdin=subprocess.PIPE, stdout=subprocess.PIPE)
        proc.stdin.write(json.dumps(cases[start:]).encode())
        proc.stdin.close()
        sel = selectors.DefaultSelector()
        sel.register(proc.stdout, selectors.EVENT_READ)
        buf, cur, cur_k, done, hung, ready = b"", [], 0, False, False, False
        while not done:
            if not sel.select(timeout=OP_BUDGET if ready else STARTUP_BUDGET):
                hung = True
                break
            chunk = os.read(proc.stdout.fileno(), 1 << 16)
            if not chunk:
                done = True
                break
            buf += chunk
            while b"\n" in buf:
                line, buf = buf.split(b"\n", 1)
                k, ob = json.loads(line)
                if k == -1:
                    ready = True
                elif ob is None:
                    results[start + k] = cur
                    cur, cur_k = [], k + 1
                else:
                    cur.append(ob)
        sel.close()
        if hung:
            proc.kill()
            proc.wait()
            c = cases[start + cur_k]
            prev = cur[-1] if cur else dict(vals=[[v[0], v[1], list(v[2]), list(v[3])] for v in c["init"]])
            cur.append(dict(out="RecursionError", vals=prev["vals"], cnt=[[0] * len(v) for v in prev["vals"]],
                            logged=0))
            results[start + cur_k] = cur
            start, timeouts = start + cur_k + 1, timeouts + 1
        else:
            proc.wait()
            if proc.returncode != 0 or start + cur_k < len(cases):
                sys.exit(proc.returncode or 3)     # the worker crashed: no verdict from this driver run
            start = len(cases)
    return [r if r is not None else [] for r in results]


def main():
    if "--worker" in sys.argv:
        worker()
    else:
        dlib.dump(supervise(dlib.load()))


if __name__ == "__main__":
    main()
