"""C20 implementation driver: executes sync_trait histories on real HasTraits objects of the tree
under test.  Per operation it records: the exception class that escaped (if any), the values of
all four traits of every live object, the number of change notifications each (object, trait)
delivered to a recording handler (trait and trait_items channels together), and the number of
exceptions the traits notification machinery swallowed and handed to the exception handler
(push_exception_handler(handler=recording, reraise_exceptions=False)) or that were reported as
unraisable (weakref callbacks)."""
import gc
import logging
import os
import signal
import sys

sys.path.insert(0, os.path.dirname(os.path.abspath(__file__)))
import dlib  # noqa: E402

logging.disable(logging.CRITICAL)

from traits.api import HasTraits, Int, List, push_exception_handler  # noqa: E402

EXN = ["IndexError", "ValueError", "TraitError", "TypeError", "KeyError", "AttributeError", "RecursionError"]
NAMES = ["s0", "s1", "l0", "l1"]


class A(HasTraits):
    s0 = Int
    s1 = Int
    l0 = List(Int)
    l1 = List(Int)


LOGGED = [0]


def _exc_handler(obj, name, old, new):
    LOGGED[0] += 1


def _unraisable(u):
    LOGGED[0] += 1


push_exception_handler(handler=_exc_handler, reraise_exceptions=False, main=True)
sys.unraisablehook = _unraisable


# Watchdog: the property forbids unbounded recursion.  Without the lock table the propagation does not
# loop forever (RecursionError is swallowed by the handlers' bare `except: pass`) but takes time
# exponential in the recursion limit.  When one operation runs longer than OP_BUDGET seconds the alarm
# handler lowers the recursion limit to the current depth, so that every further call fails and the
# swallowing handlers unwind in linear time; the operation is then reported as RecursionError.
OP_BUDGET = 5.0
BASE_LIMIT = sys.getrecursionlimit()
TIMED_OUT = [False]


def _on_alarm(signum, frame):
    TIMED_OUT[0] = True
    depth, f = 0, frame
    while f is not None:
        depth, f = depth + 1, f.f_back
    try:
        sys.setrecursionlimit(depth + 3)
    except RecursionError:
        pass


signal.signal(signal.SIGALRM, _on_alarm)


def make_recorder(oid, counts):
    def rec(obj, name, old, new):
        base = name[:-6] if name.endswith("_items") else name
        counts[(oid, base)] = counts.get((oid, base), 0) + 1
    return rec


def sl(t):
    return slice(t[0], t[1], t[2])


def mutate(lst, m):
    k = m[0]
    if k == "Append":
        lst.append(m[1])
    elif k == "Insert":
        lst.insert(m[1], m[2])
    elif k == "SetI":
        lst[m[1]] = m[2]
    elif k == "DelI":
        del lst[m[1]]
    elif k == "SetS":
        lst[sl(m[1])] = list(m[2])
    elif k == "DelS":
        del lst[sl(m[1])]
    elif k == "Extend":
        lst.extend(list(m[1]))
    elif k == "Iadd":
        lst += list(m[1])
    elif k == "Imul":
        lst *= m[1]
    elif k == "Pop":
        if m[1] is None:
            lst.pop()
        else:
            lst.pop(m[1])
    elif k == "Remove":
        lst.remove(m[1])
    elif k == "Clear":
        lst.clear()
    elif k == "Sort":
        lst.sort(reverse=bool(m[1]))
    elif k == "Reverse":
        lst.reverse()
    else:
        raise RuntimeError("unknown mutator %r" % (m,))


def run_case(case):
    counts = {}
    pool = []
    for oid, vals in enumerate(case["init"]):
        o = A(s0=vals[0], s1=vals[1], l0=list(vals[2]), l1=list(vals[3]))
        rec = make_recorder(oid, counts)
        for n in NAMES:
            o.on_trait_change(rec, n)
        for n in NAMES[2:]:
            o.on_trait_change(rec, n + "_items")
        pool.append(o)
    out = []
    for op in case["ops"]:
        counts.clear()
        LOGGED[0] = 0
        res = "Done"
        TIMED_OUT[0] = False
        signal.setitimer(signal.ITIMER_REAL, OP_BUDGET)
        try:
            k = op[0]
            if k == "Assign":
                v = op[3]
                setattr(pool[op[1]], NAMES[op[2]], list(v) if isinstance(v, list) else v)
            elif k == "Mut":
                mutate(getattr(pool[op[1]], NAMES[op[2]]), op[3])
            elif k == "Sync":
                pool[op[1]].sync_trait(NAMES[op[2]], pool[op[3]], alias=NAMES[op[4]], mutual=bool(op[5]))
            elif k == "Unsync":
                pool[op[1]].sync_trait(NAMES[op[2]], pool[op[3]], alias=NAMES[op[4]], mutual=bool(op[5]),
                                       remove=True)
            elif k == "Collect":
                pool[op[1]] = None
                gc.collect()
            else:
                raise RuntimeError("unknown op %r" % (op,))
        except Exception as e:  # noqa: BLE001
            res = dlib.exn_name(e, EXN)
            e = None
        signal.setitimer(signal.ITIMER_REAL, 0)
        if TIMED_OUT[0]:
            sys.setrecursionlimit(BASE_LIMIT)
            res = "RecursionError"
        vals, cnt = [], []
        for oid, o in enumerate(pool):
            if o is None:
                vals.append([])
                cnt.append([])
            else:
                vals.append([o.s0, o.s1, list(o.l0), list(o.l1)])
                cnt.append([counts.get((oid, n), 0) for n in NAMES])
        out.append(dict(out=res, vals=vals, cnt=cnt, logged=LOGGED[0]))
    pool[:] = []
    return out


def main():
    cases = dlib.load()
    dlib.dump([run_case(c) for c in cases])


if __name__ == "__main__":
    main()
