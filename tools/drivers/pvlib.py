"""Driver-side library of the validation properties (C01, C03): builds Python values and
trait definitions from their JSON description (the constructors of coq/Common/PyVal.v and
coq/C03/Model.v) and encodes Python values back into that description.  Runs under the
scratch build of the tree under test."""
import logging
import math
import re
import sys
import types
import warnings

warnings.simplefilter("ignore")
logging.disable(logging.CRITICAL)

import numpy as np  # noqa: E402
import zlib  # noqa: E402
from traits.trait_list_object import TraitListObject  # noqa: E402
from traits.trait_dict_object import TraitDictObject  # noqa: E402
from traits.api import (  # noqa: E402
    Any, Array, Bool, Bytes, CBool, CBytes, CComplex, CFloat, CInt, CStr, Callable, Complex, Either, Enum, Float,
    Dict, HasTraits, Instance, Int, List, Map, Module, PrefixList, PrefixMap, Range, Regex, Str, String, Supports, This, Title,
    TraitError, Tuple, Type, Undefined, Union, ValidatedTuple)

SCALE = 1000
ATTR_NAME = {0: "x", 1: "other", 2: "y", 3: "z"}      # attribute ids of the C01 driver
ADDR = re.compile(r"0x[0-9a-f]{6,}")


class IntSub(int):
    pass


class FloatSub(float):
    pass


class StrSub(str):
    pass


class TupSub(tuple):
    pass


EXN = {"ETypeError": TypeError, "EValueError": ValueError, "EOverflowError": OverflowError,
       "EOtherError": KeyError}


class _Proto:
    def __init__(self, conv):
        self.conv = conv

    def _go(self):
        if self.conv[0] == "Raises":
            raise EXN[self.conv[1]]("from the value's own protocol")
        return self.payload(self.conv[1])


class Idx(_Proto):
    payload = staticmethod(lambda x: x)

    def __index__(self):
        return self._go()


class Flt(_Proto):
    payload = staticmethod(lambda x: fl_val(x))

    def __float__(self):
        return self._go()


class Cpx(_Proto):
    payload = staticmethod(lambda x: complex(fl_val(x[0]), fl_val(x[1])))

    def __complex__(self):
        return self._go()


class Foo(HasTraits):
    pass


class Bar(Foo):
    pass


class Baz(HasTraits):
    pass


class FooAdapter(Foo):
    """result of adapting a Baz to Foo (registered below)"""
    def __init__(self, adaptee=None):
        super().__init__()
        self.adaptee = adaptee


from traits.adaptation.api import adapt as _adapt, register_factory  # noqa: E402

register_factory(FooAdapter, Baz, Foo)      # a Baz can be adapted to Foo


class Proxy:
    """transparent proxy: its type is Proxy, its __class__ attribute reports the class of the wrapped object"""

    def __init__(self, target):
        self._target = target

    @property
    def __class__(self):
        return type(self._target)


def f0():
    return 1


class HostBase(HasTraits):
    pass


class HostSubBase(HostBase):
    pass


CLASSES = {0: object, 1: type(None), 2: bool, 3: int, 4: float, 5: complex, 6: str, 7: bytes, 8: tuple, 9: list,
           10: IntSub, 11: FloatSub, 12: StrSub, 13: TupSub, 14: np.int32, 15: np.int64, 16: np.uint8,
           17: np.float32, 18: np.float64, 19: np.bool_, 20: Idx, 21: Flt, 22: Cpx, 23: types.FunctionType,
           24: type, 25: types.ModuleType, 26: dict, 28: types.BuiltinFunctionType,
           30: Proxy, 31: type(Undefined), 32: dict, 100: Foo, 101: Bar, 102: Baz, 103: FooAdapter, 110: HostBase, 111: HostSubBase}
NPK = {14: np.int32, 15: np.int64, 16: np.uint8, 17: np.float32, 18: np.float64}
OTHERS = {-1: lambda: {}, -2: lambda: {1: 2}, -3: lambda: {1}, 1: lambda: object(), 2: lambda: frozenset([1])}
MODULES = {0: math, 1: re}
CALLABLES = {0: f0, 1: len}
DTYPES = {30: np.dtype("float64"), 31: np.dtype("float32"), 32: np.dtype("int64"), 33: np.dtype("int32"),
          34: np.dtype("int8"), 35: np.dtype("bool"), 36: np.dtype("<U1"), 37: np.dtype("complex128"),
          # other parametrisations of the same scalar type (dtype.type is identical, the dtype is not)
          38: np.dtype("<U3"), 40: np.dtype(">f8"), 41: np.dtype("S2")}
CASTING = {0: "no", 1: "equiv", 2: "safe", 3: "same_kind", 4: "unsafe"}


def make_array(dt, shape, cid):
    """the array denoted by PArray dt shape cid (cid < 1000: generated content)"""
    size = 1
    for n in shape:
        size *= n
    if dt in (36, 38, 41):
        width = {36: 1, 38: 3, 41: 2}[dt]
        flat = np.array([chr(97 + (i + cid) % 26) * width for i in range(size)], dtype=DTYPES[dt])
    elif dt == 35:
        flat = np.array([(i + cid) % 2 == 0 for i in range(size)], dtype=bool)
    else:
        flat = (np.arange(size) + cid).astype(DTYPES[dt])
    return flat.reshape(shape)


def enc_array(a):
    dt = next((k for k, d in DTYPES.items() if a.dtype == d), 39)
    shape = [int(n) for n in a.shape]
    if dt == 39:
        return ["PArray", 39, shape, 999]
    for cid in range(4):
        g = make_array(dt, shape, cid)
        if g.shape == a.shape and g.tobytes() == a.tobytes():
            return ["PArray", dt, shape, cid]
    return ["PArray", dt, shape, 1000 + zlib.crc32(np.ascontiguousarray(a).tobytes()) % 100000]


def sub_pairs():
    """the class table: all (a, b) with issubclass(CLASSES[a], CLASSES[b])"""
    out = []
    for a, ca in sorted(CLASSES.items()):
        for b, cb in sorted(CLASSES.items()):
            if issubclass(ca, cb):
                out.append([a, b])
    return out


def fl_val(f):
    k = f[0]
    if k == "FNaN":
        return float("nan")
    if k == "FNegInf":
        return -math.inf
    if k == "FPosInf":
        return math.inf
    neg, z = f[1], f[2]
    if z == 0:
        return -0.0 if neg else 0.0
    return z / SCALE if z % SCALE else float(z // SCALE)


class Unencodable(Exception):
    pass


def fl_enc(x):
    x = float(x)
    if x != x:
        return ["FNaN"]
    if x == math.inf:
        return ["FPosInf"]
    if x == -math.inf:
        return ["FNegInf"]
    if x == 0:
        return ["FFin", math.copysign(1.0, x) < 0, 0]
    if x.is_integer():
        return ["FFin", False, int(x) * SCALE]
    z = x * SCALE
    if abs(z - round(z)) > 1e-6:
        raise Unencodable(repr(x))
    return ["FFin", False, int(round(z))]


class Pool:
    """per-case registry: identity <-> (class id, instance id) of user-class instances"""

    def __init__(self, host=None, hostsub=None):
        self.classes = dict(CLASSES)
        if host is not None:
            self.classes[110] = host
            self.classes[111] = hostsub
        self.objs = {}      # (cls, id) -> object
        self.ids = {}       # id(object) -> (cls, id)
        self.keep = []
        self.later = []     # (live dict, items to add once the class exists)

    def obj(self, cls, oid):
        if (cls, oid) not in self.objs:
            o = self.classes[cls]()
            self.objs[(cls, oid)] = o
            self.ids[id(o)] = (cls, oid)
        return self.objs[(cls, oid)]

    def register(self, o, cls, oid):
        self.objs[(cls, oid)] = o
        self.ids[id(o)] = (cls, oid)
        self.keep.append(o)

    # ---- JSON -> Python value ----
    def val(self, j):
        k = j[0]
        if k == "PNone":
            return None
        if k == "PBool":
            return bool(j[1])
        if k == "PInt":
            return int(j[1])
        if k == "PIntSub":
            return IntSub(j[1])
        if k == "PFloat":
            return fl_val(j[1])
        if k == "PFloatSub":
            return FloatSub(fl_val(j[1]))
        if k == "PComplex":
            return complex(fl_val(j[1]), fl_val(j[2]))
        if k == "PStr":
            return "".join(chr(c) for c in j[1])
        if k == "PStrSub":
            return StrSub("".join(chr(c) for c in j[1]))
        if k == "PBytes":
            return bytes(j[1])
        if k == "PTuple":
            return tuple(self.val(x) for x in j[1])
        if k == "PTupleSub":
            return TupSub(self.val(x) for x in j[1])
        if k == "PList":
            return [self.val(x) for x in j[1]]
        if k == "PNpInt":
            return NPK[j[1]](j[2])
        if k == "PNpFloat":
            return NPK[j[1]](fl_val(j[2]))
        if k == "PNpBool":
            return np.bool_(j[1])
        if k == "PIndexObj":
            return Idx(j[1])
        if k == "PFloatObj":
            return Flt(j[1])
        if k == "PComplexObj":
            return Cpx(j[1])
        if k == "PObj":
            return self.obj(j[1], j[2])
        if k == "PType":
            return self.classes[j[1]]
        if k == "PCallable":
            return CALLABLES[j[1]]
        if k == "PModule":
            return MODULES[j[1]]
        if k == "POther":
            return OTHERS[j[1]]()
        if k == "PArray":
            return make_array(j[1], j[2], j[3])
        if k == "PProxy":
            return Proxy(self.obj(j[1], j[2]))
        if k == "PUndefined":
            return Undefined
        if k == "PDict":
            return {self.val(a): self.val(b) for a, b in j[1]}
        raise ValueError(j)

    # ---- Python value -> JSON (exact type tag + atom) ----
    def enc(self, v):
        t = type(v)
        if v is None:
            return ["PNone"]
        if v is Undefined:
            return ["PUndefined"]
        if t is bool:
            return ["PBool", v]
        if t is int:
            return ["PInt", v]
        if t is IntSub:
            return ["PIntSub", int(v)]
        if t is float:
            return ["PFloat", fl_enc(v)]
        if t is FloatSub:
            return ["PFloatSub", fl_enc(v)]
        if t is complex:
            return ["PComplex", fl_enc(v.real), fl_enc(v.imag)]
        if t is str:
            return ["PStr", [ord(c) for c in ADDR.sub("0x0", v)]]
        if t is StrSub:
            return ["PStrSub", [ord(c) for c in v]]
        if t is bytes:
            return ["PBytes", list(v)]
        if t is tuple:
            return ["PTuple", [self.enc(x) for x in v]]
        if t is TupSub:
            return ["PTupleSub", [self.enc(x) for x in v]]
        if t is list or t is TraitListObject:      # a List trait stores a TraitListObject copy: a list for the property
            return ["PList", [self.enc(x) for x in v]]
        for k, c in NPK.items():
            if t is c:
                return ["PNpInt", k, int(v)] if k <= 16 else ["PNpFloat", k, fl_enc(v)]
        if t is np.bool_:
            return ["PNpBool", bool(v)]
        if t is np.ndarray:
            return enc_array(v)
        if t is Proxy:
            c, i = self.ids[id(v._target)]
            return ["PProxy", c, i]
        if t is Idx:
            return ["PIndexObj", v.conv]
        if t is Flt:
            return ["PFloatObj", v.conv]
        if t is Cpx:
            return ["PComplexObj", v.conv]
        if id(v) in self.ids:
            c, i = self.ids[id(v)]
            return ["PObj", c, i]
        if isinstance(v, type):
            for k, c in self.classes.items():
                if v is c:
                    return ["PType", k]
        for k, c in CALLABLES.items():
            if v is c:
                return ["PCallable", k]
        for k, c in MODULES.items():
            if v is c:
                return ["PModule", k]
        if t is dict or t is TraitDictObject:    # a Dict trait stores a TraitDictObject copy: a dict for the property
            return ["PDict", [[self.enc(a), self.enc(b)] for a, b in v.items()]]
        if t is set:
            return ["POther", -3]
        if t is frozenset:
            return ["POther", 2]
        if t is object:
            return ["POther", 1]
        if t is FooAdapter and getattr(v, "adaptee", None) is not None and id(v.adaptee) in self.ids:
            return ["PObj", 103, self.ids[id(v.adaptee)][1]]
        raise Unencodable(repr(v)[:60])


# total custom validation functions of ValidatedTuple (the model takes their answer on the converted tuple as data)
FVALIDATE = {0: lambda t: True, 1: lambda t: repr(t[0]) <= repr(t[-1]), 2: lambda t: False, 3: lambda t: len(repr(t)) % 2 == 0}


def fv_fun(k):
    return None if k in (None, "none") else FVALIDATE[0 if k == "true" else k]


def apply_later(pool):
    """mutations of caller-owned mappings after the traits were defined"""
    for live, extra in pool.later:
        live.update(extra)


def fbound(b):
    return None if b is None else fl_val(b)


CASTS = {"CTInt": CInt, "CTFloat": CFloat, "CTComplex": CComplex, "CTStr": CStr, "CTBytes": CBytes, "CTBool": CBool}
REGEX = {0: r"^a", 1: r"^[a-z]+$", 2: r"\d", 3: r"^(ab)*$"}


def trait(d, pool):
    """JSON description -> a fresh TraitType instance"""
    k = d[0]
    simple = {"DAny": Any, "DInt": Int, "DFloat": Float, "DComplex": Complex, "DStr": Str, "DBytes": Bytes,
              "DBool": Bool, "DModule": Module}
    if k == "DStr" and len(d) > 1 and d[1] == "Title":      # Str subclass with the same fast descriptor
        return Title()
    if k in simple:
        return simple[k]()
    if k == "DCast":
        return CASTS[d[1]]()
    if k == "DRangeF":
        lo, hi = fbound(d[1]), fbound(d[2])
        if len(d) > 4 and d[4] == "mixed":     # Range(0, 1.0) / Range(0.0, 1): one int bound, still a float range
            if lo is not None and hi is not None and float(lo).is_integer() and abs(lo) < 2 ** 53:
                lo = int(lo)
            elif hi is not None and lo is not None and float(hi).is_integer() and abs(hi) < 2 ** 53:
                hi = int(hi)
        return Range(low=lo, high=hi, exclude_low=bool(d[3] & 1), exclude_high=bool(d[3] & 2))
    if k == "DRangeI":
        return Range(low=d[1], high=d[2], exclude_low=bool(d[3] & 1), exclude_high=bool(d[3] & 2))
    if k == "DEnum":
        vals = [pool.val(x) for x in d[1]]
        form = d[2] if len(d) > 2 else "list"
        if form == "args" and len(vals) > 1:           # Enum(a, b, c)
            return Enum(*vals)
        if form == "dflt" and len(vals) > 1:           # Enum(default, [a, b, c])
            return Enum(vals[-1], vals)
        if form == "tuple":                            # Enum((a, b, c))
            return Enum(tuple(vals))
        return Enum(vals)
    if k == "DMap":
        if len(d) > 2 and d[2] == "grow":      # the caller's dict gets its last items AFTER the trait (and class) is defined
            n0 = d[3]
            live = {pool.val(a): pool.val(b) for a, b in d[1][:n0]}
            pool.later.append((live, {pool.val(a): pool.val(b) for a, b in d[1][n0:]}))
            return Map(live)
        return Map({pool.val(a): pool.val(b) for a, b in d[1]})
    if k == "DTuple":
        if len(d) > 2 and d[2] == "Validated":      # ValidatedTuple(*traits, fvalidate=None | FVALIDATE[k])
            return ValidatedTuple(*[trait(x, pool) for x in d[1]], fvalidate=fv_fun(d[3]))
        return Tuple(*[trait(x, pool) for x in d[1]])
    if k == "DInstance":
        if len(d) > 4 and d[4] == "clone":     # Instance(K, allow_none=not an)(allow_none=an): a trait type called with metadata
            return Instance(pool.classes[d[1]], allow_none=not d[2])(allow_none=bool(d[2]))
        if len(d) > 4 and d[4] == "name":      # Instance("Foo"): class resolved at the first validation
            return Instance(pool.classes[d[1]].__name__, allow_none=bool(d[2]), module=__name__)
        return Instance(pool.classes[d[1]], allow_none=bool(d[2]))
    if k == "DAdapt":
        if len(d) > 5 and d[5] == "Supports" and d[2] == 1:     # Supports(K): Instance with adapt='yes' by default
            return Supports(pool.classes[d[1]], allow_none=bool(d[3]))
        return Instance(pool.classes[d[1]], adapt={1: "yes", 2: "default"}[d[2]], allow_none=bool(d[3]))
    if k == "DSelf":
        return This(allow_none=bool(d[1]))
    if k == "DCallable":
        return Callable(allow_none=bool(d[1]))
    if k == "DType":
        return Type(klass=pool.classes[d[1]], allow_none=bool(d[2]))
    if k == "DString":
        kw = dict(minlen=d[1], maxlen=d[2])
        if d[3] is not None:
            kw["regex"] = REGEX[d[3]]
        if len(d) > 4 and d[4] == "Regex":     # Regex(regex=...): String subclass
            return Regex(regex=REGEX[d[3]])
        return String(**kw)
    if k == "DPrefixList":
        return PrefixList(["".join(chr(c) for c in s) for s in d[1]])
    if k == "DPrefixMap":
        return PrefixMap({"".join(chr(c) for c in s): pool.val(x) for s, x in d[1]})
    if k == "DList":
        return List(trait(d[1], pool), minlen=d[2], maxlen=d[3])
    if k == "DDict":
        return Dict(trait(d[1], pool), trait(d[2], pool))
    if k == "DEnumDyn":        # Enum(values='<name>'): the collection is another trait of the same class
        return Enum(values=ATTR_NAME[d[1]])
    if k == "DRangeDyn":       # Range(low='<name>', high='<name>'): the bounds are other traits of the same class
        return Range(low=ATTR_NAME[d[1]], high=ATTR_NAME[d[2]], exclude_low=bool(d[3] & 1), exclude_high=bool(d[3] & 2))
    if k == "DArray":
        shp = None if d[2] is None else tuple(None if x is None else (x if isinstance(x, int) else tuple(x)) for x in d[2])
        return Array(dtype=None if d[1] is None else DTYPES[d[1]], shape=shp, casting=CASTING[d[3]])
    if k == "DCompound":
        return Either(*[trait(x, pool) for x in d[1]])
    if k == "DUnion":                       # Union(None, ...): the None alternative is an enumeration of None
        return Union(*[None if x == ["DEnum", [["PNone"]]] else trait(x, pool) for x in d[1]])
    raise ValueError(d)


def regex_ids(d, acc=None):
    acc = set() if acc is None else acc
    if d[0] == "DList":
        return regex_ids(d[1], acc)
    if d[0] == "DDict":
        return regex_ids(d[2], regex_ids(d[1], acc))
    if d[0] == "DString" and d[3] is not None:
        acc.add(d[3])
    for x in d[1:]:
        if isinstance(x, list):
            for y in x:
                if isinstance(y, list) and y and isinstance(y[0], str) and y[0].startswith("D"):
                    regex_ids(y, acc)
    return acc


def adapt_classes(d, acc=None):
    acc = set() if acc is None else acc
    if d[0] == "DList":
        return adapt_classes(d[1], acc)
    if d[0] == "DDict":
        return adapt_classes(d[2], adapt_classes(d[1], acc))
    if d[0] == "DAdapt":
        acc.add(d[1])
    for x in d[1:]:
        if isinstance(x, list):
            for y in x:
                if isinstance(y, list) and y and isinstance(y[0], str) and y[0].startswith("D"):
                    adapt_classes(y, acc)
    return acc


def array_nodes(d, acc=None):
    acc = [] if acc is None else acc
    if d[0] == "DArray":
        acc.append((d[1], d[3]))
    elif d[0] in ("DTuple", "DCompound", "DUnion"):
        for y in d[1]:
            array_nodes(y, acc)
    elif d[0] == "DList":
        array_nodes(d[1], acc)
    elif d[0] == "DDict":
        array_nodes(d[1], acc)
        array_nodes(d[2], acc)
    return acc


def mentions(d, names):
    if d[0] == "DList":
        return mentions(d[1], names)
    if d[0] == "DDict":
        return mentions(d[1], names) or mentions(d[2], names)
    if d[0] in names or (d[0] == "DCast" and d[1] in names):
        return True
    for x in d[1:]:
        if isinstance(x, list):
            for y in x:
                if isinstance(y, list) and y and isinstance(y[0], str) and y[0].startswith("D") and mentions(y, names):
                    return True
    return False


def subvalues(v):
    yield v
    if isinstance(v, dict):
        for a, b in v.items():
            yield from subvalues(a)
            yield from subvalues(b)
    if isinstance(v, (tuple, list)) and len(v) < 50:
        for x in v:
            yield from subvalues(x)


def outcome(pool, f):
    """canonical outcome of one validation call"""
    try:
        r = f()
    except TraitError:
        return ["Reject"]
    except TypeError:
        return ["Propagate", "ETypeError"]
    except ValueError:
        return ["Propagate", "EValueError"]
    except OverflowError:
        return ["Propagate", "EOverflowError"]
    except Exception:
        return ["Propagate", "EOtherError"]
    try:
        return ["Accept", pool.enc(r)]
    except Unencodable:
        return ["Accept", ["POther", 99]]


def oracles(pool, d, v):
    """the answers of str() / bytes() / re / adapt the model takes as data: [f, value, result] and [regex, string]"""
    orc, rem = [], []
    want_str = mentions(d, ("CTStr", "DString"))
    want_bytes = mentions(d, ("CTBytes",))
    if d[0] == "DTuple" and len(d) > 2 and d[2] == "Validated" and d[3] not in (None, "none") and isinstance(v, (tuple, list)):
        try:        # the converted tuple, through a plain Tuple of the same member traits on a scratch object
            holder = type("FvHolder", (HostBase,), {"t": Tuple(*[trait(x, pool) for x in d[1]])})()
            w = holder.trait("t").validate(holder, "t", tuple(v))
            w = tuple(w)
            orc.append([500 + (0 if d[3] == "true" else d[3]), pool.enc(w), ["PBool", bool(fv_fun(d[3])(w))]])
        except Exception:
            pass
    adapt_cls = sorted(adapt_classes(d))
    arr_nodes = array_nodes(d)
    rids = sorted(regex_ids(d))
    seen = []
    for x in subvalues(v):
        try:
            ex = pool.enc(x)
        except Unencodable:
            continue
        if ex in seen:
            continue
        seen.append(ex)
        if want_str and not isinstance(x, (str, np.ndarray)):
            try:
                s = ADDR.sub("0x0", str(x))
                orc.append([1, ex, ["PStr", [ord(c) for c in s]]])
            except Exception:
                pass
        if want_bytes and type(x) is not bytes and not isinstance(x, np.ndarray):
            try:
                b = bytes(x)
                if len(b) <= 64:
                    orc.append([2, ex, ["PBytes", list(b)]])
            except Exception:
                pass
        for dt, casting in arr_nodes:
            try:
                if isinstance(x, (list, tuple)):
                    r = np.asarray(x, DTYPES[dt]) if dt is not None else np.asarray(x)
                    ent = [299 if dt is None else 300 + dt, ex, pool.enc(r)]
                    if ent not in orc:
                        orc.append(ent)
                elif isinstance(x, np.ndarray) and dt is not None and x.dtype != DTYPES[dt]:
                    r = x.astype(DTYPES[dt], casting=CASTING[casting])
                    ent = [400 + 10 * dt + casting, ex, pool.enc(r)]
                    if ent not in orc:
                        orc.append(ent)
            except Exception:
                pass
        for c in adapt_cls:
            try:
                r = _adapt(x, pool.classes[c], None)
                if r is not None:
                    orc.append([100 + c, ex, pool.enc(r)])
            except Exception:
                pass
        if rids:
            s = x if isinstance(x, str) else (str(x) if isinstance(x, (int, float, complex)) else None)
            if s is not None:
                for r in rids:
                    if re.compile(REGEX[r]).match(s) is not None:
                        rem.append([r, [ord(c) for c in s]])
    return orc, rem
