"""C03 implementation driver: for each (trait description, value) runs the compiled path
(CTrait.validate), the Python path (handler.validate) and, for compounds, every declared
alternative alone, on the tree under test; prints canonical outcomes."""
import os
import sys

sys.path.insert(0, os.path.dirname(os.path.abspath(__file__)))
import dlib  # noqa: E402
import pvlib  # noqa: E402
from traits.api import HasTraits  # noqa: E402


def run_case(case):
    d, vj = case["d"], case["v"]
    pool0 = pvlib.Pool()
    body = {"x": pvlib.trait(d, pool0)}
    alts = d[1] if d[0] == "DCompound" else None
    if alts is not None:
        for i, a in enumerate(alts):
            body["a%d" % i] = pvlib.trait(a, pool0)
    host = type("Host", (pvlib.HostBase,), body)
    hostsub = type("HostSub", (host,), {})
    pool = pvlib.Pool(host, hostsub)
    obj = host()
    pool.register(obj, 110, 0)
    ct = obj.trait("x")
    h = ct.handler
    # Instance("Name") (forward-declared class): a first validation of an instance resolves the class and re-installs the
    # fast tables; every recorded call below is therefore a LATER call, made after the resolution
    for cls in sorted(name_classes(d)):
        for nm in ["x"] + (["a%d" % i for i in range(len(alts))] if alts is not None else []):
            try:
                obj.trait(nm).validate(obj, nm, pool.classes[cls]())
            except Exception:
                pass
    # a fresh value for every call: an implementation that mutates its argument must not disturb the other paths,
    # and the mutation itself is an observation
    out = {"venc": pool.enc(pool.val(vj)), "mut": []}

    def call(tag, f):
        v = pool.val(vj)
        r = pvlib.outcome(pool, lambda: f(v))
        try:
            if pool.enc(v) != out["venc"]:
                out["mut"].append(tag)
        except pvlib.Unencodable:
            out["mut"].append(tag)
        return r
    out["c"] = call("CTrait.validate", lambda v: ct.validate(obj, "x", v))
    pyv = getattr(h, "validate", None) if h is not None else None
    out["p"] = call("handler.validate", lambda v: pyv(obj, "x", v)) if pyv is not None else None
    if alts is not None:
        out["alts"] = []
        for i in range(len(alts)):
            cti = obj.trait("a%d" % i)
            out["alts"].append(call("alternative %d alone" % i, lambda v, cti=cti, i=i: cti.validate(obj, "a%d" % i, v)))
    else:
        out["alts"] = None
    v = pool.val(vj)
    # adapt='default' inside a compound: the compiled switch returns default_value_for(the COMPOUND's trait); the
    # model takes that value as data (field dflt of the DAdapt alternatives of the flattened compound)
    out["d"] = patch_adapt_default(d, pvlib.outcome(pool, lambda: ct.default_value()[1])) if alts is not None else d
    out["orc"], out["re"] = pvlib.oracles(pool, d, v)
    fv = getattr(h, "fast_validate", None) if h is not None else None
    out["fast"] = fv is not None
    return out


def name_classes(d, acc=None):
    acc = set() if acc is None else acc
    if d[0] == "DInstance" and len(d) > 4 and d[4] == "name":
        acc.add(d[1])
    elif d[0] in ("DTuple", "DCompound", "DUnion"):
        for a in d[1]:
            name_classes(a, acc)
    return acc


def patch_adapt_default(d, dflt_outcome):
    if dflt_outcome[0] != "Accept":
        return d

    def go(x):
        if x[0] == "DCompound":
            return ["DCompound", [go(a) for a in x[1]]]
        if x[0] == "DAdapt" and x[2] == 2:
            return x[:4] + [dflt_outcome[1]]
        return x
    return go(d)


def main():
    if "--env" in sys.argv:
        dlib.dump({"sub": pvlib.sub_pairs()})
        return
    cases = dlib.load()
    dlib.dump([run_case(c) for c in cases])


main()
