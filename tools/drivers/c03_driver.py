"""C03 implementation driver: for each (trait description, value) runs the compiled path
(CTrait.validate), the Python path (handler.validate) and, for compounds, every declared
alternative alone, on the tree under test; prints canonical outcomes."""
import copy
import os
import sys

sys.path.insert(0, os.path.dirname(os.path.abspath(__file__)))
import dlib  # noqa: E402
import pvlib  # noqa: E402
from traits.api import HasTraits  # noqa: E402


def run_case(case):
    d, vj = case["d"], case["v"]
    pool0 = pvlib.Pool()
    body = {"x": pvlib.trait(d, pool0)}
    alts = d[1] if d[0] == "DCompound" else None
    if alts is not None:
        for i, a in enumerate(alts):
            body["a%d" % i] = pvlib.trait(a, pool0)
    host = type("Host", (pvlib.HostBase,), body)
    pvlib.apply_later(pool0)
    hostsub = type("HostSub", (host,), {})
    pool = pvlib.Pool(host, hostsub)
    obj = host()
    pool.register(obj, 110, 0)
    ct = obj.trait("x")
    h = ct.handler
    # Instance("Name") (forward-declared class): a first validation of an instance resolves the class and re-installs the
    # fast tables; every recorded call below is therefore a LATER call, made after the resolution
    for cls in sorted(name_classes(d)):
        for nm in ["x"] + (["a%d" % i for i in range(len(alts))] if alts is not None else []):
            try:
                obj.trait(nm).validate(obj, nm, pool.classes[cls]())
            except Exception:
                pass
    # a fresh value for every call: an implementation that mutates its argument must not disturb the other paths,
    # and the mutation itself is an observation
    out = {"venc": pool.enc(pool.val(vj)), "mut": []}

    def call(tag, f):
        v = pool.val(vj)
        r = pvlib.outcome(pool, lambda: f(v))
        try:
            if pool.enc(v) != out["venc"]:
                out["mut"].append(tag)
        except pvlib.Unencodable:
            out["mut"].append(tag)
        return r
    out["c"] = call("CTrait.validate", lambda v: ct.validate(obj, "x", v))
    # the same trait after a __getstate__ / __setstate__ round trip (copy.deepcopy: member CTraits travel along)
    try:
        ct_restored = copy.deepcopy(ct)
        out["cr"] = call("restored CTrait.validate", lambda v: ct_restored.validate(obj, "x", v))
    except Exception:
        out["cr"] = None
    pyv = getattr(h, "validate", None) if h is not None else None
    out["p"] = call("handler.validate", lambda v: pyv(obj, "x", v)) if pyv is not None else None
    if alts is not None:
        out["alts"] = []
        for i in range(len(alts)):
            cti = obj.trait("a%d" % i)
            out["alts"].append(call("alternative %d alone" % i, lambda v, cti=cti, i=i: cti.validate(obj, "a%d" % i, v)))
    else:
        out["alts"] = None
    v = pool.val(vj)
    # adapt='default' inside a compound: the compiled switch returns default_value_for(the COMPOUND's trait); the
    # model takes that value as data (field dflt of the DAdapt alternatives of the flattened compound)
    out["d"] = patch_adapt_default(pool, obj, d, ct)
    out["orc"], out["re"] = pvlib.oracles(pool, d, v)
    fv = getattr(h, "fast_validate", None) if h is not None else None
    out["fast"] = fv is not None
    return out


def name_classes(d, acc=None):
    acc = set() if acc is None else acc
    if d[0] == "DInstance" and len(d) > 4 and d[4] == "name":
        acc.add(d[1])
    elif d[0] in ("DTuple", "DCompound", "DUnion"):
        for a in d[1]:
            name_classes(a, acc)
    return acc


def patch_adapt_default(pool, obj, d, ct):
    """adapt='default' inside a compound: the compiled switch returns default_value_for(the trait that OWNS the compound)
    — the top-level trait, a Tuple member trait, a Union alternative trait.  Walk description and trait structure in
    parallel and write that default into the DAdapt alternatives of every (flattened) compound."""
    def default_of(ctrait):
        r = pvlib.outcome(pool, lambda: ctrait.default_value_for(obj, "x"))
        return r[1] if r[0] == "Accept" else None

    def members(x, handler, dflt):
        # x: description of one alternative / member owned by `handler` (a TraitType / TraitCompound)
        if x[0] == "DCompound":
            hs = list(handler.handlers)
            return ["DCompound", [members(a, hs[i], dflt) for i, a in enumerate(x[1])]]
        if x[0] == "DAdapt" and x[2] == 2 and dflt is not None:
            return x[:4] + [dflt] + x[5:]
        if x[0] == "DTuple" and len(x) == 2 and x[1]:
            return ["DTuple", [boundary(a, handler.types[i]) for i, a in enumerate(x[1])]]
        if x[0] == "DUnion":
            return ["DUnion", [boundary(a, handler.list_ctrait_instances[i]) for i, a in enumerate(x[1])]]
        return x

    def boundary(x, ctrait):
        if x[0] == "DCompound":
            return members(x, ctrait.handler, default_of(ctrait))
        return members(x, ctrait.handler, None)
    try:
        return boundary(d, ct)
    except Exception:
        return d


def main():
    if "--env" in sys.argv:
        dlib.dump({"sub": pvlib.sub_pairs()})
        return
    cases = dlib.load()
    dlib.dump([run_case(c) for c in cases])


main()
