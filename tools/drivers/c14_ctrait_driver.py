"""C14 / C18 driver: trait definition objects (CTrait) of every kind, round-tripped through
__getstate__/__setstate__, pickle protocols 0-5, copy.deepcopy and CTrait.clone.  Run in a SUBPROCESS by the
harness; the progress file names the (spec, mode) being executed so that a crash is an observation.

Payload {"specs": [names] or null (= all), "positions": [5 tuple positions of the function indices],
         "progress": path}.
Output: list of {"spec", "mode", "idx", "idx2", "same", "diff"}.
"""
import copy
import logging
import os
import pickle
import re
import sys

sys.path.insert(0, os.path.dirname(os.path.abspath(__file__)))
import dlib  # noqa: E402

logging.disable(logging.CRITICAL)

from traits.api import (Regex, Any, BaseInt, Bool, Bytes, Button, CFloat, CInt, CStr, Callable, Complex, Constant,  # noqa
                        Date, DelegatesTo, Dict, Directory, Disallow, Either, Enum, Event, Expression, File, Float,
                        HasTraits, Instance, Int, List, Map, PrefixList, PrefixMap, Property, PrototypedFrom,
                        Python, Range, ReadOnly, Set, Str, String, This, Tuple, Type, Union, UUID, WeakRef,
                        TraitError, Delegate, self as self_trait)
from traits.trait_type import TraitType  # noqa: E402
from traits.ctrait import CTrait  # noqa: E402


class Leaf(HasTraits):
    v = Int(3)
    w = Str("w")
    p_q = Int(8)
    Holder_q = Int(9)


def fget0():
    return 7


def fget1(obj):
    return obj.__dict__.get("_pv", 1)


def fget2(obj, name):
    return obj.__dict__.get("_pv", 2)


def fget3(obj, name, trait):
    return obj.__dict__.get("_pv", 3)


def fset1(value):
    pass


def fset2(obj, value):
    obj.__dict__["_pv"] = value


def fset3(obj, name, value):
    obj.__dict__["_pv"] = value


def fval1(value):
    if isinstance(value, str):
        raise TraitError("no strings")
    return value


def fval2(obj, value):
    if isinstance(value, str):
        raise TraitError("no strings")
    return value


def fval3(obj, name, value):
    if value is None:
        raise TraitError("no None")
    return value


def mkleaf():
    return Leaf()


class PostType(TraitType):
    default_value = 1

    def validate(self, obj, name, value):
        if isinstance(value, str):
            self.error(obj, name, value)
        return value

    def post_setattr(self, obj, name, value):
        obj.__dict__["_post"] = value


SPECS = {
    "Int": lambda: Int(4), "Float": lambda: Float(1.5), "Str": lambda: Str("s"), "Bool": lambda: Bool(True),
    "Bytes": lambda: Bytes(b"b"), "Complex": lambda: Complex(1j), "CInt": lambda: CInt(2), "CFloat": lambda: CFloat(),
    "CStr": lambda: CStr(), "BaseInt": lambda: BaseInt(1),
    "RangeF": lambda: Range(0.0, 10.0), "RangeFx": lambda: Range(0.0, 10.0, exclude_low=True),
    "RangeI": lambda: Range(0, 10), "RangeDyn": lambda: Range(0, "v"),
    "Enum": lambda: Enum(1, 2, "a"), "Map": lambda: Map({"a": 1, "abc": 2}), "PrefixList": lambda: PrefixList(["abc", "xyz"]),
    "PrefixMap": lambda: PrefixMap({"abc": 1, "xyz": 2}), "String": lambda: String("ab", minlen=1, maxlen=4),
    "Tuple": lambda: Tuple(Int, Str), "TupleAny": lambda: Tuple(), "Instance": lambda: Instance(Leaf),
    "InstanceArgs": lambda: Instance(Leaf, ()), "InstanceFactory": lambda: Instance(Leaf, factory=mkleaf),
    "InstanceAdapt": lambda: Instance(Leaf, adapt="yes"), "InstanceStr": lambda: Instance("Leaf", module="__main__"),
    "Type": lambda: Type(Leaf), "This": lambda: This(), "self": lambda: self_trait, "WeakRef": lambda: WeakRef(Leaf),
    "Callable": lambda: Callable(), "CallableNN": lambda: Callable(len, allow_none=False),
    "List": lambda: List(Int, maxlen=4), "ListList": lambda: List(List(Int)), "Dict": lambda: Dict(Str, Int),
    "Set": lambda: Set(Int), "Either": lambda: Either(Int, Str, None), "EitherSlow": lambda: Either(String(maxlen=3), CInt),
    "Union": lambda: Union(Int, List(Int)), "Any": lambda: Any(5), "AnyList": lambda: Any(factory=list, args=([1, 2],)),
    "Event": lambda: Event(), "EventInt": lambda: Event(Int), "ReadOnly": lambda: ReadOnly(),
    "Constant": lambda: Constant(5), "Disallow": lambda: Disallow, "Python": lambda: Python(), "Button": lambda: Button(),
    "Date": lambda: Date(), "File": lambda: File(), "Directory": lambda: Directory(), "UUID": lambda: UUID(can_init=True),
    "Expression": lambda: Expression("1+1"), "PostType": lambda: PostType(), "PostTypeNoCmp": lambda: PostType(comparison_mode=0),
    "Transient": lambda: Int(transient=True), "CopyRef": lambda: List(Int, copy="ref"),
    "DelegatesTo": lambda: DelegatesTo("inst", "v"), "DelegatesToSame": lambda: DelegatesTo("inst"),
    "PrototypedFrom": lambda: PrototypedFrom("inst", "w"), "DelegatePrefix": lambda: Delegate("inst", "p_*"),
    "DelegateStar": lambda: Delegate("inst", "*"), "DelegateClass": lambda: Delegate("inst", "*", modify=True),
    "DelegateModify": lambda: Delegate("inst", "v", modify=True),
    "Property00": lambda: Property(fget=fget0, fset=fset1), "Property12": lambda: Property(fget=fget1, fset=fset2),
    "Property23": lambda: Property(fget=fget2, fset=fset3), "Property3": lambda: Property(fget=fget3),
    "PropertyRO": lambda: Property(fget=fget1), "PropertyWO": lambda: Property(fset=fset2),
    "PropertyInt": lambda: Property(fget=fget1, fset=fset2, trait=Int),
    "PropertyRange3": lambda: Property(fget=fget2, fset=fset3, trait=Range(0, 9)),
    "PropertyStr1": lambda: Property(fget=fget0, fset=fset1, trait=Str),
    "PropertyFval1": lambda: Property(fget=fget1, fset=fset2, fvalidate=fval1),
    "PropertyFval2": lambda: Property(fget=fget1, fset=fset2, fvalidate=fval2),
    "PropertyFval3": lambda: Property(fget=fget2, fset=fset3, fvalidate=fval3),
    "PropertyList": lambda: Property(fget=fget1, fset=fset2, trait=List(Int)),
    "PropertyDependsOn": lambda: Property(fget=fget1, depends_on="v"),
    "PropertyObserve": lambda: Property(fget=fget1, observe="v"),
    "Regex": lambda: Regex("ab", regex="^a"), "StringRegex": lambda: String("ab", regex="^a.*$"),
    "ListRegex": lambda: List(Regex("ab", regex="^a")), "RegexMinMax": lambda: String("ab", minlen=1, maxlen=3, regex="b$"),
    "MethodDefault": None, "Fresh0": None, "Fresh5": None, "Fresh8": None,
}

LATTICE = [0, 1, 4, 15, -1, 1.5, "a", "abc", "ab", None, True, (1, "x"), [1, 2], [1, "x"], {"a": 1}, {1}, b"x",
           2 ** 70, len, Leaf, "LEAF"]


class Holder(HasTraits):
    inst = Instance(Leaf, ())
    v = Int(6)


class MD(HasTraits):
    x = Int()

    def _x_default(self):
        return 11


def make(spec):
    if spec == "MethodDefault":
        return MD().trait("x")
    if spec.startswith("Fresh"):
        c = CTrait(int(spec[5:]))
        c.__dict__ = {}      # every trait the library hands out has a metadata dict (as_ctrait)
        return c
    d = SPECS[spec]()
    K = type("K", (HasTraits,), {"x": d})
    return K.__base_traits__["x"]


def canon(v):
    if isinstance(v, HasTraits):
        return "HasTraits:" + type(v).__name__
    if isinstance(v, (list, tuple)):
        return type(v).__name__ + ":" + ",".join(canon(x) for x in v)
    if isinstance(v, (set, frozenset)):
        return type(v).__name__ + ":" + ",".join(sorted(canon(x) for x in v))
    if isinstance(v, dict):
        return type(v).__name__ + ":" + ",".join(sorted(canon(k) + "=" + canon(x) for k, x in v.items()))
    if callable(v):
        return "callable:" + getattr(v, "__name__", "?")
    if type(v).__name__ in ("UUID", "code"):
        return type(v).__name__
    return type(v).__name__ + ":" + re.sub(r"0x[0-9a-fA-F]+", "0x", repr(v))


def attempt(f):
    try:
        return "ok:" + canon(f())
    except BaseException as e:
        return "exc:" + type(e).__name__


def behave(ct):
    """What the trait does: direct validation of the lattice, default value, and get/set/del on a holder."""
    out = []
    h = Holder()
    for v in LATTICE:
        v = Leaf() if v == "LEAF" else v
        out.append(attempt(lambda: ct.validate(h, "q", v)))
    out.append(attempt(lambda: ct.default_value()[0]))
    out.append(attempt(lambda: ct.default_value_for(h, "q")))
    out.append(attempt(lambda: (ct.type, ct.is_property, ct.is_mapped, ct.modify_delegate, ct.comparison_mode,
                                ct.setattr_original_value, ct.post_setattr_original_value, ct.default_kind)))
    out.append(attempt(lambda: sorted((k, canon(v)) for k, v in (ct.__dict__ or {}).items()
                                      if k not in ("_notifiers",))))
    h2 = Holder()
    try:
        h2.add_trait("q", ct)
    except BaseException as e:
        out.append("add_trait:" + type(e).__name__)
        return out
    out.append(attempt(lambda: h2.q))
    for v in LATTICE:
        v = Leaf() if v == "LEAF" else v
        out.append(attempt(lambda: setattr(h2, "q", v)))
        out.append(attempt(lambda: h2.q))
        out.append(attempt(lambda: sorted((k, canon(x)) for k, x in h2.__dict__.items())))
    out.append(attempt(lambda: delattr(h2, "q")))
    out.append(attempt(lambda: h2.q))
    out.append(attempt(lambda: h2.inst.v))
    return out


def state_refcounts_balanced(ct):
    """__setstate__ takes one reference to each object slot of the state and releases it when the restored
    trait dies: the reference counts of the state's objects are the same before and after."""
    import gc
    st = ct.__getstate__()
    objs = [x for x in st if not isinstance(x, (int, str, type(None))) and sys.getrefcount(x) < 2 ** 31]  # mortal
    gc.collect()
    before = [sys.getrefcount(x) for x in objs]
    c = CTrait(0)
    c.__setstate__(st)
    mid = [sys.getrefcount(x) for x in objs]
    c = None
    gc.collect()
    after = [sys.getrefcount(x) for x in objs]
    held = all(m >= b + 1 for b, m in zip(before, mid))
    return before == after and held


def restate_refcounts_balanced(ct):
    """__setstate__ on a trait that already holds its slots: before and after the trait holds exactly one
    reference to each object of its state, so their reference counts must not change."""
    import gc
    st = ct.__getstate__()
    objs = [x for x in st if not isinstance(x, (int, str, type(None))) and sys.getrefcount(x) < 2 ** 31]
    gc.collect()
    before = [sys.getrefcount(x) for x in objs]
    ct.__setstate__(st)
    gc.collect()
    after = [sys.getrefcount(x) for x in objs]
    return before == after


def copy_of(ct, mode):
    if mode == "state":
        c = CTrait(0)
        c.__setstate__(ct.__getstate__())
        return c
    if mode.startswith("pickle"):
        return pickle.loads(pickle.dumps(ct, protocol=int(mode[6:])))
    if mode == "deepcopy":
        return copy.deepcopy(ct)
    if mode == "clone":
        c = CTrait(0)
        c.clone(ct)
        c.__dict__ = (ct.__dict__ or {}).copy()
        return c
    raise ValueError(mode)


MODES = ["state", "pickle0", "pickle1", "pickle2", "pickle3", "pickle4", "pickle5", "deepcopy", "clone"]


def main():
    payload = dlib.load()
    pos = payload["positions"]
    prog = open(payload["progress"], "w")
    specs = payload.get("specs") or sorted(SPECS)
    modes = payload.get("modes") or MODES
    out = []
    for spec in specs:
        for mode in modes:
            prog.seek(0)
            prog.write("%s %s          \n" % (spec, mode))
            prog.flush()
            ct = make(spec)
            st = ct.__getstate__()
            idx = [st[p] for p in pos]
            if mode == "restate":
                ok = restate_refcounts_balanced(ct)
                st2 = ct.__getstate__()
                out.append(dict(spec=spec, mode=mode, idx=idx, idx2=[st2[p] for p in pos], same=True, diff="",
                                rc_ok=bool(ok)))
                continue
            try:
                c2 = copy_of(ct, mode)
            except (pickle.PicklingError, TypeError, AttributeError) as e:
                # not picklable by CPython's rules (e.g. a weakref or a local object inside): outside the property
                out.append(dict(spec=spec, mode=mode, idx=idx, idx2=idx, same=True, diff="", unpicklable=type(e).__name__))
                continue
            st2 = c2.__getstate__()
            idx2 = [st2[p] for p in pos]
            b1, b2 = behave(ct), behave(c2)
            rc_ok = state_refcounts_balanced(make(spec)) if mode == "state" else True
            diff = ""
            if b1 != b2:
                k = next((i for i, (x, y) in enumerate(zip(b1, b2)) if x != y), -1)
                diff = "probe %d: %s vs %s" % (k, b1[k] if k >= 0 else len(b1), b2[k] if k >= 0 else len(b2))
            out.append(dict(spec=spec, mode=mode, idx=idx, idx2=idx2, same=(b1 == b2), diff=diff, rc_ok=bool(rc_ok)))
    prog.seek(0)
    prog.write("done                         \n")
    prog.close()
    dlib.dump(out)


if __name__ == "__main__":
    main()
