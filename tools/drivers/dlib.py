"""Shared by the implementation drivers (run under the scratch build)."""
import json
import sys


def load():
    return json.load(sys.stdin)


def dump(obj):
    json.dump(obj, sys.stdout)
    sys.stdout.flush()


def exn_name(e, known):
    n = type(e).__name__
    for k in known:
        if n == k:
            return k
    for k in known:
        for c in type(e).__mro__:
            if c.__name__ == k:
                return k
    return "OtherError"
