"""C11 implementation driver: builds the classes of a configuration (DelegatesTo / PrototypedFrom traits in
the four prefix styles, chains of deferral), a pool of objects, runs the history (setattr / delattr on any
object and attribute, re-pointing of the delegate reference) and records per operation: the exception
class, the calls of recording handlers on every non-reference trait of every object (object, name, new),
getattr of every trait of every object, and which deferring names are in the instance __dict__."""
import logging
import os
import sys

sys.path.insert(0, os.path.dirname(os.path.abspath(__file__)))
import dlib  # noqa: E402

logging.disable(logging.CRITICAL)

from traits.api import (Any, DelegatesTo, HasTraits, Instance, Int, Property, PrototypedFrom, Range,  # noqa: E402
                        push_exception_handler)

push_exception_handler(handler=lambda *a: None, reraise_exceptions=True, main=True)

EXN = ["TraitError", "AttributeError", "DelegationError", "RecursionError", "KeyError"]
TOK = {0: "x", 1: "y", 2: "a", 3: "b", 4: "r", 5: "_items", 10: "p_", 11: "pre_", 12: "q_", 20: "parent", 21: "other", 22: "ref"}


BAD = "bad"
DEFAULTS = {}
NEXT = [None]


def nm(tokens):
    return "".join(TOK[t] for t in tokens)


def make_trait(spec, listenable=True):
    k = spec[0]
    if k == "Normal":
        kind, d = spec[1], spec[2]
        return {"KInt": Int, "KAny": Any}[kind](d) if kind != "KRange" else Range(0, 50, d)
    if k == "Link":
        return Instance(HasTraits)
    if k == "Deleg":
        d, rule, modify = nm(spec[1]), spec[2], spec[3]
        prefix = {"Same": lambda: "", "Explicit": lambda: nm(rule[1]), "Prefix": lambda: nm(rule[1]) + "*",
                  "Class": lambda: "*"}[rule[0]]()
        return (DelegatesTo if modify else PrototypedFrom)(d, prefix, listenable=listenable)
    raise ValueError(spec)


def _value_eq(self, other):
    # case["eq"]: value-style equality - two objects of one class whose stored plain values agree are equal (no
    # attribute access, so comparing has no side effect); identity hash
    if type(self) is not type(other):
        return False
    names = type(self)._plain_names
    return ({k: v for k, v in self.__dict__.items() if k in names}
            == {k: v for k, v in other.__dict__.items() if k in names})


def _set_parent(self, v):
    # the setter announces the change with the exact old value (an uncached Property with depends_on reports old =
    # Undefined, and then nothing can be unhooked from the previous delegate - inherent to computed references)
    old = self.parentstore
    self.parentstore = v
    if old is not v:
        self.trait_property_changed("parent", old, v)


def run_case(case):
    classes = []
    for i, c in enumerate(case["classes"]):
        unlisten = [list(u) for u in c.get("unlisten", [])]
        if "base" in c:       # real subclass: only the re-declared traits are in its namespace
            own = [list(u) for u in c.get("own", [])]
            ns = {nm(tn): make_trait(spec, listenable=list(tn) not in unlisten)
                  for tn, spec in c["traits"] if list(tn) in own}
            ns["__prefix__"] = nm(c["prefix"])
            if case.get("eq"):
                ns.update(_plain_names=frozenset(nm(tn) for tn, spec in c["traits"] if spec[0] == "Normal"),
                          __eq__=_value_eq, __hash__=object.__hash__)
            classes.append(type("K%d" % i, (classes[c["base"]],), ns))
            continue
        ns = {"__prefix__": nm(c["prefix"]), "_parent_default": lambda self: DEFAULTS.get(id(self), NEXT[0])}
        for tn, spec in c["traits"]:
            ns[nm(tn)] = make_trait(spec, listenable=list(tn) not in unlisten)
        if c.get("propref"):
            # the delegate reference `parent` is a PROPERTY (computed, never in the instance __dict__ under its own name)
            # over a private stored trait; validation (Instance) and the default initialiser move to the stored trait
            ns["parentstore"] = Instance(HasTraits)
            ns["_parentstore_default"] = ns.pop("_parent_default")
            ns["parent"] = Property(Instance(HasTraits))
            ns["_get_parent"] = lambda self: self.parentstore
            ns["_set_parent"] = _set_parent
        if case.get("eq"):
            ns.update(_plain_names=frozenset(nm(tn) for tn, spec in c["traits"] if spec[0] == "Normal"),
                      __eq__=_value_eq, __hash__=object.__hash__)
        classes.append(type("K%d" % i, (HasTraits,), ns))
    pool = []

    def to_py(v):
        if isinstance(v, dict):
            return pool[v["obj"]]
        if v == "bad":
            return BAD          # one object: whether equal-but-distinct values count as a change is C02's business
        return v

    def canon(v):
        if v is None or type(v) is int:
            return v
        if v == "bad" and type(v) is str:
            return "bad"
        for i, o in enumerate(pool):
            if v is o:
                return {"obj": i}
        return "other"

    for spec in case["objs"]:
        cls = classes[spec["cls"]]
        if spec.get("link_default") or spec.get("via_default"):
            # the delegate comes from the link attribute's default initialiser (link_default: nothing is read before the
            # first operation; via_default: a class whose delegate reference is itself a deferring attribute needs its
            # link while the listeners are being set up, before constructor keywords are applied)
            NEXT[0] = to_py(spec["dict"][0][1])     # the initialiser may already run inside the constructor
            o = cls(**({nm(tn): to_py(v) for tn, v in spec["dict"][1:]} if spec.get("via_default") else {}))
            DEFAULTS[id(o)] = NEXT[0]
            NEXT[0] = None
            pool.append(o)
        elif spec.get("ctor"):      # values (the delegate first, then local values) given as constructor keywords
            pool.append(cls(**{nm(tn): to_py(v) for tn, v in spec["dict"]}))
        else:
            o = cls()
            pool.append(o)
            for tn, v in spec["dict"]:
                setattr(o, nm(tn), to_py(v))
    events = []

    def recorder(i, tokmap):
        def rec(obj, name, old, new):
            events.append([i, tokmap.get(name, [99]), canon(new)])
        return rec

    names = []
    for i, (o, spec) in enumerate(zip(pool, case["objs"])):
        traits = case["classes"][spec["cls"]]["traits"]
        names.append([(nm(tn), sp[0]) for tn, sp in traits])
        r = recorder(i, {nm(tn): list(tn) for tn, sp in traits})
        for tn, sp in traits:
            if sp[0] != "Link":
                o.on_trait_change(r, nm(tn))
    out = []
    for op in [["Init"]] + case["ops"]:
        del events[:]
        res = "Done"
        try:
            if op[0] == "Init":
                pass
            elif op[0] == "Set":
                setattr(pool[op[1]], nm(op[2]), to_py(op[3]))
            elif op[0] == "Del":
                delattr(pool[op[1]], nm(op[2]))
            else:
                raise RuntimeError("unknown op %r" % (op,))
        except Exception as e:  # noqa: BLE001
            res = dlib.exn_name(e, EXN)
            e = None
        evs = sorted(([i, n, v] for i, n, v in events), key=repr)
        reads, local = [], []
        for o, ns, spec in zip(pool, names, case["objs"]):
            rr, ll = [], []
            for n, kind in ns:
                if op[0] == "Init" and spec.get("link_default") and kind != "Normal":
                    rr.append({"err": "OtherError"})      # not read: reading would run the default initialiser
                    ll.append(kind == "Deleg" and n in o.__dict__)
                    continue
                try:
                    rr.append({"v": canon(getattr(o, n))})
                except Exception as e:  # noqa: BLE001
                    rr.append({"err": dlib.exn_name(e, EXN)})
                    e = None
                ll.append(kind == "Deleg" and n in o.__dict__)
            reads.append(rr)
            local.append(ll)
        out.append(dict(out=res, events=evs, reads=reads, local=local))
    return out


def main():
    cases = dlib.load()
    dlib.dump([run_case(c) for c in cases])


if __name__ == "__main__":
    main()
