"""C08 implementation driver: executes observe() histories on a pool of interlinked
HasTraits objects of the tree under test and records canonical observations.

Atoms: pool objects are 0..npool-1; container objects (TraitListObject / TraitDictObject /
TraitSetObject) get the next free integer when they are created by an assignment or when a
default materialises -- the same numbering the model uses.  Fields: 0 value, 1 f, 2 g,
3 kids, 4 m, 5 s; 6/7/8 = the items of a list / dict (values) / set.

Per operation the driver records: exception class, the calls received by the recording
handlers (key (handler, target), event.object, event.name or items pseudo-field, old/removed,
new/added), a dump of every link of every pool object and every container ever created,
and for every observable the number of ObserverChangeNotifier entries and the reference
count of every TraitEventNotifier of its notifier list.  The caller delta-encodes the dumps.
"""
import logging
import os
import sys

sys.path.insert(0, os.path.dirname(os.path.abspath(__file__)))
import dlib  # noqa: E402

logging.disable(logging.CRITICAL)

from traits.api import Any, Dict, HasTraits, Instance, Int, List, Set, Str  # noqa: E402
from traits.constants import ComparisonMode  # noqa: E402
from traits.observation import expression as X  # noqa: E402
from traits.observation._filtered_trait_observer import FilteredTraitObserver  # noqa: E402
from traits.observation._observer_change_notifier import ObserverChangeNotifier  # noqa: E402
from traits.observation._trait_event_notifier import TraitEventNotifier  # noqa: E402
from traits.observation.events import (  # noqa: E402
    DictChangeEvent, ListChangeEvent, SetChangeEvent, TraitChangeEvent)
from traits.trait_dict_object import TraitDict  # noqa: E402
from traits.trait_list_object import TraitList  # noqa: E402
from traits.trait_set_object import TraitSet  # noqa: E402

EXN = ["NotifierNotFound", "ValueError"]
FN = {0: "value", 1: "f", 2: "g", 3: "kids", 4: "m", 5: "s", 10: "trait_added", 11: "trait_modified",
      12: "x1", 13: "x2",      # 12, 13: dynamic Instance traits added with add_trait
      14: "groups",            # a Dict(Str, List(Instance)): nested containers (dict object: pseudo-field 17)
      15: "kidsI",             # a List declared with comparison_mode=identity (list object: pseudo-field 18)
      16: "cdef"}              # an Instance link; on one object per case its default is a CONSTANT HasTraits object
NF = {v: k for k, v in FN.items()}
NF.update({"x1_items": 12, "x2_items": 13})


def match_fg(name, trait):
    return name in ("f", "g")


def match_vk(name, trait):
    return name in ("value", "kids")


LAZY = {}     # (id(object), trait name) -> the content its _name_default method returns (set by TouchItems)


class N(HasTraits):
    # mv, mf, mvf, mvg, mfg: metadata selecting the traits {value}, {f}, {value, f}, {value, g}, {f, g} (legacy names
    # '+mv' ...: "any trait having this metadata"); some of the values are False, which is not None
    value = Int(mv=False, mvf=False, mvg=False)
    f = Instance(HasTraits, tag=True, mf=False, mvf=True, mfg=False)
    g = Instance(HasTraits, tag=True, mvg=True, mfg=True)
    kids = List(Instance(HasTraits), tagc=True)
    m = Dict(Str, Instance(HasTraits))
    s = Set(Instance(HasTraits))
    groups = Dict(Str, List(Instance(HasTraits)))
    kidsI = List(Instance(HasTraits), comparison_mode=ComparisonMode.identity)
    cdef = Instance(HasTraits)

    # container defaults computed by _name_default methods: empty unless the case declares content
    def _kids_default(self):
        return list(LAZY.get((id(self), "kids"), []))

    def _m_default(self):
        return dict(LAZY.get((id(self), "m"), {}))

    def _s_default(self):
        return set(LAZY.get((id(self), "s"), ()))


class NFalsy(N):
    """Container-style pool objects: falsy while their kids list is empty (or not there yet)."""

    def __len__(self):
        return len(self.__dict__.get("kids") or ())


EQKEY = {}    # id(object) -> value key: objects of class NEq compare equal iff their keys are equal


class NEq(N):
    """Record-like pool objects with a value-based __eq__ (the key defaults to the identity)."""

    def __eq__(self, other):
        return isinstance(other, N) and EQKEY.get(id(self), id(self)) == EQKEY.get(id(other), id(other))

    def __ne__(self, other):
        return not self.__eq__(other)

    def __hash__(self):
        return hash(EQKEY.get(id(self), id(self)))


class NDict(N):
    """A holder whose `kids` link is a Dict (heterogeneous paths: the same link name, another container kind)."""
    kids = Dict(Str, Instance(HasTraits))

    def _kids_default(self):
        return {}


_CLASSES = {}


def pool_class(falsy, eqcls, dictkind):
    key = (bool(falsy), bool(eqcls), bool(dictkind))
    if key not in _CLASSES:
        bases = tuple(b for b, on in ((NDict, dictkind), (NFalsy, falsy), (NEq, eqcls)) if on) or (N,)
        _CLASSES[key] = bases[0] if len(bases) == 1 else type("P%d%d%d" % tuple(map(int, key)), bases, {})
    return _CLASSES[key]


def build_expr(g, hetero=False):
    """g = [field, notify, optional, [children]] -> ObserverExpression (public expression API).
    hetero: the items of a kids container are observed whatever its kind (list_items | dict_items, optional)."""
    f, notify, optional, children = g
    if f == "|":
        e = build_expr(children[0], hetero)
        for c in children[1:]:
            e = e | build_expr(c, hetero)
        return e
    if f == "anytrait":
        e = X.anytrait(notify=bool(notify))
    elif f == "tag":
        e = X.metadata("tag", notify=bool(notify))
    elif f == "tagc":
        e = X.metadata("tagc", notify=bool(notify))
    elif f == "match_fg":
        e = X.match(match_fg, notify=bool(notify))
    elif f == "match_vk":
        e = X.match(match_vk, notify=bool(notify))
    elif f == 17:
        e = X.dict_items(notify=bool(notify), optional=bool(optional))
    elif f == 18:
        e = X.list_items(notify=bool(notify), optional=bool(optional))
    elif f == 6 and hetero:
        e = X.list_items(notify=bool(notify), optional=True) | X.dict_items(notify=bool(notify), optional=True)
    elif f <= 5 or f >= 10:
        e = X.trait(FN[f], notify=bool(notify), optional=bool(optional))
    elif f in (6, 18):
        e = X.list_items(notify=bool(notify), optional=bool(optional))
    elif f == 7:
        e = X.dict_items(notify=bool(notify), optional=bool(optional))
    else:
        e = X.set_items(notify=bool(notify), optional=bool(optional))
    if children:
        sub = build_expr(children[0], hetero)
        for c in children[1:]:
            sub = sub | build_expr(c, hetero)
        e = e.then(sub)
    return e


class World:
    def __init__(self, npool, falsy=False, eqcls=False, dictkind=(), itemsname=False, cdef=None):
        LAZY.clear()             # keyed by id(): nothing of an earlier case may survive into this one
        EQKEY.clear()
        # itemsname: the dynamic traits are GENUINE traits whose names end in '_items' (add_trait('x2_items', ...));
        # only used with named observers (HasTraits.traits() leaves such instance traits out, so filters differ)
        FN[12], FN[13] = ("x1_items", "x2_items") if itemsname else ("x1", "x2")
        self.pool = [pool_class(falsy, eqcls, i in dictkind)() for i in range(npool)]
        self.extras = {}         # id -> HasTraits object that is not in the pool (a constant default, numbered when read)
        if cdef is not None:
            # cdef = [object, style]: that object's class has a CONSTANT default for the link `cdef`, itself an
            # observable object: `cdef = Any(D)` (style 0) or the inherited Instance default overridden by `cdef = D`
            o, style = cdef
            self.const = N()
            base = pool_class(falsy, eqcls, o in dictkind)
            cls = type("PConst", (base,), {"cdef": Any(self.const) if style == 0 else self.const})
            self.pool[o] = cls()
        self.order = {}          # cid -> keys in positional order, for a `kids` container that is a dict
        self.atom = {id(o): i for i, o in enumerate(self.pool)}
        self.conts = {}          # cid -> container object (kept alive)
        self.cfield = {}         # cid -> pseudo-field holding its items (6 list, 7 dict, 8 set, 17 dict of lists)
        self.pending_field = None
        self.next = npool
        self.pending = None      # id reserved for the container the running operation creates
        self.calls = []
        self.handlers = {}
        self.hkey = {}
        self.counter = 1000

    # ----- atoms ---------------------------------------------------------
    def oid(self, v, may_alloc=False):
        if v is None:
            return None
        a = self.atom.get(id(v))
        if a is not None:
            return a
        if may_alloc and self.pending is not None and (isinstance(v, (TraitList, TraitDict, TraitSet))
                                                       or v is getattr(self, "const", None)):
            a = self.pending
            self.register(v)
            return a
        return None

    def register(self, cont):
        if id(cont) in self.atom:
            return
        cid = self.pending
        self.pending = None
        self.atom[id(cont)] = cid
        if isinstance(cont, HasTraits):
            self.extras[cid] = cont
            return
        self.conts[cid] = cont
        self.cfield[cid] = self.pending_field

    def ids(self, vs, may_alloc=False):
        out = []
        for v in vs:
            a = self.oid(v, may_alloc)
            if a is not None:
                out.append(a)
        return out

    # ----- handlers ------------------------------------------------------
    def handler(self, k, r):
        key = (k, r)
        if key not in self.handlers:
            def h(event, key=key):
                self.calls.append(self.convert(key, event))
            self.handlers[key] = h
            self.hkey[id(h)] = key
        return self.handlers[key]

    def convert(self, key, ev):
        if isinstance(ev, TraitChangeEvent):
            return [key[0], key[1], self.oid(ev.object), NF.get(ev.name, 99),
                    self.ids([ev.old]), self.ids([ev.new], may_alloc=True)]
        if isinstance(ev, ListChangeEvent):
            return [key[0], key[1], self.oid(ev.object), self.cfield.get(self.oid(ev.object), 6),
                    self.ids(ev.removed), self.ids(ev.added)]
        if isinstance(ev, DictChangeEvent):
            # the payload objects must be the objects removed from / now stored in the dict: a value that is
            # not a known object (e.g. a raw list instead of the stored TraitList) is dropped here
            return [key[0], key[1], self.oid(ev.object), self.cfield.get(self.oid(ev.object), 7),
                    self.ids(ev.removed.values()), self.ids(ev.added.values(), may_alloc=True)]
        if isinstance(ev, SetChangeEvent):
            return [key[0], key[1], self.oid(ev.object), 8, sorted(self.ids(ev.removed)),
                    sorted(self.ids(ev.added))]
        return [key[0], key[1], None, 98, [], []]

    # ----- dumps ---------------------------------------------------------
    def heap(self):
        out = {}
        for i, o in list(enumerate(self.pool)) + sorted(self.extras.items()):
            for f in (1, 2):
                v = o.__dict__.get(FN[f])
                out["%d,%d" % (i, f)] = [] if v is None else self.ids([v])
            for f in (12, 13, 16):
                v = o.__dict__.get(FN[f])
                if v is not None:
                    out["%d,%d" % (i, f)] = self.ids([v])
            for f in (3, 4, 5, 14, 15):
                v = o.__dict__.get(FN[f])
                out["%d,%d" % (i, f)] = [] if v is None else self.ids([v])
        for cid, c in list(self.conts.items()):
            if isinstance(c, TraitList):
                out["%d,%d" % (cid, self.cfield[cid])] = self.ids(list(c))
            elif isinstance(c, TraitDict):
                out["%d,%d" % (cid, self.cfield[cid])] = self.ids(list(c.values()))
            else:
                out["%d,8" % cid] = sorted(self.ids(list(c)))
        return out

    def summarise(self, notifiers):
        nm, users = 0, []
        for n in notifiers or []:
            if isinstance(n, ObserverChangeNotifier):
                nm += 1           # on trait_added: the TraitAddedObserver maintainers (KAdded in the model)
            elif isinstance(n, TraitEventNotifier):
                key = self.hkey.get(id(n.handler()), (99, 99))
                users.append([key[0], key[1], n._ref_count])
        return nm, sorted(users)

    def hooks(self):
        out = {}
        for i, o in list(enumerate(self.pool)) + sorted(self.extras.items()):
            it = o._instance_traits()
            for f, name in FN.items():
                t = it.get(name)
                if t is None:
                    continue
                nm, users = self.summarise(t._notifiers(False))
                if nm or users:
                    out["%d,%d" % (i, f)] = [nm, users]
        for cid, c in self.conts.items():
            f = self.cfield[cid]
            nm, users = self.summarise(c._notifiers(True))
            if nm or users:
                out["%d,%d" % (cid, f)] = [nm, users]
        return out

    # ----- operations ----------------------------------------------------
    def obj(self, a):
        return self.pool[a] if a < len(self.pool) else self.extras[a]

    def run_op(self, op):
        k = op[0]
        if k == "Observe":
            _, hk, r, g = op
            self.pool[r].observe(self.handler(hk, r), build_expr(g))
        elif k == "Unobserve":
            _, hk, r, g = op
            self.pool[r].observe(self.handler(hk, r), build_expr(g), remove=True)
        elif k == "SetRef":
            o, f, v = op[1:4]
            if len(op) > 4 and op[4] == "del":      # del o.f: back to the default (None), with notification
                delattr(self.obj(o), FN[f])
            else:
                if len(op) > 4 and op[4] == "eq":   # the fresh object compares equal (by value) to the one it replaces
                    old = self.obj(o).__dict__.get(FN[f])
                    EQKEY[id(self.pool[v])] = EQKEY.get(id(old), id(old))
                setattr(self.obj(o), FN[f], None if v is None else self.pool[v])
        elif k == "SetCont":
            o, f, items = op[1:4]
            self.pending = self.next
            self.pending_field = f + 3
            self.next += 1
            try:
                if f == 3 and isinstance(self.pool[o], NDict):
                    keys = ["k%d" % (self.counter + j + 1) for j in range(len(items))]
                    self.counter += len(items)
                    val = {key: self.pool[a] for key, a in zip(keys, items)}
                    self.order[self.pending] = list(keys)
                elif f in (3, 15):
                    val = [self.pool[a] for a in items]
                elif f == 14:
                    val = {}
                elif f == 4:
                    val = {key: self.pool[a] for key, a in items}
                else:
                    val = {self.pool[a] for a in items}
                if len(op) > 5 and op[5] == "del":  # del o.kids: a new default (empty) container is assigned
                    delattr(self.pool[o], FN[f])
                    getattr(self.pool[o], FN[f])
                else:
                    setattr(self.pool[o], FN[f], val)
            finally:
                cur = self.pool[o].__dict__.get(FN[f])
                if self.pending is not None and cur is not None and id(cur) not in self.atom:
                    self.register(cur)
                self.pending = None
        elif k == "Touch":
            _, o, f = op
            if FN[f] in self.pool[o].__dict__:
                return
            self.pending = self.next
            self.pending_field = f + 3
            self.next += 1
            try:
                getattr(self.pool[o], FN[f])
            finally:
                cur = self.pool[o].__dict__.get(FN[f])
                if self.pending is not None and cur is not None and id(cur) not in self.atom:
                    self.register(cur)
                self.pending = None
        elif k == "TouchItems":     # first read of a container trait whose default has content
            o, f, items = op[1:4]
            if FN[f] in self.pool[o].__dict__:
                return
            if f == 3:
                LAZY[(id(self.pool[o]), "kids")] = [self.pool[a] for a in items]
            elif f == 4:
                LAZY[(id(self.pool[o]), "m")] = {key: self.pool[a] for key, a in items}
            else:
                LAZY[(id(self.pool[o]), "s")] = {self.pool[a] for a in items}
            self.pending = self.next
            self.pending_field = f + 3
            self.next += 1
            try:
                getattr(self.pool[o], FN[f])
            finally:
                LAZY.pop((id(self.pool[o]), FN[f]), None)
                cur = self.pool[o].__dict__.get(FN[f])
                if self.pending is not None and cur is not None and id(cur) not in self.atom:
                    self.register(cur)
                self.pending = None
        elif k == "CopNew":         # d[key] = [objects] on a dict of lists: the stored value is a new list object
            c, f, meth, args = op[1:5]
            cont = self.conts[c]
            self.pending = self.next
            self.pending_field = 6
            self.next += 1
            try:
                cont[args[0]] = [self.pool[a] for a in args[1]]
            finally:
                cur = cont.get(args[0])
                if self.pending is not None and cur is not None and id(cur) not in self.atom:
                    self.register(cur)
                self.pending = None
        elif k == "Cop":
            _, c, f, meth, args = op[:5]
            cont = self.conts[c]
            if f == 6 and isinstance(cont, TraitDict):
                # a `kids` link that is a dict on this holder: the same positional operations, on generated keys
                order = self.order.setdefault(c, list(cont))

                def newkey():
                    self.counter += 1
                    return "k%d" % self.counter
                if meth in ("append", "insert"):
                    i, v = (len(order), args[0]) if meth == "append" else (args[0], args[1])
                    key = newkey()
                    order.insert(i, key)
                    cont[key] = self.pool[v]
                elif meth == "extend":
                    for a in args[0]:
                        key = newkey()
                        order.append(key)
                        cont[key] = self.pool[a]
                elif meth in ("pop", "delitem"):
                    key = order.pop(args[0])
                    del cont[key]
                elif meth in ("setitem", "setitem_eq"):
                    cont[order[args[0]]] = self.pool[args[1]]
                elif meth == "remove":
                    i = next(j for j, key in enumerate(order) if cont[key] is self.pool[args[0]])
                    del cont[order.pop(i)]
                elif meth == "clear":
                    del order[:]
                    cont.clear()
                else:
                    raise ValueError(meth)
            elif f in (6, 18):
                if meth == "setitem_eq":
                    # the fresh object compares equal (by value) to the one it replaces
                    old = cont[args[0]]
                    EQKEY[id(self.pool[args[1]])] = EQKEY.get(id(old), id(old))
                    cont[args[0]] = self.pool[args[1]]
                elif meth == "append":
                    cont.append(self.pool[args[0]])
                elif meth == "insert":
                    cont.insert(args[0], self.pool[args[1]])
                elif meth == "pop":
                    cont.pop(args[0])
                elif meth == "setitem":
                    cont[args[0]] = self.pool[args[1]]
                elif meth == "delitem":
                    del cont[args[0]]
                elif meth == "clear":
                    cont.clear()
                elif meth == "extend":
                    cont.extend([self.pool[a] for a in args[0]])
                elif meth == "remove":
                    cont.remove(self.pool[args[0]])
                elif meth == "setslice":
                    cont[args[0]:args[1]] = [self.pool[a] for a in args[2]]
                elif meth == "delslice":
                    del cont[args[0]:args[1]]
                elif meth == "iadd":
                    cont += [self.pool[a] for a in args[0]]
                elif meth == "imul":
                    cont *= args[0]
                elif meth == "reverse":
                    cont.reverse()
                elif meth == "sort":
                    cont.sort(key=lambda o: self.atom[id(o)])
                else:
                    raise ValueError(meth)
            elif f in (7, 17):
                if meth == "setitem":
                    cont[args[0]] = self.pool[args[1]]
                elif meth == "delitem":
                    del cont[args[0]]
                elif meth == "pop":
                    cont.pop(args[0])
                elif meth == "clear":
                    cont.clear()
                elif meth == "setdefault":
                    cont.setdefault(args[0], self.pool[args[1]])
                elif meth == "update":
                    cont.update({args[0]: self.pool[args[1]]})
                elif meth == "update2":
                    cont.update({args[0]: self.pool[args[1]], args[2]: self.pool[args[3]]})
                else:
                    raise ValueError(meth)
            else:
                if meth == "symdiff":
                    other = {self.pool[a] for a in args[0]}
                    if args[1]:
                        cont ^= other
                    else:
                        cont.symmetric_difference_update(other)
                elif meth == "intersect2":
                    # intersection_update with SEVERAL iterables: members missing from any of them are removed
                    cont.intersection_update(*[{self.pool[a] for a in it} for it in args])
                elif meth == "add":
                    cont.add(self.pool[args[0]])
                elif meth == "discard":
                    cont.discard(self.pool[args[0]])
                elif meth == "remove":
                    cont.remove(self.pool[args[0]])
                elif meth == "clear":
                    cont.clear()
                else:
                    raise ValueError(meth)
        elif k == "AddTrait":
            if op[2] == 0:
                self.pool[op[1]].add_trait("value", Int())
            elif op[2] in (1, 2, 13):   # f, g and x2 carry the metadata the "tag" filter looks for
                self.pool[op[1]].add_trait(FN[op[2]], Instance(HasTraits, tag=True))
            else:
                self.pool[op[1]].add_trait(FN[op[2]], Instance(HasTraits))
        elif k == "Probe":
            self.counter += 1
            self.obj(op[1]).value = self.counter
        else:
            raise ValueError(k)


def run_case(case):
    w = World(case["npool"], bool(case.get("falsy")), bool(case.get("eqcls")), set(case.get("dictkind") or ()),
              bool(case.get("itemsname")), case.get("cdef"))
    hist = []
    prev_heap, prev_hooks = None, None
    for op in case["ops"]:
        del w.calls[:]
        out = "Ok"
        try:
            w.run_op(op)
        except Exception as e:  # noqa
            out = dlib.exn_name(e, EXN)
        heap, hooks = w.heap(), w.hooks()
        # a dump is sent only when it differs from the one after the previous operation (None = same)
        hist.append({"out": out, "calls": [list(c) for c in w.calls],
                     "heap": None if heap == prev_heap else heap,
                     "hooks": None if hooks == prev_hooks else hooks})
        prev_heap, prev_hooks = heap, hooks
    return hist


def main():
    cases = dlib.load()
    dlib.dump([run_case(c) for c in cases])


if __name__ == "__main__":
    main()
