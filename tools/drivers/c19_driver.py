"""C19 implementation driver: fault injection into every kind of user callback.

Two objects are driven side by side: A, on which the plan of each step is
injected, and its twin T, which skips a step whose injected deciding-callback
fault fired and executes every other step without fault.  After every step the
full snapshot of both, the outcome class and the handler call log are recorded.
"""
import logging
import os
import sys
import warnings

sys.path.insert(0, os.path.dirname(os.path.abspath(__file__)))
import dlib  # noqa: E402

logging.disable(logging.CRITICAL)
warnings.simplefilter("ignore")

from traits.api import (  # noqa: E402
    Any, Dict, Either, HasTraits, Instance, Int, Interface, List, Property, PrototypedFrom, Range, Set, Str, Supports,
    TraitError, TraitType, Union,
    Tuple,
    cached_property, provides, push_exception_handler, register_factory)
from traits.observation.api import match, trait  # noqa: E402

push_exception_handler(handler=lambda *a: None, reraise_exceptions=False, main=True)

EXN = ["TraitError", "ValueError", "AttributeError", "RuntimeError", "NotifierNotFound"]
EXC = {"TraitError": TraitError, "ValueError": ValueError, "AttributeError": AttributeError,
       "RuntimeError": RuntimeError}

# ---- fault plan -------------------------------------------------------------
PLAN = {"kind": None, "k": None, "exc": None, "n": 0, "fired": False}
CALLS = []          # the values V.validate was called with during the current operation, in order


def arm(plan):
    PLAN.update(kind=None, k=None, exc=None, n=0, fired=False)
    del CALLS[:]
    if plan:
        PLAN.update(kind=plan[0], k=plan[1], exc=EXC[plan[2]])


def tick_call():
    """Every deciding user callback calls this first."""
    n = PLAN["n"]
    PLAN["n"] = n + 1
    if PLAN["kind"] == "call" and n == PLAN["k"]:
        PLAN["fired"] = True
        raise PLAN["exc"]("injected")


def num(v):
    """Integer atom of a value appearing in a log entry or snapshot; anything unexpected (Undefined, ...) is -99."""
    if type(v) is int:
        return v
    if v is None:
        return -1
    return -99


def onum(v):
    return None if v is None else num(v)


def handler_body(obj, j, a, b):
    if PLAN["kind"] == "handler" and PLAN["k"] == j:
        PLAN["fired"] = True
        raise PLAN["exc"]("injected")
    obj._log.append([j, num(a), num(b)])


# ---- values -----------------------------------------------------------------
def val(a):
    return a if a < 100 else str(a - 100)


def atom(v):
    return v if type(v) is int else 100 + int(v)


class V(TraitType):
    def validate(self, obj, name, value):
        CALLS.append(atom(value))
        tick_call()
        if type(value) is int:
            return value
        self.error(obj, name, value)


def fac():
    tick_call()
    return 41


class IProto(Interface):
    pass


@provides(IProto)
class P(HasTraits):
    v = Int()


class Q(HasTraits):
    v = Int()


class R(HasTraits):
    v = Int()


class S(HasTraits):      # no adaptation path to IProto
    v = Int()


def r2q(r):
    tick_call()
    return Q(v=r.v + 1000)


def q2p(q):
    tick_call()
    return P(v=q.v + 1000)


register_factory(r2q, R, Q)
register_factory(q2p, Q, IProto)
SRC = [P, Q, R]


class VW(TraitType):
    """Validator of the sync partners: fault kind "handler 8" makes it raise (the sync handler contains it)."""

    def validate(self, obj, name, value):
        if PLAN["kind"] == "handler" and PLAN["k"] == 8 and obj.__dict__.get("_faulty"):
            PLAN["fired"] = True
            raise PLAN["exc"]("injected")
        if type(value) is int:
            return value
        self.error(obj, name, value)


class Part(HasTraits):
    w = VW(0)


class CmpBad(object):
    """A value whose comparison with the previous value raises while the change is being notified (handler plan 15)."""

    def _cmp(self, other):
        if PLAN["kind"] == "handler" and PLAN["k"] == 15:
            PLAN["fired"] = True
            raise PLAN["exc"]("cannot compare")
        return self is other

    def __eq__(self, other):
        return self._cmp(other)

    def __ne__(self, other):
        return not self._cmp(other)

    __hash__ = object.__hash__


class EqHolder(HasTraits):      # plain trait with all three handler kinds, holding CmpBad values (opaque op SetEq)
    e = Any()
    n_static = Int()
    n_dyn = Int()
    n_obs = Int()

    def _e_changed(self, new):
        self.trait_setq(n_static=self.n_static + 1)


class BadRepr(HasTraits):       # an object whose repr fails while one of its change handlers fails (opaque op SetBR)
    v = Int()
    calls = Int()

    def _v_changed(self, new):
        if PLAN["kind"] == "handler" and PLAN["k"] == 14:
            PLAN["fired"] = True
            self.__dict__["_repr_fails"] = True
            raise PLAN["exc"]("injected")

    def __repr__(self):
        if self.__dict__.pop("_repr_fails", False):
            raise AttributeError("repr while broken")
        return "<BadRepr>"


class DInner(HasTraits):
    value = Int()


class DChild(HasTraits):        # link object of the auxiliary parent (opaque op SwapDeep)
    inner = Instance(DInner)

    def _inner_default(self):
        # user code run by the re-hook of an extended-name listener, i.e. from a change handler of `child`
        if PLAN["kind"] == "handler" and PLAN["k"] == 11:
            PLAN["fired"] = True
            raise PLAN["exc"]("injected")
        return DInner()


class DParent(HasTraits):       # a second object: legacy listener with a three-link name, a static and a later handler
    child = Instance(DChild)
    static_calls = Int()

    def _child_changed(self):
        self.static_calls += 1


class Child(HasTraits):         # the intermediate link of the extended name 'child.value' (ops RegDot / UnregDot / ReadCh / SetCV)
    value = Int()


class ProtoD(HasTraits):        # the prototype object of the PrototypedFrom trait `pv` (opaque ops SetPV / SetDPV / DelPV)
    pv = V()


class A(HasTraits):
    x = V()
    t = Tuple(V(), V())
    l = List(V())   # noqa: E741
    d = Dict(V(), V())
    s = Set(V())
    f = Any(factory=fac)
    m = Any()
    p = Property(Int)
    _p = Int(3)
    c = Property(Int, observe="x")
    ad = Supports(IProto)
    y = V()
    ad2 = Instance(IProto, adapt="default")
    ade = Either(Supports(IProto), Instance(Q))   # adaptation as one alternative of a compound (opaque op SetAdE)
    w = Int(0)                                    # synchronised with two partner objects (opaque ops SetW / SetPW)
    deleg = Instance(ProtoD)
    pv = PrototypedFrom("deleg")                  # validated by the prototype's trait; a listener forwards its changes
    x2 = Int(0)                                   # dependency of the cached property c2 (opaque op SetX2)
    c2 = Property(Int, observe="x2")
    rlo = Int(0)
    rhi = Int(99)
    rgd = Int()                                   # default of the dynamic Range: a user default method (deciding)
    rg = Range(low="rlo", high="rhi", value="rgd")   # opaque op SetRG
    child = Instance(Child)                       # created by a user default method (a deciding callback)
    u = Union(V(), Str())                         # a custom validator as the first alternative of a Union (op SetU)
    q = Int(0)                                    # never assigned: first graph of the two-graph observer expression
    _log = Any()

    dp = Property(Int, depends_on="x")      # legacy cached property: outside the model, read into the aux digest

    @cached_property
    def _get_dp(self):
        if PLAN["kind"] == "handler" and PLAN["k"] == 7:
            PLAN["fired"] = True                # raises while the new value is computed for a notification
            raise PLAN["exc"]("injected")
        return 3 * self.x

    def _child_default(self):
        tick_call()
        return Child()

    def _rgd_default(self):
        tick_call()
        return 7

    @cached_property
    def _get_c2(self):
        if PLAN["kind"] == "handler" and PLAN["k"] == 13:
            PLAN["fired"] = True                # raises while the new value is computed for the listeners of c2
            raise PLAN["exc"]("injected")
        return 5 * self.x2 + 2

    def _y_default(self):
        tick_call()
        return 43

    def _y_changed(self, old, new):
        handler_body(self, 5, old, new)

    def _m_default(self):
        tick_call()
        return 42

    def _get_p(self):
        tick_call()
        return self._p

    def _set_p(self, v):
        tick_call()
        self._p = v

    @cached_property
    def _get_c(self):
        tick_call()
        return 2 * self.x + 1

    def _x_changed(self, old, new):
        handler_body(self, 0, old, new)

    def _l_items_changed(self, event):
        handler_body(self, 3, len(event.removed), len(event.added))


def make():
    a = A(_log=[])
    a.x = 1
    a.t = (1, 2)
    a.l = [1, 2]
    a.d = {1: 1}
    a.s = {1}
    a.ad = P(v=7)

    def dyn(obj, name, old, new):
        handler_body(a, 1, old, new)

    def obs_x(ev):
        handler_body(a, 2, ev.old, ev.new)

    def obs_l(ev):
        handler_body(a, 4, len(ev.removed), len(ev.added))

    def flt(name, trait):
        tick_call()                       # a user callback the library calls while it walks the object
        return name.startswith("zz")

    def obs_z(ev):
        handler_body(a, 6, int(ev.name[2:]), ev.new)

    def dyn_pv(obj, name, old, new):
        handler_body(a, 9, old, new)

    def dyn_cv(obj, name, old, new):
        handler_body(a, 10, old, new)

    a.on_trait_change(dyn, "x")
    a.deleg = ProtoD(pv=1)
    a.u = 1
    a.__dict__["_h10"] = dyn_cv
    a.c2                                               # read once: the cache is filled
    a.on_trait_change(lambda: None, "c2")              # a listener, so that a change of x2 recomputes c2 at once
    br = BadRepr()
    br.on_trait_change(lambda: br.trait_setq(calls=br.calls + 1), "v")    # a later handler: must still run
    a.__dict__["_badrepr"] = br
    eh = EqHolder(e=CmpBad())
    eh.on_trait_change(lambda: eh.trait_setq(n_dyn=eh.n_dyn + 1), "e")
    eh.observe(lambda ev: eh.trait_setq(n_obs=eh.n_obs + 1), "e")
    a.__dict__["_eqholder"] = eh
    dp_ = DParent(child=DChild())
    dp_.child.inner                                    # created, so that the registration itself runs no failing code
    dp_.__dict__["_later"] = []
    dp_.on_trait_change(lambda new: None, "child.inner.value")
    dp_.on_trait_change(lambda new: dp_.__dict__["_later"].append(1), "child")
    a.__dict__["_dparent"] = dp_
    a.on_trait_change(dyn_pv, "pv")
    a.observe(obs_x, "x")
    a.observe(obs_l, "l:items")
    pb, pc = Part(), Part()
    pb.__dict__["_faulty"] = True                # only the first partner's validator is made to fail
    a.__dict__["_parts"] = (pb, pc)
    a.sync_trait("w", pb, mutual=True)
    a.sync_trait("w", pc, mutual=True)
    def dp_listener(new):
        # a listener, so that a change of x recomputes dp for the notification.  It must only ever be told a value the
        # getter computed: when the getter raises (handler plan 7) the notification does not take place at all
        if type(new) is not int:
            a.__dict__["_dp_bogus"] = a.__dict__.get("_dp_bogus", 0) + 1

    a.on_trait_change(dp_listener, "dp")
    # the observer expression of ObsAdd / ObsRemove has two parallel graphs: a named trait first (its registration
    # succeeds or is removed before the user filter of the second graph is called, so a raising filter leaves
    # something to undo in apply_observers), then the filtered one
    a.__dict__["_vf"] = (obs_z, trait("q") | match(flt))
    a.__dict__["_vz"] = 0
    a.observe(obs_z, a.__dict__["_vf"][1])
    del a._log[:]
    return a


def _is_filter_graph(g):
    """The maintainer graph of the filtered observer (not the one of the named trait `q`)."""
    while g is not None:
        if type(g.node).__name__ == "FilteredTraitObserver":
            return True
        g = g.children[0] if g.children else None
    return False


def obs_count(a):
    """How many times the filter observer is registered: each registration puts one maintainer for its graph on
    the object's `trait_added` trait."""
    h = a.__dict__["_vf"][0]
    cnt = 0
    for n in a._trait("trait_added", 2)._notifiers(False) or []:
        if getattr(n, "graph", None) is not None:
            hh = n.handler() if callable(n.handler) else n.handler
            if hh is h and _is_filter_graph(n.graph):
                cnt += 1
    return cnt


def snap(a):
    dd = a.__dict__
    return {"x": num(dd["x"]), "t": [num(v) for v in dd["t"]], "l": [num(v) for v in a.l],
            "d": sorted([num(k), num(v)] for k, v in a.d.items()),
            "s": sorted(num(v) for v in a.s), "f": onum(dd.get("f")), "m": onum(dd.get("m")), "p": num(a._p),
            "c": onum(dd.get("_traits_cache_c")), "ad": a.ad.v, "y": onum(dd.get("y")),
            "ad2": -1 if a.ad2 is None else a.ad2.v,
            "oreg": obs_count(a), "zz": [num(dd.get("zz%d" % i, 0)) for i in range(dd["_vz"])],
            "ade": -5 if a.ade is None else num(getattr(a.ade, "v", -7)),
            "pv": onum(dd.get("pv")), "dpv": num(a.deleg.__dict__.get("pv", -3)),
            "ch": None if "child" not in dd else num(dd["child"].value),
            "chreg": bool((dd.get("__traits_listener__") or {}).get("child.value")),
            "u": atom(a.u) if type(a.u) in (int, str) else -99}


def reg(a):
    """Digest of the sizes of every notifier list of the object (handler registrations)."""
    sizes = [len(a._trait("x", 2)._notifiers(False) or []), len(a._notifiers(False) or []), len(a.l.notifiers),
             len(a.d.notifiers), len(a.s.notifiers), len(a._trait("l", 2)._notifiers(False) or []),
             len(a._trait("l_items", 2)._notifiers(False) or []), len(a._trait("c", 2)._notifiers(False) or []),
             len(a._trait("trait_added", 2)._notifiers(False) or []),
             len(a._trait("q", 2)._notifiers(False) or []),
             len(a._trait("pv", 2)._notifiers(False) or []),
             len(a.deleg._trait("pv", 2)._notifiers(False) or []),
             len(a._trait("child", 2)._notifiers(False) or []),
             len(a.__dict__["child"]._trait("value", 2)._notifiers(False) or []) if "child" in a.__dict__ else 0,
             len(a.__dict__.get("__traits_listener__") or {})]
    for i in range(a.__dict__["_vz"]):
        sizes.append(len(a._trait("zz%d" % i, 2)._notifiers(False) or []))
    h = 0
    for n in sizes:
        h = (h * 16 + min(n, 15)) % (2 ** 55)
    return h


def aux(a):
    """Digest of values read from attributes outside the model: the depends_on property and the zz traits."""
    vals = [num(a.dp)] + [num(a.__dict__.get("zz%d" % i, 0)) for i in range(a.__dict__["_vz"])]
    vals += [num(a.w), num(a.__dict__["_parts"][1].w)]        # not the first partner: its own validator may have refused
    vals.append(-5 if a.ade is None else num(getattr(a.ade, "v", -7)))
    vals += [num(a.pv), num(a.deleg.pv), num(a.__dict__.get("pv", -3)), a.__dict__.get("_dp_bogus", 0)]
    try:
        vals.append(num(a.c2))                # never a value cached before the last change of x2
    except Exception:                         # noqa
        vals.append(-77)
    try:
        vals.append(num(a.rg))                # the dynamic Range reads as its default until an assignment succeeded
    except Exception:                         # noqa
        vals.append(-78)
    vals += [a.__dict__["_badrepr"].v, a.__dict__["_badrepr"].calls]
    eh = a.__dict__["_eqholder"]
    vals += [eh.n_static, eh.n_dyn, eh.n_obs]             # every handler of the holder ran for every assignment
    dp_ = a.__dict__["_dparent"]
    vals += [dp_.static_calls, len(dp_.__dict__["_later"])]      # the other handlers of the auxiliary parent all ran
    h = 0
    for v in vals:
        h = (h * 1000003 + v + 7) % (2 ** 55)
    return h


def execute(a, op, echo):
    k = op[0]
    if k == "SetX":
        a.x = val(op[1])
    elif k == "SetT":
        a.t = (val(op[1]), val(op[2]))
    elif k == "LAssign":
        a.l = [val(v) for v in op[1]]
    elif k == "LAppend":
        a.l.append(val(op[1]))
    elif k == "LExtend":
        a.l.extend([val(v) for v in op[1]])
    elif k == "LIadd":
        lst = a.l
        lst += [val(v) for v in op[1]]      # list.__iadd__ alone (an attribute-level `a.l += ...` is two operations)
    elif k == "LInsert":
        a.l.insert(op[1], val(op[2]))
    elif k == "LSetSlice":
        a.l[op[1]:op[2]] = [val(v) for v in op[3]]
    elif k == "DAssign":
        a.d = {val(kk): val(vv) for kk, vv in op[1]}
    elif k == "DSetItem":
        a.d[val(op[1])] = val(op[2])
    elif k == "DUpdate":
        a.d.update([(val(kk), val(vv)) for kk, vv in op[1]])
    elif k == "DSetDefault":
        a.d.setdefault(val(op[1]), val(op[2]))
    elif k == "SAssign":
        a.s = set(val(v) for v in op[1])
    elif k == "SAdd":
        a.s.add(val(op[1]))
    elif k == "SUpdate":
        a.s.update([val(v) for v in op[1]])
    elif k == "ReadF":
        a.f
    elif k == "ReadM":
        a.m
    elif k == "ReadP":
        a.p
    elif k == "SetP":
        a.p = op[1]
    elif k == "ReadC":
        a.c
    elif k == "SetAd":
        a.ad = SRC[op[1]](v=op[2])
    elif k == "SIxor":
        st = a.s
        st ^= set(val(v) for v in op[1])
    elif k == "SSymDiff":
        a.s.symmetric_difference_update([val(v) for v in op[1]])
    elif k == "SetY":
        a.y = val(op[1])
    elif k == "ReadY":
        a.y
    elif k == "SetAd2":
        a.ad2 = (S if op[1] is None else SRC[op[1]])(v=op[2])
    elif k == "SUpdate2":
        a.s.update([val(v) for v in op[1]], [val(v) for v in op[2]])
    elif k == "SetAdE":
        a.ade = SRC[op[1]](v=op[2])
    elif k == "SetW":
        a.w = op[1]
    elif k == "SetX2":
        a.x2 = op[1]
    elif k == "SetRG":
        a.rg = op[1]
    elif k == "SetEq":
        a.__dict__["_eqholder"].e = CmpBad()
    elif k == "SetBR":
        # default exception handling for this one operation: the library's own logging of a failing handler runs
        br = a.__dict__["_badrepr"]
        push_exception_handler(main=True)      # handler=None: the default one
        try:
            br.v = op[1]
        finally:
            from traits.api import pop_exception_handler
            pop_exception_handler()
            br.__dict__.pop("_repr_fails", None)
    elif k == "SwapDeep":
        a.__dict__["_dparent"].child = DChild()
    elif k == "SetPW":
        a.__dict__["_parts"][1].w = op[2]      # always on the second partner: the first one's validator is the faulty one
    elif k == "SetPV":
        a.pv = val(op[1])
    elif k == "SetDPV":
        a.deleg.pv = val(op[1])
    elif k == "DelPV":
        del a.pv
    elif k == "RegDot":
        a.on_trait_change(a.__dict__["_h10"], "child.value")
    elif k == "UnregDot":
        a.on_trait_change(a.__dict__["_h10"], "child.value", remove=True)
    elif k == "ReadCh":
        a.child
    elif k == "SetCV":
        a.child.value = op[1]
    elif k == "SetU":
        a.u = val(op[1])
    elif k == "SetXQ":
        a.trait_setq(x=val(op[1]))
    elif k == "ObsRemove":
        h, g = a.__dict__["_vf"]
        a.observe(h, g, remove=True)
    elif k == "ObsAdd":
        h, g = a.__dict__["_vf"]
        a.observe(h, g)
    elif k == "AddZ":
        n = a.__dict__["_vz"]
        a.add_trait("zz%d" % n, Int())
        a.__dict__["_vz"] = n + 1
    elif k == "SetZ":
        n = a.__dict__["_vz"]
        if n:
            setattr(a, "zz%d" % ((op[1] or 0) % n), op[2])
    else:
        raise ValueError(k)


def run_one(obj, op, plan):
    del obj._log[:]
    echo = []
    arm(plan)
    out = "Ok"
    try:
        execute(obj, op, echo)
    except Exception as e:  # noqa
        out = dlib.exn_name(e, EXN)
    fired = PLAN["fired"]
    echo = list(CALLS)      # the order in which the validator actually saw the values (set iteration order)
    arm(None)
    return {"out": out, "st": snap(obj), "log": sorted(obj._log), "reg": reg(obj), "aux": aux(obj)}, fired, echo


def filter_constants():
    """(c, k): one registration walk calls the user filter c + k * (number of zz traits) times."""
    counts = []
    for nz in (0, 1):
        o = make()
        for _ in range(nz):
            execute(o, ["AddZ"], [])
        arm(None)
        execute(o, ["ObsAdd"], [])
        counts.append(PLAN["n"])
        arm(None)
    return counts[0], counts[1] - counts[0]


FC = None


def run_case(case):
    global FC
    if FC is None:
        FC = filter_constants()
    a, tw = make(), make()
    res = {"init": snap(a), "reg0": reg(a), "fc": list(FC), "steps": []}
    for op, plan in case["ops"]:
        oa, fired, echo = run_one(a, op, plan)
        if plan and plan[0] == "call" and fired:
            ot = {"out": "Ok", "st": snap(tw), "log": [], "reg": reg(tw), "aux": aux(tw)}   # the twin never sees it
        else:
            ot, _, _ = run_one(tw, op, None)
        res["steps"].append({"fired": fired, "A": oa, "T": ot, "echo": echo})
    return res


def main():
    cases = dlib.load()
    dlib.dump([run_case(c) for c in cases])


main()
