"""C09 implementation driver: executes registration histories on the observe machinery of the tree
under test (HasTraits.observe / observation.observe.apply_observers) and records, after every step,
the outcome class, the handler calls and a canonical snapshot of EVERY notifier list of every pool
object (instance traits incl. trait_added, the object's own list, the TraitList/Dict/Set notifiers):
handler identity, target, dispatcher, reference count, maintainer kind and graph."""
import asyncio
import copy
import gc
import inspect
import json
import logging
import os
import sys
import weakref

sys.path.insert(0, os.path.dirname(os.path.abspath(__file__)))
import dlib  # noqa: E402

logging.disable(logging.CRITICAL)

from traits.api import (  # noqa: E402
    Any, Dict, HasTraits, Instance, Int, List, Property, Set, Str, cached_property, observe)
from traits.has_traits import _compile_expression  # noqa: E402
from traits.observation import observe as observe_api  # noqa: E402
from traits.observation import _has_traits_helpers as hth  # noqa: E402
from traits.observation import _list_item_observer as lio  # noqa: E402
from traits.observation import _dict_item_observer as dio  # noqa: E402
from traits.observation import _set_item_observer as sio  # noqa: E402
from traits.observation._named_trait_observer import NamedTraitObserver  # noqa: E402
from traits.observation._list_item_observer import ListItemObserver  # noqa: E402
from traits.observation._dict_item_observer import DictItemObserver  # noqa: E402
from traits.observation._set_item_observer import SetItemObserver  # noqa: E402
from traits.observation._trait_added_observer import TraitAddedObserver  # noqa: E402
from traits.observation._observer_graph import ObserverGraph  # noqa: E402
from traits.observation._trait_event_notifier import TraitEventNotifier  # noqa: E402
from traits.observation._observer_change_notifier import ObserverChangeNotifier  # noqa: E402

EXN = ["ValueError", "NotifierNotFound", "RuntimeError", "IndexError", "KeyError"]

# field numbering shared with tools/props/c09.py and coq/C09/Model.v (F_ITEMS = 0, F_TA = 1)
FNUM = {"value": 2, "f": 3, "g": 4, "kids": 5, "m": 6, "s": 7, "w": 8, "nonexist": 9, "value2": 10,
        "items": 11, "trait_added": 1, "extra": 13, "cp": 14}
FNAME = {v: k for k, v in FNUM.items()}
F_OBJ = 12
CONT = {"kids": 5, "m": 6, "s": 7}


class N(HasTraits):
    value = Int()
    value2 = Int()
    f = Instance(HasTraits)
    g = Instance(HasTraits)
    kids = List(Instance(HasTraits))
    m = Dict(Str, Instance(HasTraits))
    s = Set(Instance(HasTraits))
    w = Any()
    # a cached property whose value is an observable object: the walk must NOT look into the cache slot (the cache is
    # filled and emptied without any change event); for the walk `cp` is a trait without a value in __dict__
    cp = Property(Instance(HasTraits))

    @cached_property
    def _get_cp(self):
        return self.f

    # the decorator path: registered when the object is created, handler = bound method of the object itself
    # (appears as a foreign element in the snapshots; must not keep the object alive either)
    @observe("value2")
    def _decorated(self, event):
        pass

    # a class-level trait_added handler that gives the trait `extra` its value as soon as it is added: it is
    # registered at construction, so it runs BEFORE the trait_added maintainers of later registrations
    @observe("trait_added")
    def _populate(self, event):
        if event.new == "extra" and getattr(self, "_pending", None) is not None:
            self.extra = self._pending


class E(N):
    """value semantics for ==: two distinct E objects with the same tag compare equal (and hash alike);
    registrations made through them must nevertheless stay independent (the target is compared by identity)"""
    tag = Int()

    def __eq__(self, other):
        return isinstance(other, E) and self.tag == other.tag

    def __hash__(self):
        return hash(("E", self.tag))


class P(HasTraits):
    value2 = Int()
    f = Instance(HasTraits)
    kids = List(Instance(HasTraits))
    w = Any()


CALLS = [None]      # the call log of the case being run
HID_OF = {}         # id(object) -> handler number of its class-level (decorated) observer


def _mk_decl(expr):
    """a class whose ONLY class-level registration is @observe(expr) (post_init=False): it is made by
    _init_trait_observers, i.e. by __init__ and by __setstate__ (unpickling, copy.copy)"""
    class D(HasTraits):
        value = Int()
        f = Instance(HasTraits)
        kids = List(Instance(HasTraits))

        @observe(expr)
        def _nested(self, event):
            h = HID_OF.get(id(self))
            if h is not None:
                CALLS[0].append(h)
    return D


DECL = {"D1": "f:value", "D2": "f.value", "D3": "kids.items.value"}
CLASSES = {"N": N, "P": P, "E": E}
TRAITS = {"N": ["value", "value2", "f", "g", "kids", "m", "s", "w", "cp"], "P": ["value2", "f", "kids", "w"]}
TRAITS["E"] = TRAITS["N"]
for _c, _e in DECL.items():
    CLASSES[_c] = _mk_decl(_e)
    TRAITS[_c] = ["value", "f", "kids"]


def disp1(handler, event):
    # a custom dispatcher; a coroutine-function handler (`async def`) is run to completion synchronously
    r = handler(event)
    if inspect.iscoroutine(r):
        try:
            r.send(None)
        except StopIteration:
            pass


from traits.trait_notifiers import ui_dispatch  # noqa: E402

DISPATCHERS = [observe_api.dispatch_same, disp1, ui_dispatch]      # 0 'same', 1 custom, 2 'ui' (main thread)


class Owner:
    def __init__(self, i, calls):
        self.i = i
        self.calls = calls

    def meth(self, event):
        self.calls.append(self.i)


class AOwner:
    """the handler is a bound coroutine function (dispatch_same supports them; here run by disp1)"""
    def __init__(self, i, calls):
        self.i = i
        self.calls = calls

    async def meth(self, event):
        self.calls.append(self.i)


LOOP = asyncio.new_event_loop()


def build_graph(t):
    kind, a, notify, optional, children = t
    if kind == "N":
        node = NamedTraitObserver(name=FNAME[a], notify=bool(notify), optional=bool(optional))
    else:
        cls = {"list": ListItemObserver, "dict": DictItemObserver, "set": SetItemObserver}[a]
        node = cls(notify=bool(notify), optional=bool(optional))
    return ObserverGraph(node=node, children=[build_graph(c) for c in children])


def graph_json(g):
    n = g.node
    ch = [graph_json(c) for c in g.children]
    if type(n) is NamedTraitObserver:
        if n.name not in FNUM:
            return ["?", 0, 0, 0, []]
        return ["N", FNUM[n.name], int(bool(n.notify)), int(bool(n.optional)), ch]
    for cls, nm in ((ListItemObserver, "list"), (DictItemObserver, "dict"), (SetItemObserver, "set")):
        if type(n) is cls:
            return ["I", nm, int(bool(n.notify)), int(bool(n.optional)), ch]
    return ["?", 0, 0, 0, []]


def run_case(case):
    calls = []
    CALLS[0] = calls
    HID_OF.clear()
    # an object with "copy_of" does not exist yet: it is made by a Copy step (copy.copy of that object)
    pool = [None if "copy_of" in o else CLASSES[o["cls"]]() for o in case["objs"]]
    plain = {}      # oid -> plain (non-HasTraits) value
    conts = {}      # oid -> TraitList / TraitDict / TraitSet
    for i, (o, d) in enumerate(zip(pool, case["objs"])):
        if o is None:
            continue
        names = TRAITS[d["cls"]]
        if "value" in names:
            o.value = 0
        if "value2" in names:
            o.value2 = 0
        for nm in ("f", "g"):
            if nm in names and d.get(nm) is not None:
                setattr(o, nm, pool[d[nm]])
        o.kids = [pool[j] for j in d.get("kids", [])]
        conts[5 + 3 * i] = o.kids
        if "m" in names:
            o.m = {"k%d" % n: pool[j] for n, j in enumerate(d.get("m", []))}
            conts[5 + 3 * i + 1] = o.m
            o.s = set(pool[j] for j in d.get("s", []))
            conts[5 + 3 * i + 2] = o.s
        if d.get("w") == "plain":
            o.w = plain[20 + i] = object()
        elif d.get("w") == "pylist":
            o.w = plain[20 + i] = [1, 2]
    idx_of = {id(o): i for i, o in enumerate(pool) if o is not None}
    heap_items = {}
    for oid, c in conts.items():
        vals = list(c.values()) if isinstance(c, dict) else list(c)
        heap_items[str(oid)] = [idx_of[id(v)] for v in vals]
    for i, d in enumerate(case["objs"]):
        if "copy_of" in d:
            heap_items[str(5 + 3 * i)] = list(heap_items[str(5 + 3 * d["copy_of"])])

    owners, handlers = [], []
    for i, hk in enumerate(case["handlers"]):
        if hk == "decl":
            # the class-level observer of an object made by a Copy step (a bound method of that object)
            owners.append(None)
            handlers.append(None)
        elif hk in ("meth", "ameth"):
            ow = (Owner if hk == "meth" else AOwner)(i, calls)
            owners.append(ow)
            handlers.append(ow.meth)
        elif hk == "rfunc":
            # a handler that raises: the notifier must contain it (no change may raise)
            def fh(event, _i=i):
                calls.append(_i)
                raise ValueError("handler %d raises" % _i)
            owners.append(None)
            handlers.append(fh)
        else:
            def fh(event, _i=i):
                calls.append(_i)
            owners.append(None)
            handlers.append(fh)

    o = d = c = vals = ow = fh = None
    memo = {}   # id(notifier) -> (notifier, canonical head) so that dead weakrefs stay identifiable

    def canon(n):
        if type(n) is TraitEventNotifier or type(n) is ObserverChangeNotifier:
            m = memo.get(id(n))
            if m is None or m[0] is not n:
                hnd = n.handler()
                hid = next((i for i, x in enumerate(handlers) if x is not None and x == hnd), -1)
                tgt = n.target()
                tid = idx_of.get(id(tgt), -1) if tgt is not None else -1
                dsp = next((i for i, x in enumerate(DISPATCHERS) if x == n.dispatcher), -1)
                m = (n, (hid, tid, dsp))
                if hid >= 0 and tid >= 0:
                    memo[id(n)] = m
            hid, tid, dsp = m[1]
            if type(n) is TraitEventNotifier:
                return ["U", hid, tid, dsp, n._ref_count]
            oh = n.observer_handler
            if oh is hth.observer_change_handler:
                mk = "N"
            elif oh is lio._observer_change_handler:
                mk = "L"
            elif oh is dio._observer_change_handler:
                mk = "D"
            elif oh is sio._observer_change_handler:
                mk = "S"
            elif oh is TraitAddedObserver.observer_change_handler:
                mk = "T"
            else:
                mk = "?"
            return ["M", mk, graph_json(n.graph), hid, tid, dsp]
        return ["F", 0]

    dead_objs = set()

    pending = set(i for i, d in enumerate(case["objs"]) if "copy_of" in d)

    def snapshot():
        out = []
        for i in sorted(pending):
            # an object a Copy step will make: what every object of these classes carries from its creation on (the
            # static trait_added handler, the TraitList's own notifier) counts as its initial population
            out += [[i, FNUM["trait_added"], [["F", 0]]], [5 + 3 * i, 0, [["F", 0]]]]
        for i, o in enumerate(pool):
            if o is None:
                continue
            for nm in TRAITS[case["objs"][i]["cls"]] + ["trait_added", "extra"]:
                t = o._trait(nm, 0)
                lst = t._notifiers(False) if t is not None else None
                if lst:
                    out.append([i, FNUM[nm], [canon(n) for n in lst]])
            lst = o._notifiers(False)
            if lst:
                out.append([i, F_OBJ, [canon(n) for n in lst]])
        for oid, c in conts.items():
            if c.notifiers:
                out.append([oid, 0, [canon(n) for n in c.notifiers]])
        return out

    def delta(prev, cur):
        # only the lists that differ from the previous snapshot (a vanished list as [])
        p = {(o, f): ns for o, f, ns in prev}
        c = set((o, f) for o, f, ns in cur)
        return ([[o, f, ns] for o, f, ns in cur if p.get((o, f)) != ns]
                + [[o, f, []] for (o, f) in p if (o, f) not in c])

    init = snapshot()
    prev = init
    counter = [1000]
    exc = None
    hist = []
    # The history runs inside a running event loop, so that dispatch_same can schedule coroutine-function
    # handlers as tasks (observe.py dispatch_same).
    async def run_ops():
        nonlocal prev, exc
        for op in case["ops"]:
            del calls[:]
            k = op[0]
            out, dead, graphs, mut = "Ok", None, None, None
            try:
                if k in ("Reg", "Unreg"):
                    _, root, hid, dsp, gtrees, text = op
                    if text is not None:
                        # a string, or a list of strings (HasTraits.observe accepts both)
                        graphs = [graph_json(g) for g in _compile_expression(text)]
                        pool[root].observe(handlers[hid], text, remove=(k == "Unreg"), dispatch={0: "same", 2: "ui"}[dsp])
                    else:
                        observe_api.apply_observers(
                            pool[root], graphs=[build_graph(t) for t in gtrees], handler=handlers[hid],
                            dispatcher=DISPATCHERS[dsp], remove=(k == "Unreg"))
                elif k == "Copy":
                    # ["Copy", i, r, hid, text]: object r = copy.copy(object i) (__reduce_ex__ / __setstate__, children
                    # shared); __setstate__ makes the class's registration `text` for the new object: a registration
                    _, i_, r_, hid, text = op
                    graphs = [graph_json(g) for g in _compile_expression(text)]
                    pool[r_] = copy.copy(pool[i_])
                    HID_OF[id(pool[r_])] = hid
                    pending.discard(r_)
                    handlers[hid] = pool[r_]._nested
                    idx_of[id(pool[r_])] = r_
                    conts[5 + 3 * r_] = pool[r_].kids
                    # what is delivered while the state is being restored is not part of the registration property
                    del calls[:]
                elif k == "ReadCp":
                    # the cached property is read: its cache slot is filled, nothing else may change
                    getattr(pool[op[1]], "cp")
                elif k == "Change":
                    counter[0] += 1
                    setattr(pool[op[1]], FNAME[op[2]], counter[0])
                elif k == "AddTrait":
                    # ["AddTrait", i, j or None]: the trait `extra` is added to object i; _populate assigns pool[j] to it
                    o_ = pool[op[1]]
                    o_._pending = None if op[2] is None else pool[op[2]]
                    try:
                        o_.add_trait("extra", Instance(HasTraits))
                    finally:
                        o_._pending = None
                        o_ = None
                elif k == "SetLink":
                    # ["SetLink", i, "f"|"g", j or None]
                    setattr(pool[op[1]], op[2], None if op[3] is None else pool[op[3]])
                elif k == "Mut":
                    # in-place container mutation ["Mut", i, "kids"|"m"|"s", what, args...]
                    o_ = pool[op[1]]
                    c_ = getattr(o_, op[2])
                    what, a = op[3], op[4:]
                    removed, added, fired = [], [], True
                    exc = None
                    try:
                        if what == "append":
                            added = [a[0]]
                            c_.append(pool[a[0]])
                        elif what == "pop":
                            removed = [idx_of[id(c_[a[0]])]]
                            c_.pop(a[0])
                        elif what == "setitem":
                            removed, added = [idx_of[id(c_[a[0]])]], [a[1]]
                            c_[a[0]] = pool[a[1]]
                        elif what == "setslice":
                            # children[:] = [...]: one event, removed = all old items, added = all new items
                            removed, added = [idx_of[id(v_)] for v_ in c_], list(a[0])
                            c_[:] = [pool[j_] for j_ in a[0]]
                        elif what == "dset":
                            removed, added = ([idx_of[id(c_[a[0]])]] if a[0] in c_ else []), [a[1]]
                            c_[a[0]] = pool[a[1]]
                        elif what == "ddel":
                            removed = [idx_of[id(c_[a[0]])]]
                            del c_[a[0]]
                        elif what == "sadd":
                            fired = pool[a[0]] not in c_
                            added = [a[0]] if fired else []
                            c_.add(pool[a[0]])
                        elif what == "sdiscard":
                            fired = pool[a[0]] in c_
                            removed = [a[0]] if fired else []
                            c_.discard(pool[a[0]])
                        else:
                            raise RuntimeError(what)
                    except Exception as e_:  # noqa
                        exc = e_
                    after = list(c_.values()) if isinstance(c_, dict) else list(c_)
                    mut = {"items": [idx_of[id(v)] for v in after], "removed": removed, "added": added, "fired": fired}
                    o_ = c_ = after = None
                    if exc is not None:
                        e_ = None
                        raise exc
                elif k == "CollectOwner":
                    wr = weakref.ref(owners[op[1]])
                    owners[op[1]] = None
                    handlers[op[1]] = None
                    gc.collect()
                    dead = wr() is None
                elif k == "CollectObj":
                    i = op[1]
                    wr = weakref.ref(pool[i])
                    del idx_of[id(pool[i])]
                    pool[i] = None
                    gc.collect()
                    dead = wr() is None
                    dead_objs.add(i)
                else:
                    raise ValueError(k)
            except Exception as e:  # noqa
                out = dlib.exn_name(e, EXN)
            exc = None
            # two turns of the loop: coroutine handlers scheduled by dispatch_same run now
            await asyncio.sleep(0)
            await asyncio.sleep(0)
            cur = snapshot()
            hist.append({"out": out, "calls": list(calls), "snap": delta(prev, cur), "dead": dead, "graphs": graphs,
                         "mut": mut})
            prev = cur

    LOOP.run_until_complete(run_ops())
    # registrations must not keep the observed objects alive (handlers are still held here)
    for hid, hk in enumerate(case["handlers"]):
        if hk == "decl":
            handlers[hid] = None      # a bound method of a pool object
    HID_OF.clear()
    memo.clear()
    wrs = [weakref.ref(x) for x in pool if x is not None]
    o = d = c = vals = ow = None
    pool[:] = []
    conts.clear()
    idx_of.clear()
    plain.clear()
    gc.collect()
    collected = all(w() is None for w in wrs)
    return {"init": init, "items": heap_items, "hist": hist, "pool_collected": collected}


def main():
    cases = dlib.load()
    gc.collect()
    gc.freeze()      # everything imported so far is out of the collector's way: gc.collect() stays cheap
    # results are kept as strings: the collector does not have to traverse them at every gc.collect()
    sys.stdout.write("[" + ",".join(json.dumps(run_case(c)) for c in cases) + "]")
    sys.stdout.flush()


main()
