"""C06 implementation driver: executes dict histories on the real TraitDict /
TraitDictObject of the tree under test and records canonical observations.

Notifier order on the dict under test (it matters for finding F7: the
observer's event factory must not disturb what later notifiers receive):
   [TraitDictObject.notifier ->"<name>_items" event]  (Dict trait only)
   plain recording notifier 1
   the notifier of  holder.observe(handler, "d.items")   (dict_event_factory)
   plain recording notifier 2
"""
import collections
import sys
import os
import types

sys.path.insert(0, os.path.dirname(os.path.abspath(__file__)))
import dlib  # noqa: E402

from traits.api import Any, CInt, Dict, HasTraits, Int, TraitError  # noqa: E402
from traits.trait_dict_object import TraitDict  # noqa: E402
from traits.observation.api import DictChangeEvent  # noqa: E402

EXN = ["KeyError", "TraitError", "TypeError", "ValueError"]


def val(a):
    if 0 <= a < 100:
        return a
    if 100 <= a < 200:
        return str(a - 100)
    if a == 200:
        return None
    if a == 201:
        return (1,)
    if 300 <= a < 400:
        return [a - 299]            # an unhashable object
    raise ValueError(a)


def atom(v):
    if type(v) is int:
        return v
    if type(v) is str and v.isdigit():
        return 100 + int(v)
    if v is None:
        return 200
    if type(v) is tuple and v == (1,):
        return 201
    if type(v) is list and len(v) == 1 and type(v[0]) is int:
        return 299 + v[0]
    return 999


def v_int(x):
    if type(x) is not int:
        raise TraitError("not an int")
    return x


def v_cint(x):
    try:
        return int(x)
    except (TypeError, ValueError):
        raise TraitError("not convertible")


def v_tab(table):
    tab = {a: r for a, r in reversed(table)}    # first entry wins, as in Model.tab_lookup

    def validator(x):
        a = atom(x)
        if a in tab:
            if tab[a] is None:
                raise TraitError("rejected by table")
            return val(tab[a])
        return x
    return validator


def validator(kind):
    if isinstance(kind, dict):
        return v_tab(kind["tab"])
    return {"VAll": None, "VInt": v_int, "VCInt": v_cint}[kind]


TRAITS = {"VAll": Any, "VInt": Int, "VCInt": CInt}
_classes = {}


def owner_class(kk, vk, items):
    key = (kk, vk, items)
    if key not in _classes:
        class Owner(HasTraits):
            d = Dict(TRAITS[kk](), TRAITS[vk](), items=items)
        _classes[key] = Owner
    return _classes[key]


class Holder(HasTraits):
    d = Any()


def pairs(ps):
    return [(val(k), val(v)) for k, v in ps]


def argument(kind, ps):
    """The update / |= / constructor argument: a mapping of some class, or an iterable of pairs."""
    ps = pairs(ps)
    if kind == "map":
        return dict(ps)
    if kind == "ordered":
        return collections.OrderedDict(ps)
    if kind == "proxy":
        return types.MappingProxyType(dict(ps))
    if kind == "userdict":
        return collections.UserDict(dict(ps))
    if kind == "chainmap":
        return collections.ChainMap(dict(ps))
    if kind == "gen":
        return (p for p in ps)
    if kind == "tuple":
        return tuple(ps)
    if kind == "iterpairs":
        return [iter(p) for p in ps]            # every pair a one-shot iterator (dict.update unpacks, never indexes)
    if kind == "listpairs":
        return [list(p) for p in ps]
    return ps


def amap(d, keep_order=False):
    items = [[atom(k), atom(v)] for k, v in d.items()]
    return items if keep_order else sorted(items)


def make(case):
    init = dict(pairs(case["init"]))
    if case["target"] == "plain":
        td = TraitDict(key_validator=validator(case["kk"]), value_validator=validator(case["vk"]))
        dict.update(td, init)           # any start state, also one the validators would not produce
        holder = Holder(d=td)
        return holder, td
    owner = owner_class(case["kk"], case["vk"], case["target"] == "obj")()
    owner.d = init
    return owner, owner.d


def retv(r, op):
    if op in ("SetDefault", "SetDefault1", "Pop"):
        return ["V", atom(r)]          # a returned None is the value atom 200 here
    if r is None:
        return ["N"]
    if op == "PopItem" and type(r) is tuple and len(r) == 2:
        return ["I", atom(r[0]), atom(r[1])]
    return ["V", atom(r)]


def run_case(case):
    holder, td0 = make(case)
    cur = {"td": td0}
    ev1, ev2, oev, iev = [], [], [], []

    def rec1(d, removed, added, changed):
        ev1.append([amap(removed), amap(added), amap(changed)])

    def rec2(d, removed, added, changed):
        ev2.append([amap(removed), amap(added), amap(changed)])

    def handler(event):
        if not isinstance(event, DictChangeEvent):
            return                      # "d.items" also reports the reassignment of d itself (a TraitChangeEvent)
        if event.object is not cur["td"]:
            oev.append([[[999, 999]], []])
        oev.append([amap(event.removed), amap(event.added)])

    def items_handler(event):
        iev.append([amap(event.removed), amap(event.added), amap(event.changed)])

    td0.notifiers.append(rec1)
    holder.observe(handler, "d.items")
    td0.notifiers.append(rec2)
    if case["target"] != "plain":
        holder.on_trait_change(items_handler, "d_items")
    hist = []
    for op in case["ops"]:
        del ev1[:], ev2[:], oev[:], iev[:]
        td = cur["td"]
        k = op[0]
        out, ret = "Ok", ["N"]
        try:
            if k == "SetItem":
                td[val(op[1])] = val(op[2])
            elif k == "DelItem":
                del td[val(op[1])]
            elif k in ("Update", "Ior"):
                arg = argument(op[1], op[2])
                if k == "Update":
                    ret = retv(td.update(arg), k)
                else:
                    r = td.__ior__(arg)
                    if r is not td:
                        raise RuntimeError("in-place operator returned another object")
            elif k == "UpdateBad":
                # a pair list ending in an element that is not a pair (1-tuple, 3-tuple, 3-character string)
                bad = {1: (val(1),), 3: (val(1), val(10), val(11)), 30: "abc"}[op[2]]
                ret = retv(td.update(pairs(op[1]) + [bad]), k)
            elif k == "SetDefault":
                ret = retv(td.setdefault(val(op[1]), val(op[2])), k)
            elif k == "SetDefault1":
                ret = retv(td.setdefault(val(op[1])), k)
            elif k == "Pop":
                if len(op) == 2:
                    ret = retv(td.pop(val(op[1])), k)
                else:
                    ret = retv(td.pop(val(op[1]), val(op[2])), k)
            elif k == "PopItem":
                ret = retv(td.popitem(), k)
            elif k == "Clear":
                ret = retv(td.clear(), k)
            elif k == "Ctor":
                # a new object from raw items; a rejected item leaves the old object in place
                arg = dict(pairs(op[2])) if op[1] == "map" else pairs(op[2])
                if case["target"] == "plain":
                    new = TraitDict(arg, key_validator=validator(case["kk"]), value_validator=validator(case["vk"]))
                    new.notifiers.append(rec1)
                    cur["td"] = new
                    holder.d = new              # the observer moves to the new dict
                    new.notifiers.append(rec2)
                else:
                    holder.d = arg if op[1] == "map" else dict(arg)
                    new = holder.d
                    if new is td:
                        raise RuntimeError("assignment did not create a new TraitDictObject")
                    cur["td"] = new
                    new.notifiers.append(rec1)
                    new.notifiers.append(rec2)
            else:
                raise ValueError(k)
        except Exception as e:  # noqa
            out = dlib.exn_name(e, EXN)
            ret = ["N"]
        hist.append({"out": out, "after": amap(cur["td"], keep_order=True), "ev1": list(ev1), "ev2": list(ev2),
                     "oev": list(oev), "iev": (None if case["target"] == "plain" else list(iev)), "ret": ret})
    return hist


def main():
    cases = dlib.load()
    dlib.dump([run_case(c) for c in cases])


main()
