"""C14 implementation driver: builds the class of each case, runs the history on the original, copies it
(pickle protocol p / copy.deepcopy / clone_traits(copy=...)), reads every trait back on both objects
(containers with identity atoms and the object their owner reference points to) and probes the copy's
liveness behaviourally.  Integers: valid Int values are >= 0; -1 stands for the invalid value 'x'.
"""
import copy
import logging
import os
import pickle
import sys
import uuid

sys.path.insert(0, os.path.dirname(os.path.abspath(__file__)))
import dlib  # noqa: E402

logging.disable(logging.CRITICAL)

from traits.api import (on_trait_change, Range, Float, WeakRef, Undefined, Instance, UUID, DelegatesTo, PrototypedFrom, Any, Dict, HasTraits, Int, List, Property, ReadOnly, Set, Str, TraitError,  # noqa: E402
                        cached_property, observe, push_exception_handler, pop_exception_handler)
from traits.trait_list_object import TraitListObject  # noqa: E402
from traits.trait_dict_object import TraitDictObject  # noqa: E402
from traits.trait_set_object import TraitSetObject  # noqa: E402

VALID_INT = 1000
COUNT = [0]
DECL = []          # (object, trait name) of declared observers that fired


class Pair(HasTraits):
    nodes = List(Instance(HasTraits))


class Child(HasTraits):
    v = Int()
    tags = List(Str)
    rows = List()            # rows of plain (unvalidated) python lists; List carries copy="deep"
    peer = Instance(HasTraits)


GRAPH_LOG = []
OUTSIDE = Child(v=99)       # a live object that is not part of any copied graph


def trait_of(t, md):
    if t == "int":
        return Int(**md)
    if t == "any":
        return Any(**md)
    if t == "ro":
        return ReadOnly(**md)
    inner = trait_of(t["inner"], {})
    if t["shape"] == "list":
        return List(inner, **md)
    if t["shape"] == "dict":
        return Dict(Str, inner, **md)
    return Set(inner, **md)


def make_class(case):
    ns = {}
    if case.get("graph"):
        # an "edited since loaded" flag and an edit counter, declared BEFORE the traits they watch, maintained by
        # post_init=True handlers: restoring / copying state must not run them
        # order-dependent restore: the dependent traits (`choices`, `amount`) are declared AFTER what they depend on
        # (`kind`, `lo`/`hi`) but sort BEFORE it alphabetically; state is restored / copied in declaration order
        ns["kind"] = Str("none")
        ns["choices"] = List(Str)

        def _kind_changed(self):
            self.choices = []              # switching the kind starts with no choices
        ns["_kind_changed"] = _kind_changed
        ns["lo"] = Float(0.0)
        ns["hi"] = Float(10.0)
        ns["amount"] = Range(low="lo", high="hi")
        ns["dirty"] = Int(0)
        ns["edits"] = Int(0)
        ns["early"] = PrototypedFrom("late_inst", prefix="v")   # declared BEFORE the Instance it delegates to
        ns["late_inst"] = Instance(Child)                       # no default object
    for d in case["cls"]:
        md = {}
        if d["transient"]:
            md["transient"] = True
        if d["copy"] is not None:
            md["copy"] = d["copy"]
        name = "t%d" % d["k"]
        ns[name] = trait_of(d["type"], md)
        if isinstance(d["type"], dict):
            def decl(self, event, name=name):
                DECL.append((self, name))
            ns["_decl_" + name] = observe(name + ".items")(decl)

            def getter(self, name=name):
                return len(getattr(self, name))
            getter.__name__ = "_get_cnt_" + name     # cached_property derives the cache key from it
            ns["_get_cnt_" + name] = cached_property(getter)
            ns["cnt_" + name] = Property(Int, observe=name + ".items")
    if case.get("graph"):
        ns["inst"] = Instance(Child)
        ns["kids"] = List(Instance(Child))
        ns["text"] = Str()
        ns["words"] = List(Str)

        def _text_edited(self, event):
            self.dirty = 1

        def _words_edited(self):
            self.edits += 1
        ns["_text_edited"] = observe("text", post_init=True)(_text_edited)
        ns["_words_edited"] = on_trait_change("words[]", post_init=True)(_words_edited)
        ns["drows"] = DelegatesTo("inst", prefix="rows")      # write-through delegate onto a deep-copy container trait
        ns["pv"] = PrototypedFrom("inst", prefix="v")         # non-write-through delegate, never overridden
        ns["temp_"] = Float()                                   # a trait-name wildcard: temp_lunch, temp_x ...
        if case["op"][0] != "pickle":
            ns["wr"] = WeakRef(Child)                           # weak back-reference to an object OUTSIDE what is copied
                                                                # (an object with a WeakRef trait cannot be pickled at all)
        ns["kidset"] = Set(Instance(Child))                    # items also reachable through `kids`
        ns["ml"] = List(Int, [7], minlen=1)                    # a list that may never be empty
        ns["uid"] = UUID(can_init=True)                        # writable only until the object is initialised
        ns["byobj"] = Dict(Instance(Child), Int, copy="deep")  # keyed by mutable hashable objects
        ns["bystr"] = Dict(Str, Instance(Child))               # Dict carries no copy metadata of its own

        def _kids_items(self, event):
            GRAPH_LOG.append(("items", self))

        def _kids_v(self, event):
            GRAPH_LOG.append(("v", self))
        ns["_g_kids_items"] = observe("kids.items")(_kids_items)
        ns["_g_kids_v"] = observe("kids.items.v")(_kids_v)
    COUNT[0] += 1
    cname = "C14K%d" % COUNT[0]
    ns["__module__"] = "__main__"
    ns["__qualname__"] = cname
    K = type(cname, (HasTraits,), ns)
    setattr(sys.modules["__main__"], cname, K)
    return K


def build(raw, t):
    """raw JSON value -> Python value of the shape the trait type expects (plain containers)."""
    if not isinstance(raw, list):
        return "x" if raw < 0 else raw
    if isinstance(t, dict):
        items = [build(x, t["inner"]) for x in raw]
        if t["shape"] == "dict":
            return {"k%d" % i: x for i, x in enumerate(items)}
        if t["shape"] == "set":
            try:
                return set(items)
            except TypeError:
                return items
        return items
    return [build(x, "any") for x in raw]


def items_of(c):
    if isinstance(c, dict):
        return list(c.values())
    if isinstance(c, (set, frozenset)):
        return sorted(c, key=lambda x: (str(type(x)), x))
    return list(c)


def append(c, x):
    if isinstance(c, dict):
        c["k%d" % len(c)] = x
    elif isinstance(c, set):
        c.add(x)
    else:
        c.append(x)


class Pool(object):
    def __init__(self, orig):
        self.keep = []
        self.ids = {}
        self.orig = orig
        self.copy = None

    def atom(self, c):
        if id(c) not in self.ids:
            self.ids[id(c)] = 100 + len(self.ids)
            self.keep.append(c)
        return self.ids[id(c)]

    def who(self, o):
        if o is None:
            return -1
        if o is self.orig:
            return 0
        if o is self.copy:
            return 1
        return 9

    def dump(self, v):
        if isinstance(v, (list, dict, set, frozenset)) and not isinstance(v, str):
            owner = None
            if isinstance(v, (TraitListObject, TraitDictObject, TraitSetObject)):
                owner = self.who(v.object())
                if owner == -1:
                    owner = None
            return {"id": self.atom(v), "owner": owner, "items": [self.dump(x) for x in items_of(v)]}
        if v is None or v is Undefined:
            return 0                             # the default of Any / an unset value
        if isinstance(v, bool) or not isinstance(v, int):
            return -1
        return v

    def read_all(self, o, case):
        out = []
        for d in case["cls"]:
            name = "t%d" % d["k"]
            if d["type"] == "ro" and o.__dict__.get(name, Undefined) is Undefined:
                continue                         # write-once attribute not written
            try:
                v = getattr(o, name)
            except Exception:
                continue
            out.append([d["k"], self.dump(v)])
        return out


def make_handlers(pool, obj, wi, wo):
    def h_items():
        wi.append(pool.who(obj))

    def h_obs(event):
        wo.append(pool.who(obj))
    return h_items, h_obs


def outcome(f):
    try:
        f()
        return "Ok"
    except TraitError:
        return "TraitError"
    except Exception:
        return "OtherError"


def navigate(c, path):
    for i in path:
        c = items_of(c)[i]
    return c


def elem_type(t, path):
    t = t["inner"] if isinstance(t, dict) else "any"
    for _ in path:
        t = t["inner"] if isinstance(t, dict) else "any"
    return t


def cpaths(v):
    if not (isinstance(v, (list, dict, set)) and not isinstance(v, str)):
        return []
    out = [[]]
    for i, x in enumerate(items_of(v)):
        out += [[i] + p for p in cpaths(x)]
    return out


def valid_item(t):
    return [] if isinstance(t, dict) else VALID_INT


def build_item(t):
    if isinstance(t, dict):
        return {} if t["shape"] == "dict" else set() if t["shape"] == "set" else []
    return VALID_INT


def graph_probes(pool, o, c):
    """Instance graph fixture: inst = Instance(Child), kids = List(Instance(Child))."""
    out = []

    def state(ch):
        return None if ch is None else (ch.v, list(ch.tags))
    # 900: the Instance child; 904: the children in the list
    def meta(name):
        m = type(o).__base_traits__[name].copy
        return m if m in ("ref", "shallow", "deep") else None
    out.append(["inst", 900, meta("inst"), c.inst is o.inst, state(c.inst) == state(o.inst) and type(c.inst) is Child])
    out.append(["inst", 904, meta("kids"), any(a is b for a in c.kids for b in o.kids),
                [state(x) for x in c.kids] == [state(x) for x in o.kids]])
    # 905: written at construction, read-only once the object is initialised: same value, not writable on the copy
    out.append(["inst", 905, "deep", False, c.uid == o.uid])
    out.append(["ro", 905, outcome(lambda: setattr(c, "uid", uuid.UUID(int=5)))])
    # 906: a dict keyed by objects (copy="deep"): the copy's keys are copies, equal in state, and the copy's graph is
    # consistent (the copy of kids[0] is the key of the copied dict)
    okeys, ckeys = list(o.byobj.keys()), list(c.byobj.keys())
    out.append(["inst", 906, meta("byobj"), any(a is b for a in ckeys for b in okeys),
                sorted(state(k) + (v,) for k, v in c.byobj.items()) == sorted(state(k) + (v,) for k, v in o.byobj.items())
                and any(k is c.kids[0] for k in ckeys)])
    # 907: a dict of objects without copy metadata on the Dict trait
    out.append(["inst", 907, meta("bystr"), c.bystr["a"] is o.bystr["a"],
                {k: state(v) for k, v in c.bystr.items()} == {k: state(v) for k, v in o.bystr.items()}])
    # 908: the container reached through the write-through delegate (List: copy="deep"): the nested plain lists of
    # the copy's child are the copy's own, at every depth, and equal
    out.append(["inst", 908, "deep",
                c.inst.rows is o.inst.rows or any(a is b for a in c.inst.rows for b in o.inst.rows),
                list(c.inst.rows) == list(o.inst.rows) == [[1, 2], [3], [4, 5]] and list(c.drows) == list(o.drows)])
    # 910: state restored quietly: handlers declared post_init=True did not run while the state was put in place
    # (the flag / counter they maintain read as on the original), and they work afterwards
    quiet = (c.dirty, c.edits, c.text, list(c.words)) == (o.dirty, o.edits, o.text, list(o.words)) == (0, 0, "hello", ["a", "b"])
    c.text = "changed"
    c.words.append("c")
    out.append(["inst", 910, "deep", False, quiet and (c.dirty, c.edits) == (1, 1) and (o.dirty, o.edits) == (0, 0)])
    # 911: a locally overridden prototyped trait declared before its Instance: the override is the object's own
    # state and is carried over (and the delegate object is a copy with the same state)
    out.append(["inst", 911, "deep", c.late_inst is o.late_inst,
                c.early == o.early == 42 and c.late_inst is not None and c.late_inst.v == 8 and o.late_inst.v == 8])
    # 912: a set of objects one of which is also reachable through `kids`: copies, and the aliasing is preserved
    # inside the copy (the copy of kids[0] IS the member of the copied set)
    out.append(["inst", 912, meta("kidset"), any(a is b for a in c.kidset for b in o.kidset),
                sorted(x.v for x in c.kidset) == sorted(x.v for x in o.kidset) == [1, 6]
                and any(x is c.kids[0] for x in c.kidset) and any(x is o.kids[0] for x in o.kidset)])
    # 913: a list trait with minlen >= 1 keeps its (non-default) value
    out.append(["inst", 913, "deep", c.ml is o.ml, list(c.ml) == list(o.ml) == [5, 6]])
    # 916: traits that depend on another trait of the same object (a handler of `kind` resets `choices`; the bounds of
    # `amount` are `lo` / `hi`) come back with their values: state is restored in declaration order
    out.append(["inst", 916, "deep", False,
                (c.kind, list(c.choices), c.lo, c.hi, c.amount) == ("radio", ["yes", "no"], 0.0, 100.0, 50.0)
                and (o.kind, list(o.choices), o.amount) == ("radio", ["yes", "no"], 50.0)
                and outcome(lambda: setattr(c, "amount", 500.0)) == "TraitError"])
    # 917: deep copy of a CONTAINER (a tuple, a List(Instance) value) of objects that refer to each other: inside the
    # copy the references point at the copies that sit in the container (one memo for the whole copy)
    a, b = Child(v=1), Child(v=2)
    a.peer, b.peer = b, a
    t = copy.deepcopy((a, b))
    pair = Pair(nodes=[a, b])
    n2 = copy.deepcopy(pair.nodes)
    out.append(["inst", 917, "deep", t[0] is a or t[1] is b or n2[0] is a or n2[1] is b,
                t[0].peer is t[1] and t[1].peer is t[0] and (t[0].v, t[1].v) == (1, 2)
                and n2[0].peer is n2[1] and n2[1].peer is n2[0] and (n2[0].v, n2[1].v) == (1, 2)
                and a.peer is b and b.peer is a])
    # 914: values stored under names that are not declared individually (wildcard-matched, plain undeclared) are part of
    # the object's state
    out.append(["inst", 914, "deep", False,
                getattr(c, "temp_lunch", None) == 21.5 and getattr(c, "note", None) == 7
                and getattr(o, "temp_lunch", None) == 21.5 and getattr(o, "note", None) == 7])
    # 915: a weak back-reference to an object outside the copied graph still points at that object (WeakRef: copy="ref")
    if hasattr(type(o), "wr") or "wr" in type(o).__base_traits__:
        out.append(["inst", 915, meta("wr"), c.wr is o.wr and o.wr is not None, c.wr is OUTSIDE and o.wr is OUTSIDE])
    # 901: the child's own container is live on the copy's child
    wi, wo = [], []
    hs = {}
    for side, ch in ((0, o.inst), (1, c.inst)):
        def hi(side=side):
            pass
        h1, h2 = make_side_handlers(side, wi, wo)
        hs[side] = (ch, h1, h2)
        ch.on_trait_change(h1, "tags_items")
        ch.observe(h2, "tags.items")
    inv = outcome(lambda: c.inst.tags.append(3))
    del wi[:], wo[:]
    val = outcome(lambda: c.inst.tags.append("y"))
    out.append(["cont", 901, [], inv, val, list(wi), list(wo), list(wo), True])
    for side, (ch, h1, h2) in hs.items():
        ch.on_trait_change(h1, "tags_items", remove=True)
        ch.observe(h2, "tags.items", remove=True)
    # 902: the list of children: invalid item rejected; valid append fires the copy's handlers / declared observer
    wi, wo = [], []
    hs = {}
    for side, par in ((0, o), (1, c)):
        h1, h2 = make_side_handlers(side, wi, wo)
        hs[side] = (par, h1, h2)
        par.on_trait_change(h1, "kids_items")
        par.observe(h2, "kids.items")
    inv = outcome(lambda: c.kids.append(3))
    del wi[:], wo[:], GRAPH_LOG[:]
    val = outcome(lambda: c.kids.append(Child(v=5)))
    wd = [pool.who(s) for what, s in GRAPH_LOG if what == "items"]
    out.append(["cont", 902, [], inv, val, list(wi), list(wo), wd, True])
    for side, (par, h1, h2) in hs.items():
        par.on_trait_change(h1, "kids_items", remove=True)
        par.observe(h2, "kids.items", remove=True)
    # 903: a change inside a child of the copy reaches the copy's declared observer, not the original's
    inv = outcome(lambda: setattr(c.kids[0], "v", "x"))
    del GRAPH_LOG[:]
    val = outcome(lambda: setattr(c.kids[0], "v", 77))
    wd = [pool.who(s) for what, s in GRAPH_LOG if what == "v"]
    out.append(["cont", 903, [], inv, val, wd, wd, wd, True])
    return out


def make_side_handlers(side, wi, wo):
    def h1():
        wi.append(side)

    def h2(event):
        wo.append(side)
    return h1, h2


def run_case(case):
    K = make_class(case)
    o = K(uid=uuid.UUID(int=77), text="hello", words=["a", "b"], late_inst=Child(v=8), kind="radio", hi=100.0) \
        if case.get("graph") else K()
    pool = Pool(o)
    hist_out = []
    for h in case["ops"]:
        d = next(x for x in case["cls"] if x["k"] == h[1])
        name = "t%d" % h[1]
        if h[0] == "assign":
            hist_out.append(outcome(lambda: setattr(o, name, build(h[2], d["type"]))))
        else:
            def f():
                c = navigate(getattr(o, name), h[2])
                append(c, build(h[3], elem_type(d["type"], h[2])))
            hist_out.append(outcome(f))
    if case.get("graph"):
        o.inst = Child(v=3, tags=["x"])
        o.kids = [Child(v=1, tags=["a"]), Child(v=2)]
        o.choices = ["yes", "no"]
        o.amount = 50.0
        o.temp_lunch = 21.5                                    # matched by the wildcard trait temp_
        o.note = 7                                             # a plain undeclared attribute (non-strict HasTraits)
        if case["op"][0] != "pickle":
            o.wr = OUTSIDE
        o.early = 42                                           # local override of the prototyped trait
        o.kidset = {o.kids[0], Child(v=6)}
        o.ml = [5, 6]
        o.drows = [[1, 2], [3]]                                # assignment through the delegate
        o.inst.rows.append([4, 5])
        o.byobj = {o.kids[0]: 1, Child(v=9): 2}
        o.bystr = {"a": Child(v=4, tags=["t"])}
    op = case["op"]
    bt = K.__base_traits__
    meta = [[d["k"], bt["t%d" % d["k"]].copy, bool(bt["t%d" % d["k"]].transient)] for d in case["cls"]]
    try:
        if op[0] == "pickle":
            c = pickle.loads(pickle.dumps(o, protocol=op[1]))
        elif op[0] == "deepcopy":
            c = copy.deepcopy(o)
        else:
            c = o.clone_traits(copy=op[1])
    except Exception as e:
        # the copy operation itself raised: an observation (the law's first clause fails), not a harness error
        return dict(hist=hist_out, same_class=False, orig=pool.read_all(o, case), copy=[], meta=meta, probes=[],
                    copy_raised=type(e).__name__)
    pool.copy = c
    res = dict(hist=hist_out, same_class=type(c) is type(o), orig=pool.read_all(o, case), copy=pool.read_all(c, case),
               meta=meta)
    probes = []
    for d in case["cls"]:
        name = "t%d" % d["k"]
        t = d["type"]
        if isinstance(t, dict):
            wi, wo = [], []
            hi = {}
            for obj in (o, c):
                h_items, h_obs = make_handlers(pool, obj, wi, wo)
                hi[id(obj)] = (h_items, h_obs)
                obj.on_trait_change(h_items, name + "_items")
                obj.observe(h_obs, name + ".items")
            for path in cpaths(getattr(c, name)):
                et = elem_type(t, path)
                inv = outcome(lambda: append(navigate(getattr(c, name), path), "x"))
                del wi[:], wo[:], DECL[:]
                before = getattr(c, "cnt_" + name)
                val = outcome(lambda: append(navigate(getattr(c, name), path), build_item(et)))
                after = getattr(c, "cnt_" + name)
                prop_ok = (after == len(getattr(c, name))) and (getattr(o, "cnt_" + name) == len(getattr(o, name)))
                wd = [pool.who(s) for s, n in DECL if n == name]
                probes.append(["cont", d["k"], path, inv, val, list(wi), list(wo), wd, bool(prop_ok)])
            for obj in (o, c):
                obj.on_trait_change(hi[id(obj)][0], name + "_items", remove=True)
                obj.observe(hi[id(obj)][1], name + ".items", remove=True)
        elif t == "int":
            probes.append(["scalar", d["k"], outcome(lambda: setattr(c, name, "x"))])
        elif t == "ro":
            probes.append(["ro", d["k"], outcome(lambda: setattr(c, name, 5))])
    if case.get("graph"):
        probes += graph_probes(pool, o, c)
        if case["op"][0] == "pickle":
            # 909: a never-overridden non-write-through delegate has no state of its own: after unpickling it still
            # follows the object it delegates to and notifies (what __getstate__ preserves are local overrides only)
            ev = []
            c.on_trait_change(lambda obj, name, old, new: ev.append((name, old, new)), "pv")
            old = c.inst.v
            c.inst.v = 55
            probes.append(["inst", 909, "deep", False, c.pv == 55 and ev == [("pv", old, 55)] and o.pv == old])
    res["probes"] = probes
    return res


def main():
    cases = dlib.load()
    push_exception_handler(lambda *a: None, reraise_exceptions=True, main=True)
    out = []
    for case in cases:
        out.append(run_case(case))
    dlib.dump(out)


if __name__ == "__main__":
    main()
