"""T1 — translate trait_list_object._normalize_slice_or_index and _removed_items to Gallina.

Fail-closed: anything outside the small subset below raises Unsupported, which the
C05 check reports as a broken obligation.  Subset (DESIGN §4): one function; if/else;
(tuple) assignment; augmented `-=`; return; + - * // %, unary minus, comparisons,
min/max, and/or; `isinstance(index, slice)` as the sum-type match on the subscript;
`operator.index(index)` (identity on Z); `index.indices(length)` -> PySlice.indices;
`slice(a, b, c)` -> S3; `items[index]` -> PyList.getitem_slice / getitem_int;
`try: return [items[index]] except IndexError: return <name>`.

Output: the text of a .v file defining normalize_int, normalize_gen, removed_items
(the same names as the committed reference coq/C05/Normalize.v).
"""
import ast
import os

from vlib import build_impl

REL = os.path.join("traits", "trait_list_object.py")


class Unsupported(Exception):
    pass


def fail(node, msg):
    raise Unsupported("%s at line %s: %s" % (msg, getattr(node, "lineno", "?"), ast.dump(node)[:160]))


BIN = {ast.Add: "+", ast.Sub: "-", ast.Mult: "*", ast.FloorDiv: "/", ast.Mod: "mod"}
CMP = {ast.Lt: "<?", ast.LtE: "<=?", ast.Gt: ">?", ast.GtE: ">=?", ast.Eq: "=?"}
RENAME = {"reversed": "reversed_"}


def name(n):
    return RENAME.get(n, n)


def expr(e):
    if isinstance(e, ast.Name):
        return name(e.id)
    if isinstance(e, ast.Constant) and isinstance(e.value, bool):
        return "true" if e.value else "false"
    if isinstance(e, ast.Constant) and isinstance(e.value, int):
        return str(e.value) if e.value >= 0 else "(%d)" % e.value
    if isinstance(e, ast.UnaryOp) and isinstance(e.op, ast.USub):
        return "(- %s)" % expr(e.operand)
    if isinstance(e, ast.BinOp) and type(e.op) in BIN:
        return "(%s %s %s)" % (expr(e.left), BIN[type(e.op)], expr(e.right))
    if isinstance(e, ast.Compare) and len(e.ops) == 1 and type(e.ops[0]) in CMP:
        return "(%s %s %s)" % (expr(e.left), CMP[type(e.ops[0])], expr(e.comparators[0]))
    if isinstance(e, ast.BoolOp):
        return "(%s)" % ((" || " if isinstance(e.op, ast.Or) else " && ").join(expr(v) for v in e.values))
    if isinstance(e, ast.IfExp):
        return "(if %s then %s else %s)" % (expr(e.test), expr(e.body), expr(e.orelse))
    if isinstance(e, ast.Call) and isinstance(e.func, ast.Name) and e.func.id in ("min", "max") \
            and len(e.args) == 2 and not e.keywords:
        return "(Z.%s %s %s)" % (e.func.id, expr(e.args[0]), expr(e.args[1]))
    if isinstance(e, ast.Call) and isinstance(e.func, ast.Name) and e.func.id == "slice" \
            and len(e.args) == 3 and not e.keywords:
        return "(S3 %s %s %s)" % tuple(expr(a) for a in e.args)
    if isinstance(e, ast.Tuple):
        return "(%s)" % ", ".join(expr(x) for x in e.elts)
    fail(e, "expression outside subset")


def target(t):
    if isinstance(t, ast.Name):
        return name(t.id)
    if isinstance(t, ast.Tuple):
        return "'(%s)" % ", ".join(target(x) for x in t.elts)
    fail(t, "target outside subset")


def block(stmts):
    """statement list -> Gallina expression of type bool * ios"""
    if not stmts:
        fail(ast.Pass(), "fell off the end without return")
    s, rest = stmts[0], stmts[1:]
    if isinstance(s, ast.Return):
        if rest:
            fail(rest[0], "statement after return")
        v = s.value
        if isinstance(v, ast.Tuple) and len(v.elts) == 2:
            a, b = v.elts
            b2 = expr(b) if (isinstance(b, ast.Call) and getattr(b.func, "id", "") == "slice") else "(I %s)" % expr(b)
            return "(%s, %s)" % (expr(a), b2)
        fail(s, "return shape")
    if isinstance(s, ast.Assign) and len(s.targets) == 1:
        t, v = s.targets[0], s.value
        if isinstance(v, ast.Call) and isinstance(v.func, ast.Attribute) and v.func.attr == "indices" \
                and isinstance(v.func.value, ast.Name) and v.func.value.id == "index" and len(v.args) == 1:
            return "let %s := indices %s sl in\n  %s" % (target(t), expr(v.args[0]), block(rest))
        return "let %s := %s in\n  %s" % (target(t), expr(v), block(rest))
    if isinstance(s, ast.AugAssign) and isinstance(s.op, ast.Sub) and isinstance(s.target, ast.Name):
        return "let %s := (%s - %s) in\n  %s" % (name(s.target.id), name(s.target.id), expr(s.value), block(rest))
    if isinstance(s, ast.AugAssign) and isinstance(s.op, ast.Add) and isinstance(s.target, ast.Name):
        return "let %s := (%s + %s) in\n  %s" % (name(s.target.id), name(s.target.id), expr(s.value), block(rest))
    if isinstance(s, ast.If):
        if s.orelse and not rest:
            return "if %s then %s\n  else %s" % (expr(s.test), block(s.body), block(s.orelse))
        if not s.orelse and s.body and isinstance(s.body[-1], ast.Return):
            return "if %s then %s\n  else %s" % (expr(s.test), block(s.body), block(rest))
        if not s.orelse and len(s.body) == 1 and isinstance(s.body[0], ast.Assign) \
                and isinstance(s.body[0].targets[0], ast.Tuple):
            t = s.body[0].targets[0]
            names = ", ".join(target(x) for x in t.elts)
            return "let '(%s) := if %s then %s else (%s) in\n  %s" % (
                names, expr(s.test), expr(s.body[0].value), names, block(rest))
        fail(s, "if shape")
    if isinstance(s, ast.Expr) and isinstance(s.value, ast.Constant) and isinstance(s.value.value, str):
        return block(rest)
    fail(s, "statement outside subset")


def _strip_doc(body):
    return [s for s in body if not (isinstance(s, ast.Expr) and isinstance(getattr(s, "value", None), ast.Constant)
                                    and isinstance(s.value.value, str))]


def _is_isinstance_slice(t, var):
    return (isinstance(t, ast.Call) and isinstance(t.func, ast.Name) and t.func.id == "isinstance"
            and len(t.args) == 2 and isinstance(t.args[0], ast.Name) and t.args[0].id == var
            and isinstance(t.args[1], ast.Name) and t.args[1].id == "slice")


def tr_normalize(fn):
    if [a.arg for a in fn.args.args] != ["index", "length"] or fn.args.vararg or fn.args.kwarg or fn.args.kwonlyargs:
        fail(fn, "signature of _normalize_slice_or_index")
    body = _strip_doc(fn.body)
    g = body[0]
    # guard: if not isinstance(index, slice): index = operator.index(index); return <bool>, <int expr>
    if not (isinstance(g, ast.If) and isinstance(g.test, ast.UnaryOp) and isinstance(g.test.op, ast.Not)
            and _is_isinstance_slice(g.test.operand, "index") and not g.orelse):
        fail(g, "integer guard")
    gb = _strip_doc(g.body)
    if not (len(gb) == 2 and isinstance(gb[0], ast.Assign) and ast.unparse(gb[0]) == "index = operator.index(index)"
            and isinstance(gb[1], ast.Return)):
        fail(g, "integer branch")
    int_branch = block([gb[1]])
    sl_branch = block(body[1:])
    return ("Definition normalize_int (length index : Z) : bool * ios :=\n  %s.\n\n"
            "Definition normalize_gen (length : Z) (sl : slice) : bool * ios :=\n  %s.\n" % (int_branch, sl_branch))


def tr_removed(fn):
    if [a.arg for a in fn.args.args] != ["items", "index", "return_for_invalid_index"] or fn.args.vararg or fn.args.kwarg:
        fail(fn, "signature of _removed_items")
    body = _strip_doc(fn.body)
    if len(body) != 1 or not isinstance(body[0], ast.If) or not _is_isinstance_slice(body[0].test, "index"):
        fail(fn, "shape of _removed_items")
    s = body[0]

    def is_item(e):
        return (isinstance(e, ast.Subscript) and isinstance(e.value, ast.Name) and e.value.id == "items"
                and isinstance(e.slice, ast.Name) and e.slice.id == "index")
    if not (len(s.body) == 1 and isinstance(s.body[0], ast.Return) and is_item(s.body[0].value)):
        fail(s, "slice branch of _removed_items")
    if not (len(s.orelse) == 1 and isinstance(s.orelse[0], ast.Try)):
        fail(s, "integer branch of _removed_items")
    t = s.orelse[0]
    if t.orelse or t.finalbody or len(t.body) != 1 or len(t.handlers) != 1:
        fail(t, "try shape")
    r = t.body[0]
    if not (isinstance(r, ast.Return) and isinstance(r.value, ast.List) and len(r.value.elts) == 1
            and is_item(r.value.elts[0])):
        fail(t, "try body")
    h = t.handlers[0]
    if not (isinstance(h.type, ast.Name) and h.type.id in ("IndexError", "ValueError", "TypeError") and h.name is None
            and len(h.body) == 1 and isinstance(h.body[0], ast.Return) and isinstance(h.body[0].value, ast.Name)
            and h.body[0].value.id == "return_for_invalid_index"):
        fail(h, "except clause")
    return ("Definition removed_items {A : Type} (items : list A) (index : key)\n"
            "    (return_for_invalid_index : option (list A)) : res (option (list A)) :=\n"
            "  match index with\n"
            "  | KSlice sl => bind (getitem_slice items sl) (fun r => Ok (Some r))\n"
            "  | KInt i => match getitem_int items i with\n"
            "              | Ok x => Ok (Some [x])\n"
            "              | Raise %s => Ok return_for_invalid_index\n"
            "              | Raise e => Raise e\n"
            "              end\n"
            "  end.\n" % h.type.id)


HEADER = ("From Coq Require Import ZArith List Bool.\n"
          "From TV Require Import Common.PySlice Common.PyList.\n"
          "Import ListNotations.\nLocal Open Scope Z_scope.\n\n")


def translate(path=None):
    """Returns the text of the generated .v file.  Raises Unsupported / OSError / SyntaxError."""
    path = path or os.path.join(build_impl.REPO, REL)
    tree = ast.parse(open(path).read())
    fns = {n.name: n for n in tree.body if isinstance(n, ast.FunctionDef)}
    for f in ("_normalize_slice_or_index", "_removed_items"):
        if f not in fns:
            raise Unsupported("function %s not found in %s" % (f, path))
    return ("(* generated by tools/tr_pyfun.py from %s -- do not edit *)\n" % REL + HEADER
            + tr_normalize(fns["_normalize_slice_or_index"]) + "\n" + tr_removed(fns["_removed_items"]))


if __name__ == "__main__":
    import sys
    print(translate(sys.argv[1] if len(sys.argv) > 1 else None))
