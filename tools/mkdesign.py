#!/usr/bin/env python3
"""Regenerates the generated parts of DESIGN.md: the §6 summary (from tools/manifest.d) and the §12 seed table."""
import json, os, re, subprocess, sys
VERIF = os.path.dirname(os.path.dirname(os.path.abspath(__file__)))
p = os.path.join(VERIF, "DESIGN.md")
s = open(p).read()
titles = {}
for l in open(os.path.join(VERIF, "properties.jsonl")):
    if l.strip():
        d = json.loads(l)
        titles[d["id"]] = d["title"]
out = []
for pid in sorted(titles):
    f = os.path.join(VERIF, "tools", "manifest.d", pid + ".json")
    out.append("### %s — %s\n" % (pid, titles[pid]))
    if os.path.exists(f):
        d = json.load(open(f))
        if d.get("claimed", True):
            out.append("*Claimed.* " + d["text"].strip() + "\n")
            out.append("*Trusted / modelled-not-verified.* " + d["note"].strip() + "\n")
        else:
            out.append("*Not claimed.* " + d["reason"] + "\n")
    else:
        out.append("*Not claimed:* no check built.\n")
    if os.path.exists(os.path.join(VERIF, "design.d", pid + ".md")):
        out.append("Details: `design.d/%s.md`.\n" % pid)
gen = "\n".join(out)
s = re.sub(r"(<!-- BEGIN GENERATED SECTION 6 -->\n).*?(<!-- END GENERATED SECTION 6 -->)", lambda m: m.group(1) + gen + "\n" + m.group(2), s, flags=re.S)
if "<!-- BEGIN GENERATED SEED TABLE -->" in s:
    tab = subprocess.check_output([sys.executable, os.path.join(VERIF, "tools", "mkseedtable.py")], text=True)
    s = re.sub(r"(<!-- BEGIN GENERATED SEED TABLE -->\n).*?(<!-- END GENERATED SEED TABLE -->)", lambda m: m.group(1) + tab + m.group(2), s, flags=re.S)
if "<!-- BEGIN GENERATED FINDINGS -->" in s:
    tab = subprocess.check_output([sys.executable, os.path.join(VERIF, "tools", "mkfindings.py")], text=True)
    s = re.sub(r"(<!-- BEGIN GENERATED FINDINGS -->\n).*?(<!-- END GENERATED FINDINGS -->)", lambda m: m.group(1) + tab + m.group(2), s, flags=re.S)
open(p, "w").write(s)
print("DESIGN.md regenerated (%d bytes)" % len(s))
