#!/usr/bin/env python3
"""Markdown tables of known_findings.json for DESIGN.md section 8."""
import json, os
VERIF = os.path.dirname(os.path.dirname(os.path.abspath(__file__)))
es = json.load(open(os.path.join(VERIF, "known_findings.json")))
print("**Repaired in /repo (`fix:` commits; a fixed entry suppresses nothing — the reversal of every one is a seed in `seeded/rev-*`):**\n")
print("| property | commit | what failed |")
print("|---|---|---|")
groups, order = {}, []
for e in es:
    if e["status"] == "fixed":
        g = (e["property"], e.get("commit", ""))
        if g not in groups:
            groups[g] = []
            order.append(g)
        groups[g].append(e)
for g in order:
    ents = groups[g]
    w = ents[0]["what"].replace("|", "\\|")[:600]
    if len(ents) > 1:
        w += " — %d keys: %s" % (len(ents), ", ".join("`%s`" % e["key"] for e in ents[:12])) + (" …" if len(ents) > 12 else "")
    print("| %s | %s | %s |" % (g[0], g[1], w))
print("\n**Known findings (genuine contradictions of a property on the unchanged tree, recorded rather than repaired; each check prints one `KNOWN-FINDING` line per key and exits 0):**\n")
print("| property | key | what fails, on which input |")
print("|---|---|---|")
for e in es:
    if e["status"] == "known":
        print("| %s | `%s` | %s |" % (e["property"], e["key"], e["what"].replace("|", "\\|")))
