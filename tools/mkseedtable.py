#!/usr/bin/env python3
"""Markdown table of the seeded changes and which check reports them (from seeded/*/meta.json + verified.json)."""
import glob, json, os, re, sys
COMPACT = "--compact" in sys.argv
VERIF = os.path.dirname(os.path.dirname(os.path.abspath(__file__)))
rows = []
for d in sorted(glob.glob(os.path.join(VERIF, "seeded", "*"))):
    mf, vf = os.path.join(d, "meta.json"), os.path.join(d, "verified.json")
    if not os.path.exists(mf):
        continue
    m = json.load(open(mf))
    v = json.load(open(vf)) if os.path.exists(vf) else {}
    checks = []
    for k, c in sorted(v.items()):
        if not k.startswith("check_"):
            continue
        if c["rc"] == 1 and c["violations"]:
            keys = []
            for l in c.get("first_lines", []):
                mm = re.match(r"^([A-Za-z0-9_./:+\- ]{3,80}?): ", l)
                if mm and not l.startswith("KNOWN"):
                    keys.append(mm.group(1))
            nfi = all("no-failing-input-found" in x for x in c["violations"])
            checks.append("%s: reported%s%s" % (k[6:], " (no-failing-input-found)" if nfi else "",
                                                 " — " + "; ".join(keys[:2]) if keys else ""))
        else:
            checks.append("%s: **not reported** (rc=%s)" % (k[6:], c["rc"]))
    if m.get("obsolete"):
        checks = ["obsolete: " + m["obsolete"][:200]]
    suite = (v.get("suite_tail") or "").splitlines()[-1:] or [""]
    rows.append((os.path.basename(d), m.get("property", "?"), " ".join(str(m.get("summary", "")).split())[:230],
                 " ".join(str(m.get("needs", "")).split())[:200],
                 "demo %s→%s; suite: %s" % (v.get("demo_without_patch_rc", "?"), v.get("demo_with_patch_rc", "?"),
                                             suite[0].split(",")[0] if suite[0] else "not re-run"),
                 "<br>".join(checks) or "not run yet"))
if COMPACT:
    print("(full descriptions — what each change does, what it needs, how it was verified — are in `seeded/INDEX.md` and in"
          " each seed's `meta.json` / `verified.json`)\n")
    print("| seed | change (abridged) | result of ./check against it |")
    print("|---|---|---|")
    for r in rows:
        res = r[5].replace("<br>", "; ")
        print("| %s | %s | %s |" % (r[0], r[2][:110].replace("|", "\\|"), res[:170].replace("|", "\\|")))
else:
    print("| seed | property | change | needs | verified | result of ./check against it |")
    print("|---|---|---|---|---|---|")
    for r in rows:
        print("| " + " | ".join(x.replace("|", "\\|") for x in r) + " |")
