"""Translator T3 (DESIGN section 4): dispatch tables of ctraits.c -> Gallina data.

Reads <VERIF_REPO>/traits/ctraits.c (never a hard-coded /repo), fail-closed: anything
outside the recognised shapes raises TranslatorError (reported by the check as a broken
obligation).  Extracted on every run:

  (i)   the initialisers of the seven function tables;
  (ii)  every assignment `->getattr|setattr|post_setattr|validate|delegate_attr_name = rhs`
        with its enclosing function and, for indexed right-hand sides, the guard on the index
        found in that function (range guards, or the `switch` labels that reach `done:`);
  (iii) the loop of func_index (must be the plain linear search, else fail closed);
  (iv)  which table __getstate__ searches and which table __setstate__ indexes per field,
        and the 15-slot layout of the pickled tuple on both sides.

Function pointers become integers (NULL = 0, the others numbered in sorted-name order) so that
the general lemmas of coq/Common/CTables.v apply to the generated data by computation.
"""
import os
import re

from . import build_impl

TABLES = ["getattr_handlers", "setattr_handlers", "setattr_property_handlers", "validate_handlers",
          "delegate_attr_name_handlers", "getattr_property_handlers", "setattr_validate_handlers"]
FIELDS = ["getattr", "setattr", "post_setattr", "validate", "delegate_attr_name"]
FIELD_CTOR = {f: "Fd_" + f for f in FIELDS}
# functions that only copy or restore the five fields (closed under the relation; handled by the
# can_hold constructors CH_restored / the clone check below)
COPIERS = ("trait_clone", "_trait_setstate")


class TranslatorError(Exception):
    pass


def source_path():
    return os.path.join(build_impl.REPO, "traits", "ctraits.c")


def _strip_comments(src):
    return re.sub(r"/\*.*?\*/", "", src, flags=re.S)


def _functions(src_nc):
    funcs = {}
    for m in re.finditer(r"^(?:static\s+)?[\w\s\*]+?\b(\w+)\(([^;{]*?)\)\s*\{", src_nc, flags=re.M):
        name = m.group(1)
        i = m.end()
        depth = 1
        while depth and i < len(src_nc):
            depth += (src_nc[i] == '{') - (src_nc[i] == '}')
            i += 1
        funcs[name] = src_nc[m.end():i]
    return funcs


def extract(path=None):
    path = path or source_path()
    try:
        src = open(path).read()
    except OSError as e:
        raise TranslatorError("translator cannot read %s: %s" % (path, e))
    nc = _strip_comments(src)
    tables = {}
    for t in TABLES:
        ms = re.findall(r"\b%s\[\s*\d*\s*\]\s*=\s*\{(.*?)\};" % t, nc, flags=re.S)
        if len(ms) != 1:
            raise TranslatorError("translator cannot read table %s (%d initialisers)" % (t, len(ms)))
        items = [x.strip() for x in ms[0].split(",") if x.strip()]
        items = [re.sub(r"^\(\s*\w+\s*\)\s*", "", x) for x in items]
        for x in items:
            if not re.match(r"[A-Za-z_]\w*$", x):
                raise TranslatorError("translator cannot read entry %r of table %s" % (x, t))
        tables[t] = items
    funcs = _functions(nc)

    # (iii) func_index: the plain linear search, nothing else
    fi = funcs.get("func_index")
    if fi is None:
        raise TranslatorError("translator cannot read func_index")
    norm = re.sub(r"\s+", "", fi)
    if norm != "inti;for(i=0;function!=function_table[i];i++){;}returni;}":
        raise TranslatorError("translator cannot read func_index: body is not the linear search: %r" % norm[:200])

    # (iv) tables searched by __getstate__ / indexed by __setstate__, tuple layouts
    gs = funcs.get("_trait_getstate")
    ss = funcs.get("_trait_setstate")
    if gs is None or ss is None:
        raise TranslatorError("translator cannot read _trait_getstate/_trait_setstate")
    m = re.search(r"PyTuple_New\((\d+)\)", gs)
    if not m:
        raise TranslatorError("translator cannot read the size of the state tuple")
    size = int(m.group(1))
    get_layout = [None] * size
    search = {}
    for m in re.finditer(r"PyTuple_SET_ITEM\(\s*result\s*,\s*(\d+)\s*,(.*?)\)\s*;", gs, flags=re.S):
        pos, rhs = int(m.group(1)), re.sub(r"\s+", "", m.group(2))
        if pos >= size or get_layout[pos] is not None:
            raise TranslatorError("translator: state tuple position %d out of range or set twice" % pos)
        mi = re.match(r"PyLong_FromLong\(func_index\(\(void\*\)trait->(\w+),\(void\*\*\)(\w+)\)\)$", rhs)
        mo = re.match(r"get_value\(trait->(\w+)\)$", rhs)
        ml = re.match(r"PyLong_From(?:Unsigned)?Long\(trait->(\w+)\)$", rhs)
        if mi:
            if mi.group(1) not in FIELDS or mi.group(2) not in TABLES:
                raise TranslatorError("translator: unknown field/table in __getstate__: %s" % rhs)
            if mi.group(1) in search:
                raise TranslatorError("translator: field %s indexed twice in __getstate__" % mi.group(1))
            search[mi.group(1)] = mi.group(2)
            get_layout[pos] = ("idx", mi.group(1))
        elif mo:
            get_layout[pos] = ("obj", mo.group(1))
        elif ml:
            get_layout[pos] = ("int", ml.group(1))
        elif rhs == "get_value(NULL)":
            get_layout[pos] = ("none",)
        else:
            raise TranslatorError("translator cannot read __getstate__ slot %d: %s" % (pos, rhs))
    if any(x is None for x in get_layout):
        raise TranslatorError("translator: __getstate__ leaves a slot of the tuple unset")
    if set(search) != set(FIELDS):
        raise TranslatorError("translator: __getstate__ does not index all five fields: %r" % sorted(search))

    m = re.search(r'PyArg_ParseTuple\(\s*args\s*,\s*"\(([a-zA-Z]+)\)"\s*,(.*?)\)\)', ss, flags=re.S)
    if not m:
        raise TranslatorError("translator cannot read the PyArg_ParseTuple of __setstate__")
    fmt = m.group(1)
    targets = [re.sub(r"\s+", "", a) for a in m.group(2).split(",")]
    if len(fmt) != len(targets):
        raise TranslatorError("translator: __setstate__ format %r has %d targets" % (fmt, len(targets)))
    restore = {}
    idxvar = {}
    for m2 in re.finditer(r"trait->(\w+)\s*=\s*(?:\(\s*\w+\s*\)\s*)?(\w+)\[(\w+)\]\s*;", ss):
        fld, tab, var = m2.groups()
        if fld not in FIELDS or tab not in TABLES or fld in restore:
            raise TranslatorError("translator cannot read restore of %s in __setstate__" % fld)
        restore[fld] = tab
        idxvar[var] = fld
    if set(restore) != set(FIELDS):
        raise TranslatorError("translator: __setstate__ does not restore all five fields: %r" % sorted(restore))
    set_layout = []
    for ch, tg in zip(fmt, targets):
        mv = re.match(r"&(\w+)$", tg)
        mo = re.match(r"&trait->(\w+)$", tg)
        if mv and mv.group(1) in idxvar and ch == "i":
            set_layout.append(("idx", idxvar[mv.group(1)]))
        elif mv and ch == "O":
            set_layout.append(("none",))
        elif mo and ch == "O":
            set_layout.append(("obj", mo.group(1)))
        elif mo and ch in "iI":
            set_layout.append(("int", mo.group(1)))
        else:
            raise TranslatorError("translator cannot read __setstate__ target %r (format %r)" % (tg, ch))

    # trait_clone must copy each of the five fields from the same field of the source
    tc = funcs.get("trait_clone")
    if tc is None:
        raise TranslatorError("translator cannot read trait_clone")
    for f in FIELDS:
        ms = re.findall(r"trait->%s\s*=\s*([^;]+);" % f, tc)
        if [x.strip() for x in ms] != ["source->%s" % f]:
            raise TranslatorError("translator: trait_clone does not copy field %s from source->%s: %r" % (f, f, ms))

    # (ii) assignment sites
    sites = []
    for fn, body in funcs.items():
        if fn in COPIERS:
            continue
        for m in re.finditer(r"(\w+)\s*->\s*(getattr|setattr|post_setattr|validate|delegate_attr_name)\s*"
                             r"(?<![=!<>])=(?!=)\s*([^;]+);", body):
            fld = m.group(2)
            rhs = re.sub(r"^\(\s*\w+\s*\)\s*", "", m.group(3).strip())
            mi = re.match(r"(\w+)\[(\w+)\]$", rhs)
            if mi:
                tab, idx = mi.groups()
                if tab not in TABLES:
                    raise TranslatorError("translator: %s indexes unknown table %s" % (fn, tab))
                g = re.search(r"\(\s*%s >= (\d+)\s*\)\s*&&\s*\(\s*%s <= (\d+)\s*\)" % (idx, idx), body)
                g2 = re.search(r"\(\s*%s < (\d+)\s*\)\s*\|\|\s*\(\s*%s > (\d+)\s*\)" % (idx, idx), body)
                if g or g2:
                    gg = g or g2
                    if (gg.start() > m.start()):
                        raise TranslatorError("translator: guard on %s follows its use in %s" % (idx, fn))
                    sites.append((fld, ("idx", tab, int(gg.group(1)), int(gg.group(2))), fn))
                elif fn == "_trait_set_validate":
                    labels = []
                    sw = re.search(r"switch\s*\(\s*%s\s*\)\s*\{" % idx, body)
                    if not sw:
                        raise TranslatorError("translator cannot read the switch of _trait_set_validate")
                    chunks = re.split(r"\bcase\s+(\d+)\s*:", body[sw.end():m.start()])
                    # chunks: [pre, label, block, label, block, ...]; a label whose block is empty falls through
                    pending = []
                    for k in range(1, len(chunks), 2):
                        lab, blk = int(chunks[k]), chunks[k + 1]
                        pending.append(lab)
                        if blk.strip() == "":
                            continue
                        if "goto done" in blk:
                            labels += pending
                        if not re.search(r"\bbreak\s*;", blk) and "goto done" not in blk:
                            raise TranslatorError("translator: case %d of _trait_set_validate falls through" % lab)
                        pending = []
                    for mk in re.finditer(r"%s\s*=\s*(\d+)\s*;\s*goto done\s*;" % idx, body):
                        labels.append(int(mk.group(1)))
                    if re.search(r"\bdefault\s*:", body):
                        raise TranslatorError("translator: default label in _trait_set_validate")
                    sites.append((fld, ("set", tab, sorted(set(labels))), fn))
                else:
                    raise TranslatorError("translator: unguarded index %s[%s] in %s" % (tab, idx, fn))
            elif rhs == "NULL":
                sites.append((fld, ("fn", "NULL"), fn))
            elif re.match(r"[A-Za-z_]\w*$", rhs):
                sites.append((fld, ("fn", rhs), fn))
            else:
                raise TranslatorError("translator: cannot read assignment %r in %s" % (m.group(0), fn))
    if not sites:
        raise TranslatorError("translator found no assignment to a dispatch field")
    names = sorted({x for t in tables.values() for x in t} | {s[1][1] for s in sites if s[1][0] == "fn"})
    ids = {"NULL": 0}
    for n in names:
        if n != "NULL":
            ids[n] = len(ids)
    return dict(path=path, tables=tables, search=search, restore=restore, get_layout=get_layout,
                set_layout=set_layout, sites=sites, ids=ids)


def _entry(e):
    if e[0] == "idx":
        return "(LIdx %s)" % FIELD_CTOR[e[1]]
    if e[0] in ("obj", "int"):
        return "(LObj %d)" % _slot_id(e[1])
    return "LNone"


_SLOTS = {}


def _slot_id(name):
    if name not in _SLOTS:
        _SLOTS[name] = len(_SLOTS) + 1
    return _SLOTS[name]


def gallina(d, module_comment=""):
    """The generated file (definitions only).  `gen : ctables` is what the obligations speak about."""
    _SLOTS.clear()
    ids = d["ids"]
    out = ["(* generated by tools/vlib/tr_ctables.py from %s -- do not edit. %s *)" % (d["path"], module_comment),
           "From Coq Require Import ZArith List Bool.", "From TV Require Import Common.CTables.",
           "Import ListNotations.", "Open Scope Z_scope."]
    for n, k in sorted(ids.items(), key=lambda p: p[1]):
        out.append("Definition F_%s : Z := %d." % (n, k))
    for t in TABLES:
        out.append("Definition T_%s : list Z := [%s]." % (t, "; ".join("F_" + x for x in d["tables"][t])))

    def per_field(m):
        return "fun f => match f with %s end" % " | ".join(
            "%s => T_%s" % (FIELD_CTOR[f], m[f]) for f in FIELDS)
    rows = []
    for fld, rhs, fn in d["sites"]:
        if rhs[0] == "fn":
            s = "Direct F_%s" % rhs[1]
        elif rhs[0] == "idx":
            s = "Indexed T_%s %d %d" % (rhs[1], rhs[2], rhs[3])
        else:
            s = "Picked T_%s [%s]" % (rhs[1], "; ".join("%d" % i for i in rhs[2]))
        rows.append("  (%s, %s) (* %s *)" % (FIELD_CTOR[fld], s, fn))
    out.append("Definition gen_sites : list (field * site) := (List.map (fun p => (fst p, snd p)) [\n%s])%%nat."
               % ";\n".join(rows))
    out.append("Definition gen_get_layout : list entry := [%s]%%nat." % "; ".join(_entry(e) for e in d["get_layout"]))
    out.append("Definition gen_set_layout : list entry := [%s]%%nat." % "; ".join(_entry(e) for e in d["set_layout"]))
    out.append("Definition gen : ctables := {| ct_search := %s;\n  ct_restore := %s;\n  ct_sites := gen_sites;\n"
               "  ct_get_layout := gen_get_layout; ct_set_layout := gen_set_layout |}."
               % (per_field(d["search"]), per_field(d["restore"])))
    out.append("(* slots: %s *)" % ", ".join("%d=%s" % (v, k) for k, v in sorted(_SLOTS.items(), key=lambda p: p[1])))
    return "\n".join(out) + "\n"


OBLIGATIONS = """
From Coq Require Import ZArith List Bool.
From TV Require Import Common.CTables.
Require Import %(gen)s.
Import ListNotations.
(* the boolean check evaluated on the data generated from the current source *)
Lemma gen_ok : tables_ok gen = true.
Proof. vm_compute. reflexivity. Qed.
(* obligations of T3, instances of the general lemmas of Common/CTables.v *)
Theorem assigned_in_table : forall fld f, can_hold gen fld f ->
  exists i, func_index f (ct_search gen fld) = Some i /\\ (i < length (ct_search gen fld))%%nat.
Proof. exact (CTables.assigned_in_table gen gen_ok). Qed.
Theorem guards_in_bounds : forall fld s, In (fld, s) (ct_sites gen) -> site_in_bounds s = true.
Proof. exact (CTables.guards_in_bounds gen gen_ok). Qed.
Theorem getstate_setstate_roundtrip : forall fld f, can_hold gen fld f ->
  restored_fn gen fld f = Some f.
Proof. exact (CTables.getstate_setstate_roundtrip gen gen_ok). Qed.
Theorem ctrait_roundtrip : forall tr tr0, wf_ctrait gen tr ->
  exists st, getstate gen tr = Some st /\\ ctrait_agree gen (setstate gen st tr0) tr.
Proof. exact (CTables.ctrait_roundtrip gen gen_ok). Qed.
Print Assumptions assigned_in_table.
Print Assumptions guards_in_bounds.
Print Assumptions getstate_setstate_roundtrip.
Print Assumptions ctrait_roundtrip.
"""

SEARCH = """
From Coq Require Import ZArith List Bool.
From TV Require Import Common.CTables.
Require Import %(gen)s.
Import ListNotations.
Set Printing Width 1000000. Set Printing Depth 1000000.
Eval vm_compute in (offenders gen).
"""
