"""Translator T2 (DESIGN §4): re-tokenises ctraits.c:in_float_range and the comparison of
BaseRange.float_validate / int_validate (trait_types.py, through `ast`) of the tree under
VERIF_REPO into Gallina definitions over the symbolic doubles of Common/PyVal.v and re-proves,
on every run, the obligations

    in_float_range_gen_spec   (in_float_range_gen v lo hi m =? 1) = in_range_spec v lo hi m
    in_float_range_gen_model  (in_float_range_gen ... =? 1) = (C03.Model.in_float_range ... =? 1)
    py_float_range_gen_model  py_float_range_gen ... = C03.Model.py_float_in_range ...
    py_int_range_gen_model    py_int_range_gen ... = C03.Model.py_int_in_range ...
    range_c_eq_py             (in_float_range_gen ... =? 1) = py_float_range_gen ...

Fail-closed: anything outside the subset raises TranslatorError (a broken obligation)."""
import ast
import os
import re

from . import build_impl, coqrun


class TranslatorError(Exception):
    pass


# ------------------------------------------------------------------ C side
def c_in_float_range(path):
    src = re.sub(r"/\*.*?\*/", "", open(path).read(), flags=re.S)
    m = re.search(r"in_float_range\(PyObject \*value, PyObject \*range_info\)\s*\{", src)
    if not m:
        raise TranslatorError("cannot find in_float_range(PyObject *value, PyObject *range_info) in " + path)
    i, d = m.end(), 1
    while d:
        if i >= len(src):
            raise TranslatorError("unbalanced braces in in_float_range")
        d += (src[i] == "{") - (src[i] == "}")
        i += 1
    body = src[m.end():i - 1]
    toks = re.findall(r"[A-Za-z_]\w*|\d+|==|!=|<=|>=|&&|\|\||[-+*/&|!<>=(){};,]", body)
    if "".join(toks) != re.sub(r"\s+", "", body):
        raise TranslatorError("in_float_range contains characters outside the translator's token set")
    pos = [0]
    env = {}

    def peek():
        return toks[pos[0]] if pos[0] < len(toks) else None

    def eat(x=None):
        if pos[0] >= len(toks):
            raise TranslatorError("unexpected end of in_float_range")
        t = toks[pos[0]]
        if x is not None and t != x:
            raise TranslatorError("expected %r got %r near: %s" % (x, t, " ".join(toks[max(0, pos[0] - 6):pos[0] + 6])))
        pos[0] += 1
        return t

    def atom():
        t = eat()
        if t == "(":
            e = expr()
            eat(")")
            return e
        if t == "!":
            return ("not", atom())
        if t.isdigit():
            return ("int", int(t))
        if t == "PyFloat_AS_DOUBLE":
            eat("(")
            a = expr()
            eat(")")
            return ("dbl", a)
        if t == "PyTuple_GET_ITEM":
            eat("(")
            expr()
            eat(",")
            n = eat()
            eat(")")
            return ("item", int(n))
        if t == "PyLong_AsLong":
            eat("(")
            a = expr()
            eat(")")
            return a
        if t == "PyErr_Occurred":
            eat("(")
            eat(")")
            return ("false",)
        if t == "Py_None":
            return ("none",)
        if t == "-":
            return ("neg", atom())
        if re.match(r"[A-Za-z_]\w*$", t):
            return env.get(t, ("var", t))
        raise TranslatorError("unsupported token %r in in_float_range" % t)

    def expr():
        left = atom()
        while peek() in ("&", "!=", "==", "<", "<=", ">", ">=", "&&"):
            op = eat()
            right = atom()
            left = (op, left, right)
        return left

    def stmts(until="}"):
        out = []
        while peek() is not None and peek() != until:
            t = peek()
            if t in ("PyObject", "long", "int", "double"):
                while eat() != ";":
                    pass
                continue
            if t == "if":
                eat("if")
                eat("(")
                c = expr()
                eat(")")
                eat("{")
                a = stmts()
                eat("}")
                b = []
                if peek() == "else":
                    eat("else")
                    eat("{")
                    b = stmts()
                    eat("}")
                out.append(("if", c, a, b))
                continue
            if t == "return":
                eat("return")
                v = expr()
                eat(";")
                out.append(("ret", v))
                continue
            name = eat()
            if not re.match(r"[A-Za-z_]\w*$", name):
                raise TranslatorError("unsupported statement starting with %r" % name)
            eat("=")
            env[name] = expr()
            eat(";")
        return out

    prog = stmts(until=None)
    item = {1: "low", 2: "high", 3: "mask"}

    def g(e):
        k = e[0]
        if k == "int":
            return "%d" % e[1]
        if k == "neg":
            return "(- %s)" % g(e[1])
        if k == "false":
            return "false"
        if k == "not":
            return "(negb %s)" % g(e[1])
        if k == "var":
            if e[1] != "value":
                raise TranslatorError("free C variable %r" % e[1])
            return "v"
        if k == "item":
            if e[1] not in item:
                raise TranslatorError("range_info item %r" % e[1])
            return item[e[1]]
        if k == "dbl":
            inner = g(e[1])
            if inner not in ("v", "low", "high"):
                raise TranslatorError("PyFloat_AS_DOUBLE of %r" % inner)
            return {"v": "v", "low": "lo", "high": "hi"}[inner]
        if k in ("<", "<=", ">", ">="):
            return "(%s %s %s)" % ({"<": "fl_lt", "<=": "fl_le", ">": "fl_gt", ">=": "fl_ge"}[k], g(e[1]), g(e[2]))
        if k == "!=" and e[2] == ("none",):
            return "has_%s" % g(e[1])
        if k == "!=":
            return "(negb (%s =? %s))" % (g(e[1]), g(e[2]))
        if k == "==":
            return "(%s =? %s)" % (g(e[1]), g(e[2]))
        if k == "&":
            return "(Z.land %s %s)" % (g(e[1]), g(e[2]))
        if k == "&&":
            return "(%s && %s)" % (g(e[1]), g(e[2]))
        raise TranslatorError("unsupported expression %r" % (e,))

    def blk(ss, cont):
        if not ss:
            return cont
        s, rest = ss[0], blk(ss[1:], cont)
        if s[0] == "ret":
            return g(s[1])
        return "(if %s then %s else %s)" % (g(s[1]), blk(s[2], rest), blk(s[3], rest))

    return ("Definition in_float_range_gen (v : fl) (low high : option fl) (mask : Z) : Z :=\n"
            "  let has_low := match low with Some _ => true | None => false end in\n"
            "  let has_high := match high with Some _ => true | None => false end in\n"
            "  let lo := match low with Some x => x | None => FNaN end in\n"
            "  let hi := match high with Some x => x | None => FNaN end in\n"
            "  %s.\n" % blk(prog, "0"))


# ------------------------------------------------------------------ Python side
def py_range_tests(path):
    """the `if` test of BaseRange.float_validate and int_validate -> (float def, int def)"""
    tree = ast.parse(open(path).read())
    cls = next((n for n in tree.body if isinstance(n, ast.ClassDef) and n.name == "BaseRange"), None)
    if cls is None:
        raise TranslatorError("class BaseRange not found in " + path)
    out = {}
    for fn in cls.body:
        if isinstance(fn, ast.FunctionDef) and fn.name in ("float_validate", "int_validate"):
            ifs = [s for s in fn.body if isinstance(s, ast.If)]
            if len(ifs) != 1 or not (len(ifs[0].body) == 1 and isinstance(ifs[0].body[0], ast.Return)
                                     and isinstance(ifs[0].body[0].value, ast.Name)
                                     and ifs[0].body[0].value.id == "value") or ifs[0].orelse:
                raise TranslatorError("%s: expected exactly one `if <test>: return value`" % fn.name)
            out[fn.name] = ifs[0].test
    if set(out) != {"float_validate", "int_validate"}:
        raise TranslatorError("float_validate / int_validate not found in BaseRange")

    def tr(e, fl):
        lt, le, gt, ge = ("fl_lt", "fl_le", "fl_gt", "fl_ge") if fl else ("Z.ltb", "Z.leb", "Z.gtb", "Z.geb")
        if isinstance(e, ast.BoolOp):
            op = " && " if isinstance(e.op, ast.And) else " || "
            return "(" + op.join(tr(x, fl) for x in e.values) + ")"
        if isinstance(e, ast.UnaryOp) and isinstance(e.op, ast.Not):
            return "(negb %s)" % tr(e.operand, fl)
        if isinstance(e, ast.Attribute) and isinstance(e.value, ast.Name) and e.value.id == "self":
            # trait_types.py:1752-1757: exclude_low -> mask bit 1, exclude_high -> mask bit 2
            if e.attr == "_exclude_low":
                return "xl"
            if e.attr == "_exclude_high":
                return "xh"
            if e.attr == "_low":
                return "lo"
            if e.attr == "_high":
                return "hi"
        if isinstance(e, ast.Name) and e.id == "value":
            return "v"
        if isinstance(e, ast.Compare) and len(e.ops) == 1:
            a, b, op = e.left, e.comparators[0], e.ops[0]
            if isinstance(op, ast.Is) and isinstance(b, ast.Constant) and b.value is None and \
                    isinstance(a, ast.Attribute) and a.attr in ("_low", "_high"):
                return "(negb has_%s)" % a.attr[1:]
            for kind, name in ((ast.Lt, lt), (ast.LtE, le), (ast.Gt, gt), (ast.GtE, ge)):
                if isinstance(op, kind):
                    return "(%s %s %s)" % (name, tr(a, fl), tr(b, fl))
        raise TranslatorError("unsupported Python expression in BaseRange comparison: " + ast.dump(e)[:120])

    defs = []
    for name, fn, ty, dflt in (("py_float_range_gen", "float_validate", "fl", "FNaN"),
                               ("py_int_range_gen", "int_validate", "Z", "0")):
        defs.append(
            "Definition %s (v : %s) (low high : option %s) (mask : Z) : bool :=\n"
            "  let xl := negb (Z.land mask 1 =? 0) in\n  let xh := negb (Z.land mask 2 =? 0) in\n"
            "  let has_low := match low with Some _ => true | None => false end in\n"
            "  let has_high := match high with Some _ => true | None => false end in\n"
            "  let lo := match low with Some x => x | None => %s end in\n"
            "  let hi := match high with Some x => x | None => %s end in\n"
            "  %s.\n" % (name, ty, ty, dflt, dflt, tr(out[fn], ty == "fl")))
    return defs


PRELUDE = """From Coq Require Import ZArith Bool Lia List.
From TV Require Import Common.PyVal C03.Model C03.Law C03.Proofs.
Import ListNotations.
Open Scope Z_scope.
"""

CRUNCH = """
Ltac t2_crunch :=
  repeat match goal with
         | |- context [Z.ltb ?a ?b] => is_var a; is_var b; destruct (Z.ltb_spec a b)
         | |- context [Z.eqb ?a ?b] => is_var a; is_var b; destruct (Z.eqb_spec a b)
         | |- context [Z.leb ?a ?b] => is_var a; is_var b; destruct (Z.leb_spec a b)
         | |- context [Z.gtb ?a ?b] => is_var a; is_var b; rewrite (Z.gtb_ltb a b)
         | |- context [Z.geb ?a ?b] => is_var a; is_var b; rewrite (Z.geb_leb a b)
         end; cbn; try reflexivity; try lia.
"""

OBLIGATIONS = [
    ("in_float_range_gen_spec",
     "forall v low high mask, (in_float_range_gen v low high mask =? 1) = in_range_spec v low high mask",
     "intros v low high mask. unfold in_float_range_gen, in_range_spec, fl_ge, fl_gt, fl_le.\n"
     "  destruct (mask =? -1); cbn [andb]; destruct (Z.land mask 1 =? 0), (Z.land mask 2 =? 0); cbn [negb];\n"
     "  destruct low as [[| |nl l|]|], high as [[| |nh h|]|], v as [| |nv x|]; cbn; try reflexivity; t2_crunch."),
    ("in_float_range_gen_model",
     "forall v low high mask, (in_float_range_gen v low high mask =? 1) = (in_float_range v low high mask =? 1)",
     "intros. rewrite in_float_range_gen_spec. symmetry. apply in_float_range_spec."),
    ("py_float_range_gen_model",
     "forall v low high mask, py_float_range_gen v low high mask = py_float_in_range v low high mask",
     "intros v low high mask. unfold py_float_range_gen, py_float_in_range, fl_ge, fl_gt, fl_le.\n"
     "  destruct (Z.land mask 1 =? 0), (Z.land mask 2 =? 0); cbn [negb];\n"
     "  destruct low as [[| |nl l|]|], high as [[| |nh h|]|], v as [| |nv x|]; cbn; try reflexivity; t2_crunch."),
    ("py_int_range_gen_model",
     "forall v low high mask, py_int_range_gen v low high mask = py_int_in_range v low high mask",
     "intros v low high mask. unfold py_int_range_gen, py_int_in_range.\n"
     "  destruct (Z.land mask 1 =? 0), (Z.land mask 2 =? 0); cbn [negb];\n"
     "  destruct low as [l|], high as [h|]; cbn; try reflexivity; t2_crunch."),
    ("range_c_eq_py",
     "forall v low high mask, (in_float_range_gen v low high mask =? 1) = py_float_range_gen v low high mask",
     "intros. rewrite in_float_range_gen_spec, py_float_range_gen_model. symmetry. apply py_float_in_range_spec."),
]

GRID = """
Definition t2_fls : list fl := [FNaN; FNegInf; FFin false (-1000); FFin true 0; FFin false 0; FFin false 500; FFin false 1000; FPosInf].
Definition t2_bounds : list (option fl) := None :: map Some [FFin false 0; FFin false 1000; FNaN].
Definition t2_grid : list (fl * option fl * option fl * Z) :=
  flat_map (fun v => flat_map (fun lo => flat_map (fun hi => map (fun m => (v, lo, hi, m)) [0; 1; 2; 3]) t2_bounds) t2_bounds) t2_fls.
Definition t2_bad (c : fl * option fl * option fl * Z) : bool :=
  let '(v, lo, hi, m) := c in
  negb (Bool.eqb (in_float_range_gen v lo hi m =? 1) (in_range_spec v lo hi m))
  || negb (Bool.eqb (py_float_range_gen v lo hi m) (in_range_spec v lo hi m)).
Eval vm_compute in (filter t2_bad t2_grid).
"""


def generate():
    repo = build_impl.REPO
    cdef = c_in_float_range(os.path.join(repo, "traits", "ctraits.c"))
    pydefs = py_range_tests(os.path.join(repo, "traits", "trait_types.py"))
    return cdef + "\n" + "\n".join(pydefs)


_FL = re.compile(r"FNaN|FNegInf|FPosInf|FFin (true|false) \(?(-?\d+)\)?")


def _parse_grid(out):
    """witness tuples (v, lo, hi, mask) printed by the grid search, as JSON descriptions"""
    m = re.search(r"=\s*\[(.*?)\]\s*:\s*list", out, re.S)
    if not m or not m.group(1).strip():
        return []
    res = []
    for item in m.group(1).split(";"):
        toks = re.findall(r"None|Some|FNaN|FNegInf|FPosInf|FFin (?:true|false) \(?-?\d+\)?|-?\d+", item)
        vals, i = [], 0
        while i < len(toks):
            t = toks[i]
            if t == "Some":
                i += 1
                continue
            if t == "None":
                vals.append(None)
            elif t.startswith("FFin"):
                mm = re.match(r"FFin (true|false) \(?(-?\d+)\)?", t)
                vals.append(["FFin", mm.group(1) == "true", int(mm.group(2))])
            elif t.startswith("F"):
                vals.append([t])
            else:
                vals.append(int(t))
            i += 1
        if len(vals) == 4:
            res.append(vals)
    return res


def obligations(ctx, prop):
    """Regenerate, re-prove; returns extra cases [(desc, value)] (grid witnesses) when an obligation broke."""
    names = [n for n, _, _ in OBLIGATIONS]
    try:
        defs = generate()
    except (TranslatorError, OSError, SyntaxError) as e:
        for n in names:
            ctx.obligation("generated obligation (T2) " + n, False, "translator cannot read the source: %s" % e)
        ctx.t2_broken = "translator cannot read in_float_range / BaseRange.float_validate: %s" % e
        return []
    ctx.cov.setdefault("translated", []).append(
        "T2: ctraits.c:in_float_range and BaseRange.float_validate/int_validate comparisons of %s" % build_impl.REPO)
    text = PRELUDE + "\n" + defs + CRUNCH
    for n, stmt, proof in OBLIGATIONS:
        text += "\nTheorem %s :\n  %s.\nProof.\n  %s\nQed.\nPrint Assumptions %s.\n" % (n, stmt, proof, n)
    rc, out, err, secs = coqrun.run_script(ctx.scratch, "T2_InRange.v", text, timeout=300)
    if rc == 0:
        blocks = coqrun._split_assumption_blocks(out)
        for (n, _, _), b in zip(OBLIGATIONS, blocks + ["?"] * len(OBLIGATIONS)):
            ctx.obligation("generated obligation (T2) " + n, True, b)
            ctx.assumptions.append("%s: %s" % (n, " ".join(b.split())))
        return []
    # which obligations still hold (each alone, the others assumed only if proved before it)
    proved = []
    for k, (n, stmt, proof) in enumerate(OBLIGATIONS):
        t = PRELUDE + "\n" + defs + CRUNCH
        for m, s2, p2 in OBLIGATIONS[:k + 1]:
            if m == n or m in proved:
                t += "\nTheorem %s :\n  %s.\nProof.\n  %s\nQed.\n" % (m, s2, p2)
        r2, o2, e2, _ = coqrun.run_script(ctx.scratch, "T2_%s.v" % n, t, timeout=300)
        if r2 == 0:
            proved.append(n)
        ctx.obligation("generated obligation (T2) " + n, r2 == 0, "" if r2 == 0 else (o2 + e2)[-400:])
    rc3, out3, err3, _ = coqrun.run_script(ctx.scratch, "T2_grid.v", PRELUDE + "\n" + defs + GRID, timeout=300)
    wit = _parse_grid(out3) if rc3 == 0 else []
    ctx.t2_broken = "generated obligations no longer check (%s); grid witnesses (v, low, high, mask): %r; %s" % (
        ", ".join(n for n in names if n not in proved), wit[:4], (out + err)[-500:])
    extra = []
    for v, lo, hi, m in wit[:40]:
        if lo is None and hi is None:
            continue
        extra.append((["DRangeF", lo, hi, m], ["PFloat", v]))
    return extra


def gate(ctx, prop):
    """after the correspondence run: a broken T2 obligation without a concrete failing input is reported as such"""
    msg = getattr(ctx, "t2_broken", None)
    if not msg:
        return
    if any(not v[2] for v in ctx.violations):
        return
    ctx.fail("proof/T2-in_float_range", msg, dict(kind="generated-obligation-broken", detail=msg), no_input=True)
