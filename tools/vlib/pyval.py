"""Check-side library of the validation properties (C01, C03): JSON descriptions of values /
trait definitions -> Gallina terms of Common/PyVal.v and C03/Model.v, the value lattice and
the configuration generators."""
import sys

from .term import C, Raw, Some, opt

MAXSIZE = sys.maxsize


# ----------------------------------------------------------------- terms
def zint(n):
    """big integers as hexadecimal literals: Coq reads a 400-digit decimal literal in ~0.1 s, a hex one at once"""
    n = int(n)
    if abs(n) < 10 ** 18:
        return n
    return Raw("0x%x" % n) if n > 0 else Raw("(- 0x%x)" % -n)


def fl_term(f):
    if f[0] == "FFin":
        return C("FFin", bool(f[1]), zint(f[2]))
    return C(f[0])


def conv_term(c, payload):
    if c[0] == "Returns":
        return C("Returns", payload(c[1]))
    return C("Raises", C(c[1]))


def val_term(j):
    k = j[0]
    if k in ("PNone", "PUndefined"):
        return C(k)
    if k in ("PBool", "PNpBool"):
        return C(k, bool(j[1]))
    if k in ("PInt", "PIntSub", "PCallable", "PModule", "POther", "PType"):
        return C(k, zint(j[1]))
    if k in ("PFloat", "PFloatSub"):
        return C(k, fl_term(j[1]))
    if k == "PComplex":
        return C(k, fl_term(j[1]), fl_term(j[2]))
    if k in ("PStr", "PStrSub", "PBytes"):
        return C(k, [int(c) for c in j[1]])
    if k in ("PTuple", "PTupleSub", "PList"):
        return C(k, [val_term(x) for x in j[1]])
    if k == "PNpInt":
        return C(k, int(j[1]), zint(j[2]))
    if k == "PNpFloat":
        return C(k, int(j[1]), fl_term(j[2]))
    if k == "PIndexObj":
        return C(k, conv_term(j[1], zint))
    if k == "PFloatObj":
        return C(k, conv_term(j[1], fl_term))
    if k == "PComplexObj":
        return C(k, conv_term(j[1], lambda p: (fl_term(p[0]), fl_term(p[1]))))
    if k == "PObj":
        return C(k, int(j[1]), int(j[2]))
    if k == "PArray":
        return C(k, int(j[1]), [int(n) for n in j[2]], int(j[3]))
    if k == "PProxy":
        return C(k, int(j[1]), int(j[2]))
    if k == "PDict":
        return C(k, [(val_term(a), val_term(b)) for a, b in j[1]])
    raise ValueError(j)


def oflt(b):
    return None if b is None else Some(fl_term(b))


def desc_term(d):
    k = d[0]
    if k in ("DAny", "DInt", "DFloat", "DComplex", "DStr", "DBytes", "DBool", "DModule"):
        return C(k)
    if k == "DCast":
        return C(k, C(d[1]))
    if k == "DRangeF":
        return C(k, oflt(d[1]), oflt(d[2]), int(d[3]))
    if k == "DRangeI":
        return C(k, opt(None if d[1] is None else zint(d[1])), opt(None if d[2] is None else zint(d[2])), int(d[3]))
    if k == "DEnum":
        return C(k, [val_term(x) for x in d[1]])
    if k == "DMap":
        return C(k, [(val_term(a), val_term(b)) for a, b in d[1]])
    if k == "DTuple" and len(d) > 2 and d[2] == "Validated":       # ValidatedTuple
        fv = None if d[3] in (None, "none") else Some(0 if d[3] == "true" else int(d[3]))
        return C("DVTuple", [desc_term(x) for x in d[1]], fv)
    if k in ("DTuple", "DCompound", "DUnion"):
        return C(k, [desc_term(x) for x in d[1]])
    if k == "DInstance":
        return C(k, int(d[1]), bool(d[2]), bool(d[3]))
    if k == "DAdapt":
        return C(k, int(d[1]), int(d[2]), bool(d[3]), val_term(d[4]))
    if k in ("DSelf", "DCallable"):
        return C(k, bool(d[1]))
    if k == "DType":
        return C(k, int(d[1]), bool(d[2]))
    if k == "DString":
        return C(k, int(d[1]), int(d[2]), opt(d[3]))
    if k == "DPrefixList":
        return C(k, [[int(c) for c in s] for s in d[1]])
    if k == "DPrefixMap":
        return C(k, [([int(c) for c in s], val_term(x)) for s, x in d[1]])
    if k == "DList":
        return C(k, desc_term(d[1]), int(d[2]), int(d[3]))
    if k == "DRangeDyn":
        return C(k, int(d[1]), int(d[2]), int(d[3]))
    if k == "DDict":
        return C(k, desc_term(d[1]), desc_term(d[2]))
    if k == "DEnumDyn":
        return C(k, int(d[1]))
    if k == "DArray":
        def dim(x):
            if x is None:
                return C("DimAny")
            if isinstance(x, int):
                return C("DimEq", x)
            return C("DimRange", int(x[0]), opt(x[1]))
        return C(k, opt(d[1]), None if d[2] is None else Some([dim(x) for x in d[2]]), int(d[3]))
    raise ValueError(d)


def vres_term(r):
    if r[0] == "Accept":
        return C("Accept", val_term(r[1]))
    if r[0] == "Reject":
        return C("Reject")
    return C("Propagate", C(r[1]))


def env_term(self_cls, orc, rem):
    """mkEnv SUB self oracle regex — SUB is defined once in the header of the cases file"""
    return C("mkEnv", Raw("SUB"), int(self_cls),
             [(int(f), val_term(v), val_term(w)) for f, v, w in orc],
             [(int(r), [int(c) for c in s]) for r, s in rem])


def header_with_sub(imports, sub):
    pairs = "; ".join("(%d, %d)" % (a, b) for a, b in sub)
    return imports + "\nImport ListNotations.\nOpen Scope Z_scope.\nDefinition SUB : list (Z * Z) := [%s]." % pairs


# ----------------------------------------------------------------- values
def S(text):
    return ["PStr", [ord(c) for c in text]]


def F(x):
    """float literal -> fl description (x must be a multiple of 1/1000)"""
    import math
    if x != x:
        return ["FNaN"]
    if x == math.inf:
        return ["FPosInf"]
    if x == -math.inf:
        return ["FNegInf"]
    if x == 0:
        return ["FFin", math.copysign(1.0, x) < 0, 0]
    z = x * 1000
    assert abs(z - round(z)) < 1e-9, x
    return ["FFin", False, int(round(z))]


NAN, PINF, NINF = ["FNaN"], ["FPosInf"], ["FNegInf"]
ATOMS = [
    ["PNone"], ["PBool", True], ["PBool", False],
    ["PInt", 0], ["PInt", 1], ["PInt", -1], ["PInt", 2], ["PInt", 5], ["PInt", 12], ["PInt", 2 ** 70],
    ["PInt", 10 ** 400], ["PIntSub", 3], ["PIntSub", 0],
    ["PFloat", F(0.0)], ["PFloat", F(-0.0)], ["PFloat", F(0.5)], ["PFloat", F(1.0)], ["PFloat", F(1.5)],
    ["PFloat", F(-1.0)], ["PFloat", F(2.0)], ["PFloat", NAN], ["PFloat", PINF], ["PFloat", NINF],
    ["PFloatSub", F(0.5)], ["PFloatSub", NAN],
    ["PComplex", F(1.0), F(0.0)], ["PComplex", F(0.5), F(2.0)],
    S(""), S("a"), S("abc"), S("1"), S("12"), S("-3"), S("abcdef"), S("ab"), S("1a"),
    ["PStrSub", [97]], ["PStrSub", [49, 50]],
    ["PBytes", []], ["PBytes", [97]], ["PBytes", [49, 50]],
    ["PTuple", []], ["PTuple", [["PInt", 1]]], ["PTuple", [["PInt", 1], ["PInt", 2]]],
    ["PTuple", [["PInt", 1], S("a")]], ["PTuple", [S("a"), ["PInt", 1]]],
    ["PTuple", [["PFloat", F(0.5)], ["PFloat", F(0.5)]]], ["PTuple", [["PIntSub", 3], ["PBool", True]]],
    ["PTuple", [["PTuple", [["PInt", 1], ["PInt", 2]]]]],
    ["PTupleSub", [["PInt", 1], ["PInt", 2]]], ["PTupleSub", [["PIntSub", 3], ["PInt", 2]]],
    ["PTupleSub", []], ["PTuple", [["PTupleSub", [["PInt", 1], ["PInt", 2]]]]],
    ["PList", [["PInt", 1], ["PInt", 2]]], ["PList", []],
    ["PNpInt", 14, 3], ["PNpInt", 15, 1], ["PNpInt", 16, 1], ["PNpInt", 15, 0],
    ["PNpFloat", 17, F(0.5)], ["PNpFloat", 18, F(0.5)], ["PNpFloat", 18, NAN], ["PNpFloat", 18, F(1.0)],
    ["PNpBool", True], ["PNpBool", False],
    ["PIndexObj", ["Returns", 1]], ["PIndexObj", ["Returns", 2 ** 70]], ["PIndexObj", ["Returns", 10 ** 400]],
    ["PIndexObj", ["Raises", "ETypeError"]], ["PIndexObj", ["Raises", "EValueError"]],
    ["PIndexObj", ["Raises", "EOverflowError"]], ["PIndexObj", ["Raises", "EOtherError"]],
    ["PFloatObj", ["Returns", F(0.5)]], ["PFloatObj", ["Returns", NAN]], ["PFloatObj", ["Raises", "ETypeError"]],
    ["PFloatObj", ["Raises", "EValueError"]], ["PFloatObj", ["Returns", F(2.0)]],
    ["PComplexObj", ["Returns", [F(1.0), F(2.0)]]], ["PComplexObj", ["Raises", "ETypeError"]],
    ["PComplexObj", ["Raises", "EValueError"]],
    ["PObj", 100, 1], ["PObj", 101, 1], ["PObj", 102, 1], ["PObj", 110, 1], ["PObj", 111, 1],
    # transparent proxies (type Proxy, __class__ reports a user class); proxies of built-in types / of the host class are
    # not generated: there the compiled exact type check differs from isinstance by construction
    ["PProxy", 100, 1], ["PProxy", 101, 1], ["PProxy", 102, 1],
    ["PType", 100], ["PType", 101], ["PType", 102], ["PType", 3], ["PType", 110],
    ["PCallable", 0], ["PCallable", 1], ["PModule", 0],
    ["PDict", []], ["PDict", [[["PInt", 1], ["PInt", 2]]]], ["POther", -3], ["POther", 1],
    ["PUndefined"],          # traits.api.Undefined: setattr_trait stores it without validation (F22)
]


def tuple_values(rnd, n, depth=1):
    """random tuples (some of a tuple subclass) over the atoms, to exercise Tuple members"""
    flat = [a for a in ATOMS if a[0] not in ("PTuple", "PTupleSub", "PList")]
    out = []
    for _ in range(n):
        k = rnd.choice([1, 2, 2, 2, 3])
        items = [rnd.choice(flat) if depth <= 1 or rnd.random() < 0.7 else rnd.choice(tuple_values(rnd, 1, depth - 1))
                 for _ in range(k)]
        out.append([rnd.choice(["PTuple", "PTuple", "PTuple", "PTupleSub", "PList"]), items])
    return out


# ----------------------------------------------------------------- configurations
def float_ranges():
    out = []
    for lo, hi in [(F(0.0), F(1.0)), (None, F(1.0)), (F(0.0), None), (F(-1.0), F(1.0)), (F(0.5), F(0.5)),
                   (NINF, F(1.0)), (F(0.0), PINF)]:
        for mask in (0, 1, 2, 3):
            out.append(["DRangeF", lo, hi, mask])
    return out


def int_ranges():
    return [["DRangeI", lo, hi, m] for lo, hi in [(0, 5), (None, 5), (0, None), (-1, 1), (1, 1), (0, 2 ** 70)]
            for m in (0, 1, 2, 3)]


def variants(d):
    """construction variants of a configuration that must validate identically"""
    if d[0] == "DEnum" and len(d) == 2 and len(d[1]) > 1:
        return [d + [f] for f in ("args", "dflt", "tuple")]
    if d[0] == "DRangeF" and len(d) == 4 and d[1] is not None and d[2] is not None:
        return [d + ["mixed"]]
    if d[0] == "DInstance" and len(d) == 4 and d[1] in (100, 101):
        return [d + ["name"]]
    if d == ["DStr"]:
        return [["DStr", "Title"]]
    if d[0] == "DString" and len(d) == 4 and d[1] == 0 and d[2] == MAXSIZE and d[3] is not None:
        return [d + ["Regex"]]
    if d[0] == "DAdapt" and len(d) == 5 and d[2] == 1:
        return [d + ["Supports"]]
    return []


ENUMS = [
    ["DEnum", [["PInt", 1], ["PInt", 2], S("a")]],
    ["DEnum", [["PFloat", F(0.5)], ["PNone"]]],
    ["DEnum", [["PFloat", NAN], ["PInt", 1]]],
    # no tuple member: numpy-scalar == tuple is array-valued (ambiguous truth value), which is not modelled
    ["DEnum", [["PBytes", [97]], S("abc"), ["PBool", False]]],
    ["DEnum", [["PNone"]]],
    ["DEnum", [["PComplex", F(1.0), F(0.0)], S("12")]],
]
# Map on a dict that the caller extends AFTER the trait was defined (the last items; the first d[3] are there from the start)
GROWN_MAPS = [["DMap", [[S("a"), ["PInt", 1]], [["PInt", 1], ["PInt", 2]], [S("blue"), ["PInt", 7]], [["PNone"], S("x")]], "grow", 2],
              ["DMap", [[S("yes"), ["PBool", True]], [S("no"), ["PBool", False]], [["PInt", 5], ["PInt", 5]]], "grow", 1]]
MAPS = [
    ["DMap", [[S("a"), ["PInt", 1]], [["PInt", 1], ["PInt", 2]]]],
    ["DMap", [[["PFloat", F(0.5)], S("a")], [["PNone"], ["PInt", 0]], [["PTuple", [["PInt", 1], ["PInt", 2]]], S("abc")]]],
]
CASTS = [["DCast", t] for t in ("CTInt", "CTFloat", "CTComplex", "CTStr", "CTBytes", "CTBool")]
SIMPLE_FAST = [["DInt"], ["DFloat"], ["DComplex"], ["DStr"], ["DBytes"], ["DBool"]]


def instances():
    out = []
    for an in (True, False):
        out += [["DInstance", 100, an, False], ["DInstance", 101, an, False], ["DInstance", 100, an, False, "clone"],
                ["DInstance", 3, an, True],
                ["DInstance", 4, an, True], ["DInstance", 8, an, True], ["DSelf", an], ["DCallable", an]]
    return out


def adapts(modes=(1,)):
    """adapt='default' (mode 2) is generated stand-alone and in the fixed F21 configurations only"""
    return [["DAdapt", 100, mode, an, ["PNone"]] for mode in modes for an in (True, False)]


def types_():
    return [["DType", c, an] for c in (100, 101, 0) for an in (True, False)]


STRINGS = [["DString", 0, MAXSIZE, None], ["DString", 2, 4, None], ["DString", 0, 5, None], ["DString", 0, 3, None],
           ["DString", 2, MAXSIZE, None], ["DString", 0, MAXSIZE, 0], ["DString", 1, 3, 1], ["DString", 0, MAXSIZE, 2],
           # regex x {maxlen only, minlen only, both, none}: String._init picks a specialised validator per combination
           ["DString", 0, 4, 1], ["DString", 3, MAXSIZE, 1], ["DString", 2, 4, 1], ["DString", 0, MAXSIZE, 1],
           ["DString", 0, 2, 0], ["DString", 2, MAXSIZE, 3]]
# strings matching / not matching the regexes (0 ^a, 1 ^[a-z]+$, 2 \d, 3 ^(ab)*$) at every interesting length
STRING_VALUES = [S(t) for t in ("", "a", "ab", "abc", "abcd", "abcde", "abcdef", "abab", "ababab", "a1", "1a", "12", "b",
                                "ba", "bcdef", "abcdefgh")] + [["PStrSub", W_] for W_ in ([97, 98, 99], [97, 98, 99, 100, 101, 102])] \
    + [["PInt", 12], ["PFloat", F(0.5)], ["PBool", True], ["PNone"], ["PBytes", [97, 98]], ["PInt", 10 ** 400]]


def W(text):
    return [ord(c) for c in text]


PREFIXES = [["DPrefixList", [W("yes"), W("no"), W("yesterday"), W("nope")]],
            ["DPrefixList", [W("a"), W("abc"), W("12")]],
            ["DPrefixMap", [[W("yes"), ["PInt", 1]], [W("no"), ["PInt", 0]], [W("yesterday"), ["PInt", 2]]]],
            ["DPrefixMap", [[W("abc"), S("a")], [W("abd"), ["PNone"]]]]]
PREFIX_VALUES = [S(t) for t in ("yes", "y", "ye", "yest", "n", "no", "nop", "nope", "x", "YES", "ab", "abd", "abcd")] \
    + [["PStrSub", W("no")], ["PStrSub", W("yest")], ["PBytes", W("y")]]


# numpy Array: dtype ids 30 float64, 31 float32, 32 int64, 33 int32, 34 int8, 35 bool, 36 <U1, 37 complex128;
# casting ids 0 no, 1 equiv, 2 safe, 3 same_kind, 4 unsafe
ARRAYS = [["DArray", None, None, 4], ["DArray", 30, None, 4], ["DArray", 33, [3], 4], ["DArray", 30, [None, 3], 4],
          ["DArray", 30, [[2, 3], 3], 4], ["DArray", 30, [[2, None], None], 4], ["DArray", 33, None, 2],
          ["DArray", 31, None, 3], ["DArray", 30, None, 0], ["DArray", 34, [[0, 2]], 3], ["DArray", None, [2, None], 4],
          # parametrised dtypes: <U1 / <U3 / S2, little vs big endian float64 (ids 36, 38, 41, 30 vs 40)
          ["DArray", 36, None, 4], ["DArray", 38, None, 2], ["DArray", 36, None, 2], ["DArray", 40, None, 4],
          # an axis that must be EMPTY (size 0 is falsy in Python)
          ["DArray", 30, [0, 3], 4], ["DArray", None, [0], 4], ["DArray", 33, [None, 0], 4], ["DArray", 30, [[0, 0], 3], 4]]
ARRAY_VALUES = [["PArray", 30, [3], 0], ["PArray", 30, [2, 3], 1], ["PArray", 33, [3, 2], 0], ["PArray", 30, [2], 2],
                ["PArray", 34, [3], 1], ["PArray", 30, [4, 3], 0], ["PArray", 30, [1, 3], 0], ["PArray", 36, [2], 0],
                ["PArray", 30, [2, 3, 1], 0], ["PArray", 32, [3], 0], ["PArray", 31, [2, 3], 0], ["PArray", 35, [3], 0],
                ["PArray", 37, [3], 0], ["PArray", 30, [0], 0], ["PArray", 33, [3], 3],
                ["PArray", 38, [2], 0], ["PArray", 40, [3], 0], ["PArray", 41, [2], 1], ["PArray", 36, [3], 1],
                ["PArray", 30, [0, 3], 0], ["PArray", 30, [5, 3], 0], ["PArray", 33, [2, 0], 0], ["PArray", 33, [2, 1], 0],
                ["PList", [["PInt", 1], ["PInt", 2], ["PInt", 5]]], ["PTuple", [["PFloat", F(1.5)], ["PInt", 2]]],
                ["PList", [["PList", [["PInt", 1], ["PInt", 2]]], ["PList", [["PInt", 2], ["PInt", 5]]]]],
                ["PList", [["PList", [["PInt", 1], ["PInt", 2], ["PInt", 5]]], ["PList", [["PInt", 0], ["PInt", 5], ["PInt", 12]]]]],
                ["PList", []], ["PList", [["PInt", 1], S("a")]], ["PTupleSub", [["PInt", 1], ["PInt", 2]]],
                ["PList", [["PList", [["PInt", 1]]], ["PList", [["PInt", 1], ["PInt", 2]]]]],
                S("abc"), ["PInt", 5], ["PNone"], ["PFloat", F(0.5)], ["PBytes", [97]], ["PDict", [[["PInt", 1], ["PInt", 2]]]]]


# List(<trait>) members (items validated through CTrait.validate of the item trait), alone and inside Either / Tuple / Union
LISTS = [["DList", ["DInt"], 0, MAXSIZE], ["DList", ["DFloat"], 1, 3], ["DList", ["DCast", "CTInt"], 0, 2],
         ["DList", ["DCompound", [["DInt"], ["DStr"]]], 0, MAXSIZE], ["DList", ["DTuple", [["DInt"], ["DFloat"]]], 0, MAXSIZE],
         ["DList", ["DList", ["DBool"], 0, 2], 0, MAXSIZE], ["DList", ["DInstance", 100, False, False], 2, MAXSIZE],
         ["DList", ["DRangeF", F(0.0), F(1.0), 1], 0, MAXSIZE], ["DList", ["DAny"], 0, 1]]
LIST_CONTAINERS = [["DCompound", [["DInt"], ["DList", ["DInt"], 0, MAXSIZE]]],
                   ["DCompound", [["DList", ["DFloat"], 0, 2], ["DTuple", [["DInt"], ["DInt"]]], ["DStr"]]],
                   ["DCompound", [["DList", ["DStr"], 1, MAXSIZE], ["DList", ["DInt"], 0, MAXSIZE]]],
                   ["DTuple", [["DList", ["DInt"], 0, MAXSIZE], ["DFloat"]]],
                   ["DTuple", [["DCompound", [["DList", ["DCast", "CTFloat"], 0, MAXSIZE], ["DEnum", [["PNone"]]]]], ["DInt"]]],
                   ["DUnion", [["DList", ["DInt"], 0, 2], ["DList", ["DStr"], 0, MAXSIZE]]],
                   ["DUnion", [["DInt"], ["DList", ["DFloat"], 0, MAXSIZE]]]]


# Dict(<key trait>, <value trait>) members
DICTS = [["DDict", ["DInt"], ["DStr"]], ["DDict", ["DCast", "CTInt"], ["DFloat"]], ["DDict", ["DStr"], ["DList", ["DInt"], 0, MAXSIZE]],
         ["DDict", ["DCompound", [["DInt"], ["DStr"]]], ["DTuple", [["DInt"], ["DFloat"]]]], ["DDict", ["DAny"], ["DBool"]],
         ["DCompound", [["DInt"], ["DDict", ["DStr"], ["DInt"]]]], ["DTuple", [["DDict", ["DInt"], ["DCast", "CTStr"]], ["DInt"]]],
         ["DUnion", [["DDict", ["DInt"], ["DInt"]], ["DList", ["DInt"], 0, MAXSIZE]]], ["DList", ["DDict", ["DStr"], ["DFloat"]], 0, 2]]


def dict_values(rnd, n):
    keys = [["PInt", 1], ["PInt", 2], S("a"), S("1"), S("12"), ["PBool", True], ["PFloat", F(1.0)], ["PNone"],
            ["PTuple", [["PInt", 1], ["PInt", 2]]], ["PIntSub", 3], ["PNpInt", 15, 1], ["PInt", 10 ** 400]]
    vals = [["PInt", 1], S("a"), ["PFloat", F(0.5)], ["PBool", False], ["PNone"], ["PList", [["PInt", 1], ["PBool", True]]],
            ["PTuple", [["PInt", 1], ["PInt", 2]]], ["PIntSub", 3], ["PIndexObj", ["Raises", "EValueError"]], ["PInt", 10 ** 400]]
    out = [["PDict", []], ["PDict", [[["PInt", 1], S("a")]]], ["PDict", [[["PInt", 1], S("a")], [["PInt", 2], S("b")]]],
           ["PDict", [[S("1"), ["PInt", 5]], [["PInt", 1], ["PInt", 7]]]],        # CInt keys collide after conversion
           ["PDict", [[S("a"), ["PInt", 1]], [S("b"), ["PFloat", F(0.5)]]]], ["PDict", [[S("a"), ["PList", [["PInt", 1], ["PInt", 2]]]]]],
           ["PDict", [[["PInt", 1], ["PTuple", [["PBool", True], ["PInt", 2]]]]]], ["PList", [["PInt", 1]]], ["PInt", 1], ["PNone"],
           ["PDict", [[["PInt", 1], ["PIndexObj", ["Raises", "EValueError"]]], [S("x"), ["PInt", 1]]]]]
    seen_keys = lambda kvs, k: any(a == k for a, _ in kvs)
    for _ in range(n):
        kvs = []
        for _ in range(rnd.choice([0, 1, 2, 2, 3])):
            k = rnd.choice(keys)
            if k[0] in ("PBool", "PFloat") and any(a[0] in ("PInt", "PBool", "PFloat", "PNpInt", "PIntSub") for a, _ in kvs):
                continue            # 1 == True == 1.0: one dict key
            if k[0] in ("PInt", "PNpInt", "PIntSub") and any(a[0] in ("PBool", "PFloat", "PInt", "PNpInt", "PIntSub") and a != k for a, _ in kvs) and k[1 if k[0] != "PNpInt" else 2] in (1, 3):
                continue
            if not seen_keys(kvs, k):
                kvs.append([k, rnd.choice(vals)])
        out.append(["PDict", kvs])
    return out


def list_values(rnd, n):
    flat = [a for a in ATOMS if a[0] not in ("PTuple", "PTupleSub", "PList", "PUndefined", "PArray")]
    out = [["PList", []], ["PList", [["PInt", 1]]], ["PList", [["PInt", 1], ["PInt", 2]]], ["PList", [["PBool", True], ["PIntSub", 3], ["PInt", 0]]],
           ["PList", [["PFloat", F(0.5)], ["PInt", 1]]], ["PList", [S("a"), S("12")]], ["PList", [["PInt", 1], S("a")]],
           ["PList", [["PInt", 10 ** 400]]], ["PList", [["PInt", 1], ["PIndexObj", ["Raises", "EValueError"]], S("a")]],
           ["PList", [["PTuple", [["PInt", 1], ["PInt", 2]]], ["PTuple", [["PBool", True], ["PFloat", F(0.5)]]]]],
           ["PList", [["PList", [["PBool", True]]], ["PList", []]]], ["PList", [["PObj", 100, 1], ["PObj", 101, 1]]],
           ["PList", [["PObj", 100, 1], ["PNone"]]], ["PTuple", [["PInt", 1], ["PInt", 2]]], ["PInt", 1], ["PNone"], S("ab"),
           ["PList", [["PFloat", NAN]]], ["PList", [["PFloat", F(0.5)], ["PFloat", F(1.0)]]], ["PList", [["PNpInt", 15, 1], ["PNpFloat", 18, F(0.5)]]]]
    for _ in range(n):
        out.append(["PList", [rnd.choice(flat) for _ in range(rnd.choice([0, 1, 2, 2, 3, 4]))]])
    return out


def fast_leaves(layer2=True):
    out = SIMPLE_FAST + float_ranges()[:8] + ENUMS[:3] + instances()
    if layer2:
        out = out + CASTS + MAPS + ENUMS[3:] + float_ranges()[8:] + adapts()
    return out


def gen_desc(rnd, depth, compound_ok=True, layer2=True, extra=()):
    """a random (nested) fast-path configuration; `extra`: more leaf configurations (not used below a nested compound)"""
    leaves = fast_leaves(layer2) + list(extra)
    slow = STRINGS[:4] + int_ranges()[:4] + types_()[:2] + PREFIXES[:1] if layer2 else STRINGS[1:3]
    r = rnd.random()
    if depth <= 0 or r < 0.35:
        return rnd.choice(leaves)
    if r < 0.65:
        return ["DTuple", [gen_desc(rnd, depth - 1, True, layer2, extra) for _ in range(rnd.choice([1, 2, 2, 3]))]]
    if compound_ok:
        n = rnd.choice([2, 2, 3, 4])
        alts = []
        for _ in range(n):
            # an alternative may itself be an Either (flattened by TraitCompound.set_validate)
            nested = rnd.random() < 0.25
            a = gen_desc(rnd, depth - 1, nested, layer2, () if nested else extra) if rnd.random() < 0.8 else rnd.choice(slow)
            if a[0] == "DTuple" and not nested:
                pass
            alts.append(a)
        if not any(is_fast(a) for a in alts):
            alts[rnd.randrange(n)] = rnd.choice(leaves)
        if rnd.random() < 0.2:
            alts.append(["DEnum", [["PNone"]]])
        return ["DCompound", alts]
    return rnd.choice(leaves)


def is_fast(d):
    k = d[0]
    if k in ("DAny", "DRangeI", "DType", "DString", "DPrefixList", "DPrefixMap", "DUnion", "DArray", "DList", "DRangeDyn", "DDict", "DEnumDyn"):
        return False
    if k == "DTuple":
        return len(d[1]) > 0
    if k == "DCompound":
        return any(is_fast(a) for a in d[1])
    return True


def desc_kinds(d, acc=None):
    acc = [] if acc is None else acc
    acc.append(d[0] + (":" + d[1] if d[0] == "DCast" else ""))
    if d[0] in ("DTuple", "DCompound", "DUnion"):
        for x in d[1]:
            desc_kinds(x, acc)
    if d[0] == "DList":
        desc_kinds(d[1], acc)
    if d[0] == "DDict":
        desc_kinds(d[1], acc)
        desc_kinds(d[2], acc)
    return acc


def shape(d):
    """canonical short shape of a configuration (for finding keys)"""
    k = d[0]
    if k in ("DTuple", "DCompound", "DUnion"):
        return "%s(%s)" % (k[1:], ",".join(shape(x) for x in d[1]))
    if k == "DCast":
        return d[1][2:].join(["C", ""])
    if k == "DList":
        return "List(%s)" % shape(d[1])
    if k == "DDict":
        return "Dict(%s,%s)" % (shape(d[1]), shape(d[2]))
    return k[1:]


def has_kind(d, kind):
    return kind in desc_kinds(d)


def vshape(v):
    k = v[0]
    if k in ("PTuple", "PTupleSub", "PList"):
        return "%s(%s)" % (k[1:], ",".join(vshape(x) for x in v[1]))
    if k in ("PFloat", "PFloatSub", "PNpFloat"):
        f = v[-1]
        return k[1:] + (":" + f[0][1:] if f[0] != "FFin" else "")
    if k in ("PIndexObj", "PFloatObj", "PComplexObj"):
        return k[1:] + ":" + (v[1][1] if v[1][0] == "Raises" else "ret")
    return k[1:]
