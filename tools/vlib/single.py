"""Correspondence + law evaluation for single-shot cases (one configuration, one input, one
observation) — the shape of the validation properties C01/C03.  Same reporting protocol as
hist.run, without history shrinking (a case is already minimal)."""
from . import coqrun


def _group(pairs):
    d = {}
    for i, code in pairs:
        d.setdefault(i, []).append(code)
    return d


def run(ctx, driver, cases, to_term, header, case_type, key_fn, describe, nontrivial, relation,
        sanitize=False, tag="cases", shard=1200, check_obs=None, driver_args=(), max_reports=25):
    """cases: JSON-able dicts; the driver returns one observation per case.  Coq side: `corr_codes`,
    `law_codes : case -> list Z`.  check_obs(case, obs) -> None | str (harness sanity)."""
    rc, obs, err = ctx.run_driver(driver, cases, sanitize=sanitize, args=driver_args)
    if rc != 0 or obs is None or len(obs) != len(cases):
        msg = "driver %s failed rc=%s: %s" % (driver, rc, err[-1500:])
        ctx.obligation("correspondence " + relation, False, msg[-800:])
        ctx.fail("harness/" + tag, "correspondence %s could not be evaluated: %s" % (relation, msg[-400:]),
                 dict(relation=relation, error=msg[-2000:]), no_input=True)
        return None
    if check_obs is not None:
        for c, o in zip(cases, obs):
            bad = check_obs(c, o)
            if bad:
                ctx.obligation("correspondence " + relation, False, bad)
                ctx.fail("harness/" + tag, "harness sanity check failed: " + bad, dict(case=c, obs=o), no_input=True)
                return None
    terms = [to_term(c, o) for c, o in zip(cases, obs)]
    try:
        corr, law = coqrun.eval_cases(ctx.scratch, tag, header, case_type, terms, ["corr_codes", "law_codes"],
                                      shard=shard)
    except coqrun.CoqError as e:
        msg = "%s\n%s" % (e, e.log)
        ctx.obligation("correspondence " + relation, False, msg[-800:])
        ctx.fail("harness/" + tag, "correspondence %s could not be evaluated: %s" % (relation, msg[-600:]),
                 dict(relation=relation, error=msg[-2000:]), no_input=True)
        return None
    for c, o in zip(cases, obs):
        sig, nt = nontrivial(c, o)
        ctx.case_seen(sig, nt)
    ctx.cov["traces_validated_against_impl"] += len(cases)
    lawg, corrg = _group(law), _group(corr)
    reported = {}
    violating = set()
    suppressed = 0
    for i in sorted(lawg):
        for code in sorted(lawg[i]):
            key = key_fn(cases[i], obs[i], code)
            is_known = any(e.get("status") == "known" and e.get("key") == key for e in ctx.known)
            if key not in reported and not is_known and len(ctx.violations) >= max_reports:
                reported[key] = "suppressed"          # enough distinct failing inputs reported; counted below
                suppressed += 1
            if key not in reported:
                reported[key] = ctx.fail(key, describe(cases[i], obs[i], code),
                                         dict(kind="law-failure-on-implementation", clause=code, case=cases[i],
                                              impl_obs=obs[i]))
            if reported[key] != "known":
                violating.add(i)
    if suppressed:
        ctx.notes.append("%d further distinct law failures not reported individually" % suppressed)
        print("(%d further distinct law failures on other inputs not listed)" % suppressed, flush=True)
    # model/implementation disagreements on cases without a reported violation (known findings do not hide them)
    bad_corr = [i for i in sorted(corrg) if i not in violating]
    ctx.obligation("correspondence " + relation, not corrg,
                   "%d of %d cases disagree" % (len(corrg), len(cases)) if corrg else
                   "model = implementation on %d cases" % len(cases))
    if bad_corr:
        i = bad_corr[0]
        code = sorted(corrg[i])[0]
        ctx.fail("corr/%s/field%d" % (relation, code),
                 "model and implementation disagree (%s, field %d) on %d cases, first: %s; the law holds on the "
                 "implementation's observations there, so the property is no longer shown" % (
                     relation, code, len(bad_corr), describe(cases[i], obs[i], 0)),
                 dict(kind="correspondence-broken", relation=relation, theorem_no_longer_applicable=relation,
                      field=code, case=cases[i], impl_obs=obs[i],
                      others=[dict(codes=sorted(corrg[j]), case=cases[j], impl_obs=obs[j]) for j in bad_corr[1:12]]),
                 no_input=True)
    return obs
