"""Generic correspondence + law evaluation for history-shaped properties.

A property module supplies
   cases      : list of JSON-able dicts, each with an "ops" list (the history)
   driver     : file under tools/drivers executing them on the implementation
   to_term    : (case, impl_obs) -> Gallina term of the property's `case` type
   key_fn     : (case, impl_obs, step, clause) -> canonical signature of a law failure
   describe   : (case, impl_obs, step, clause) -> one-line text
and the Coq side supplies `corr_codes` / `law_codes : case -> list Z` whose codes
are 100*step + clause.
"""
import copy

from . import coqrun


DRIVER_JOBS = {}      # driver file -> number of driver processes to run side by side (cases are independent of each other)


def _run_driver(ctx, driver, cases, sanitize):
    jobs = DRIVER_JOBS.get(driver, 1)
    if jobs <= 1 or len(cases) < 4 * jobs:
        return ctx.run_driver(driver, cases, sanitize=sanitize)
    import concurrent.futures
    n = (len(cases) + jobs - 1) // jobs
    chunks = [cases[i:i + n] for i in range(0, len(cases), n)]
    with concurrent.futures.ThreadPoolExecutor(max_workers=len(chunks)) as ex:
        res = list(ex.map(lambda ch: ctx.run_driver(driver, ch, sanitize=sanitize), chunks))
    obs = []
    for (rc, o, err), ch in zip(res, chunks):
        if rc != 0 or o is None or len(o) != len(ch):
            return rc or 1, None, err
        obs += o
    return 0, obs, ""


def evaluate(ctx, driver, cases, to_term, header, case_type, tag, sanitize=False, shard=1000):
    rc, obs, err = _run_driver(ctx, driver, cases, sanitize)
    if rc != 0 or obs is None or len(obs) != len(cases):
        return None, None, None, "driver %s failed rc=%s: %s" % (driver, rc, err[-1500:])
    terms = [to_term(c, o) for c, o in zip(cases, obs)]
    try:
        corr, law = coqrun.eval_cases(ctx.scratch, tag, header, case_type, terms,
                                      ["corr_codes", "law_codes"], shard=shard)
    except coqrun.CoqError as e:
        return obs, None, None, "%s\n%s" % (e, e.log)
    return obs, corr, law, None


def _group(pairs):
    d = {}
    for i, code in pairs:
        d.setdefault(i, []).append(code)
    return d


def shrink(ctx, driver, case, to_term, header, case_type, which, step, clause, rounds=3):
    """Smaller history that still fails the same clause (law or corr); batch evaluation."""
    best = copy.deepcopy(case)
    best["ops"] = best["ops"][:step + 1]
    for r in range(rounds):
        n = len(best["ops"])
        if n <= 1:
            break
        cands = []
        for j in range(n - 1):
            c = copy.deepcopy(best)
            del c["ops"][j]
            cands.append(c)
        if r == 0 and n > 2:
            c = copy.deepcopy(best)
            c["ops"] = c["ops"][-1:]
            cands.insert(0, c)
        obs, corr, law, err = evaluate(ctx, driver, cands, to_term, header, case_type, "shrink%d" % r)
        if err:
            break
        res = _group(law if which == "law" else corr)
        hit = None
        for i, c in enumerate(cands):
            if any(code % 100 == clause for code in res.get(i, [])):
                if hit is None or len(c["ops"]) < len(cands[hit]["ops"]):
                    hit = i
        if hit is None:
            break
        best = cands[hit]
    # final observation of the shrunk case
    obs, corr, law, err = evaluate(ctx, driver, [best], to_term, header, case_type, "shrinkfinal")
    if err:
        return case, None, step
    res = _group(law if which == "law" else corr).get(0, [])
    st = next((code // 100 for code in res if code % 100 == clause), None)
    if st is None:
        return case, None, step
    return best, obs[0], st


def run(ctx, driver, cases, to_term, header, case_type, key_fn, describe, nontrivial, relation,
        sanitize=False, tag="cases", do_shrink=True, shard=1000, first_step_only=False):
    """Evaluate all cases.  Reports failures through ctx.fail.  Returns number of cases evaluated."""
    obs, corr, law, err = evaluate(ctx, driver, cases, to_term, header, case_type, tag, sanitize=sanitize, shard=shard)
    if err:
        ctx.obligation("correspondence " + relation, False, err[-800:])
        ctx.fail("harness/" + tag, "correspondence %s could not be evaluated: %s" % (relation, err[-400:]),
                 dict(relation=relation, error=err[-2000:]), no_input=True)
        return 0
    for c, o in zip(cases, obs):
        sig, nt = nontrivial(c, o)
        ctx.case_seen(sig, nt)
    ctx.cov["traces_validated_against_impl"] += len(cases)
    lawg, corrg = _group(law), _group(corr)
    if first_step_only:
        # for laws whose failure persists along the history (state divergence): keep the earliest failing step
        for g in (lawg, corrg):
            for i in g:
                m = min(code // 100 for code in g[i])
                g[i] = [code for code in g[i] if code // 100 == m]
    reported = set()
    shrink_budget = [3]     # shrinking costs driver + coqc runs: only the first few distinct failures are minimised
    # (a) every implementation observation on which the law is false is a failing input
    for i in sorted(lawg):
        for code in sorted(lawg[i]):
            step, clause = code // 100, code % 100
            key = key_fn(cases[i], obs[i], step, clause)
            if key in reported:
                continue
            reported.add(key)
            known = any(e.get("status") == "known" and e.get("key") == key for e in ctx.known)
            case, ob, st = cases[i], obs[i], step
            if do_shrink and not known and shrink_budget[0] > 0:
                shrink_budget[0] -= 1
                case, ob2, st = shrink(ctx, driver, cases[i], to_term, header, case_type, "law", step, clause)
                ob = ob2 if ob2 is not None else obs[i]
                if ob2 is None:
                    case, st = cases[i], step
            ctx.fail(key, describe(case, ob, st, clause),
                     dict(kind="law-failure-on-implementation", clause=clause, step=st, case=case, impl_obs=ob))
    # (b) model and implementation disagree without a law failure on that case
    bad_corr = [i for i in sorted(corrg) if i not in lawg]
    ctx.obligation("correspondence " + relation, not corrg,
                   "%d of %d histories disagree" % (len(corrg), len(cases)) if corrg else
                   "model = implementation on %d histories" % len(cases))
    if bad_corr:
        i = bad_corr[0]
        code = sorted(corrg[i])[0]
        step, clause = code // 100, code % 100
        case, ob, st = cases[i], obs[i], step
        if do_shrink:
            case, ob2, st = shrink(ctx, driver, cases[i], to_term, header, case_type, "corr", step, clause)
            ob = ob2 if ob2 is not None else obs[i]
            if ob2 is None:
                case, st = cases[i], step
        ctx.fail("corr/%s/field%d" % (relation, clause),
                 "model and implementation disagree (%s, step %d, field %d) in %d histories; the law holds on "
                 "the implementation's observations there, so the property is no longer shown" % (
                     relation, st, clause, len(bad_corr)),
                 dict(kind="correspondence-broken", relation=relation, theorem_no_longer_applicable=relation,
                      field=clause, step=st, case=case, impl_obs=ob),
                 no_input=True)
    return len(cases)


# ---- added by b-lists: several case groups evaluated concurrently, reported sequentially -------------------
def report_results(ctx, driver, cases, obs, corr, law, err, to_term, header, case_type, key_fn, describe, nontrivial,
                   relation, tag="cases", do_shrink=True):
    """The reporting half of `run` for results obtained from `evaluate` (same protocol, same messages)."""
    if err:
        ctx.obligation("correspondence " + relation, False, err[-800:])
        ctx.fail("harness/" + tag, "correspondence %s could not be evaluated: %s" % (relation, err[-400:]),
                 dict(relation=relation, error=err[-2000:]), no_input=True)
        return 0
    for c, o in zip(cases, obs):
        sig, nt = nontrivial(c, o)
        ctx.case_seen(sig, nt)
    ctx.cov["traces_validated_against_impl"] += len(cases)
    lawg, corrg = _group(law), _group(corr)
    reported = set()
    for i in sorted(lawg):
        for code in sorted(lawg[i]):
            step, clause = code // 100, code % 100
            key = key_fn(cases[i], obs[i], step, clause)
            if key in reported:
                continue
            reported.add(key)
            known = any(e.get("status") == "known" and e.get("key") == key for e in ctx.known)
            case, ob, st = cases[i], obs[i], step
            if do_shrink and not known:
                case, ob2, st = shrink(ctx, driver, cases[i], to_term, header, case_type, "law", step, clause)
                ob = ob2 if ob2 is not None else obs[i]
                if ob2 is None:
                    case, st = cases[i], step
            ctx.fail(key, describe(case, ob, st, clause),
                     dict(kind="law-failure-on-implementation", clause=clause, step=st, case=case, impl_obs=ob))
    bad_corr = [i for i in sorted(corrg) if i not in lawg]
    ctx.obligation("correspondence " + relation, not corrg,
                   "%d of %d histories disagree" % (len(corrg), len(cases)) if corrg else
                   "model = implementation on %d histories" % len(cases))
    if bad_corr:
        i = bad_corr[0]
        code = sorted(corrg[i])[0]
        step, clause = code // 100, code % 100
        case, ob, st = cases[i], obs[i], step
        if do_shrink:
            case, ob2, st = shrink(ctx, driver, cases[i], to_term, header, case_type, "corr", step, clause)
            ob = ob2 if ob2 is not None else obs[i]
            if ob2 is None:
                case, st = cases[i], step
        ctx.fail("corr/%s/field%d" % (relation, clause),
                 "model and implementation disagree (%s, step %d, field %d) in %d histories; the law holds on "
                 "the implementation's observations there, so the property is no longer shown" % (
                     relation, st, clause, len(bad_corr)),
                 dict(kind="correspondence-broken", relation=relation, theorem_no_longer_applicable=relation,
                      field=clause, step=st, case=case, impl_obs=ob),
                 no_input=True)
    return len(cases)


def run_parallel(ctx, jobs, workers=6):
    """jobs: list of dicts with the keyword arguments of `run` (driver, cases, to_term, header, case_type, key_fn,
    describe, nontrivial, relation, tag).  The driver runs and the in-Coq evaluations of all jobs proceed
    concurrently; the results are reported in job order, exactly as `run` does."""
    import concurrent.futures
    ctx.build_impl()          # once, before the threads start

    def ev(j):
        return evaluate(ctx, j["driver"], j["cases"], j["to_term"], j["header"], j["case_type"], j.get("tag", "cases"))

    with concurrent.futures.ThreadPoolExecutor(max_workers=workers) as ex:
        results = list(ex.map(ev, jobs))
    total = 0
    for j, (obs, corr, law, err) in zip(jobs, results):
        total += report_results(ctx, j["driver"], j["cases"], obs, corr, law, err, j["to_term"], j["header"],
                                j["case_type"], j["key_fn"], j["describe"], j["nontrivial"], j["relation"],
                                tag=j.get("tag", "cases"), do_shrink=j.get("do_shrink", True))
    return total
