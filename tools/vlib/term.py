"""Python values -> Gallina terms (the only way case data enters Coq).

    int            -> (n)            (Z; the generated file opens Z_scope)
    Nat(n)         -> n%nat
    bool           -> true / false
    None           -> None
    Some(x)        -> (Some x)
    list           -> [a; b; c]
    tuple          -> (a, b, c)
    C("K", a, b)   -> (K a b)        (constructor / function application)
    Raw("text")    -> text           (verbatim)
"""


class Nat(int):
    pass


class Some:
    __slots__ = ("x",)

    def __init__(self, x):
        self.x = x

    def __repr__(self):
        return "Some(%r)" % (self.x,)


class C:
    __slots__ = ("name", "args")

    def __init__(self, name, *args):
        self.name = name
        self.args = args

    def __repr__(self):
        return "C(%r%s)" % (self.name, "".join(", %r" % (a,) for a in self.args))


class Raw(str):
    pass


def opt(x):
    return None if x is None else Some(x)


def coq(t):
    if isinstance(t, Raw):
        return str(t)
    if isinstance(t, bool):
        return "true" if t else "false"
    if isinstance(t, Nat):
        return "%d%%nat" % int(t)
    if isinstance(t, int):
        return "%d" % t if t >= 0 else "(%d)" % t
    if t is None:
        return "None"
    if isinstance(t, Some):
        return "(Some %s)" % coq(t.x)
    if isinstance(t, list):
        return "[" + "; ".join(coq(x) for x in t) + "]"
    if isinstance(t, tuple):
        if len(t) < 2:
            raise ValueError("tuple of length < 2 has no Gallina form: %r" % (t,))
        return "(" + ", ".join(coq(x) for x in t) + ")"
    if isinstance(t, C):
        if not t.args:
            return t.name
        return "(" + t.name + " " + " ".join(coq(a) for a in t.args) + ")"
    raise TypeError("no Gallina form for %r" % (t,))


def jsonable(t):
    """Same structure as readable JSON (for replay files and evidence samples)."""
    if isinstance(t, Raw):
        return str(t)
    if isinstance(t, (bool, int)) or t is None:
        return int(t) if isinstance(t, Nat) else t
    if isinstance(t, Some):
        return {"Some": jsonable(t.x)}
    if isinstance(t, (list, tuple)):
        return [jsonable(x) for x in t]
    if isinstance(t, C):
        return {t.name: [jsonable(a) for a in t.args]} if t.args else t.name
    if isinstance(t, str):
        return t
    if isinstance(t, dict):
        return {str(k): jsonable(v) for k, v in t.items()}
    return repr(t)
