"""Running Coq: the library build, the per-property Props.v re-check, generated
obligation files and the in-Coq correspondence evaluation (cases embedded as a
Gallina list, `Eval vm_compute` printing (index, code) pairs)."""
import concurrent.futures
import os
import re
import subprocess
import time

from .term import coq as to_coq

VERIF = os.path.dirname(os.path.dirname(os.path.dirname(os.path.abspath(__file__))))
COQDIR = os.path.join(VERIF, "coq")
ROOT = "TV"
QFLAGS = ["-Q", COQDIR, ROOT]


class CoqError(Exception):
    def __init__(self, msg, log=""):
        super().__init__(msg)
        self.log = log


def ensure_built(jobs=16, timeout=1800, targets=()):
    """`make [targets]` in coq/ under a lock (all files when no target is given). Returns (ok, log)."""
    try:
        r = subprocess.run(["bash", os.path.join(COQDIR, "build.sh"), str(jobs)] + list(targets),
                           capture_output=True, text=True, timeout=timeout)
    except subprocess.TimeoutExpired:
        return False, "coq build timed out after %ss" % timeout
    return r.returncode == 0, (r.stdout + r.stderr)[-6000:]


def coqc(path, outdir=None, timeout=600, extra_q=()):
    """Compile one file. Returns (returncode, stdout, stderr, seconds)."""
    cmd = ["coqc"] + QFLAGS
    for d, n in extra_q:
        cmd += ["-Q", d, n]
    if outdir is not None:
        cmd += ["-o", os.path.join(outdir, os.path.basename(path)[:-2] + ".vo")]
    cmd.append(path)
    t0 = time.time()
    try:
        r = subprocess.run(["bash", "-c", 'ulimit -s unlimited 2>/dev/null; exec "$@"', "coqc"] + cmd,
                           capture_output=True, text=True, timeout=timeout)
        return r.returncode, r.stdout, r.stderr, time.time() - t0
    except subprocess.TimeoutExpired as e:
        return 124, (e.stdout or b"").decode() if isinstance(e.stdout, bytes) else (e.stdout or ""), \
            "timeout after %ss" % timeout, time.time() - t0


_THM = re.compile(r"^\s*(?:Theorem|Lemma|Corollary)\s+([A-Za-z_][A-Za-z0-9_']*)", re.M)
_EX = re.compile(r"^\s*Example\s+([A-Za-z_][A-Za-z0-9_']*)", re.M)


def strip_comments(text):
    out, depth, i = [], 0, 0
    while i < len(text):
        if text.startswith("(*", i):
            depth += 1
            i += 2
        elif text.startswith("*)", i) and depth:
            depth -= 1
            i += 2
        else:
            if depth == 0:
                out.append(text[i])
            i += 1
    return "".join(out)


def check_props(files, scratch, extra_q=(), timeout=900):
    """Re-compile the Props file(s) of a property *now* and collect, per theorem,
    what `Print Assumptions` says.  Returns dict:
       theorems: [names], examples: [names], assumptions: {name: text},
       ok: bool, log: str, seconds: float
    A theorem counts as discharged iff the file compiled and its
    Print Assumptions block is present in the output."""
    res = dict(theorems=[], examples=[], assumptions={}, ok=True, log="", seconds=0.0, files=[])
    for f in files:
        path = f if os.path.isabs(f) else os.path.join(COQDIR, f)
        src = strip_comments(open(path).read())
        thms = _THM.findall(src)
        exs = _EX.findall(src)
        rc, out, err, secs = coqc(path, outdir=scratch, timeout=timeout, extra_q=extra_q)
        res["seconds"] += secs
        res["files"].append(os.path.relpath(path, VERIF) if path.startswith(VERIF) else path)
        res["theorems"] += thms
        res["examples"] += exs
        if rc != 0:
            res["ok"] = False
            res["log"] += "coqc %s failed (rc=%d):\n%s\n" % (path, rc, (out + err)[-4000:])
            continue
        # Print Assumptions output: blocks in order of appearance
        blocks = _split_assumption_blocks(out)
        pa = re.findall(r"Print\s+Assumptions\s+([A-Za-z_][A-Za-z0-9_'.]*)\s*\.", src)
        for name, blk in zip(pa, blocks):
            res["assumptions"][name.split(".")[-1]] = blk
    return res


def _split_assumption_blocks(out):
    blocks, cur = [], None
    for line in out.splitlines():
        if line.startswith("Closed under the global context"):
            if cur is not None:
                blocks.append("\n".join(cur))
                cur = None
            blocks.append("Closed under the global context")
        elif line.startswith("Axioms:"):
            if cur is not None:
                blocks.append("\n".join(cur))
            cur = [line]
        elif cur is not None:
            if line.strip() == "" or line.startswith("     = "):
                blocks.append("\n".join(cur))
                cur = None
            else:
                cur.append(line)
    if cur is not None:
        blocks.append("\n".join(cur))
    return blocks


_PAIR = re.compile(r"\(\s*(-?\d+)(?:%Z)?\s*,\s*(-?\d+)(?:%Z)?\s*\)")
_EVAL = re.compile(r"=\s*(\[.*?\]|nil)\s*:\s*list", re.S)


def parse_pair_lists(out):
    """All `= [...] : list (Z * Z)` answers in a coqc output, as lists of pairs."""
    res = []
    for m in _EVAL.finditer(out):
        res.append([(int(a), int(b)) for a, b in _PAIR.findall(m.group(1))])
    return res


def run_script(scratch, name, text, timeout=900, extra_q=()):
    path = os.path.join(scratch, name)
    with open(path, "w") as f:
        f.write(text)
    return coqc(path, outdir=scratch, timeout=timeout, extra_q=extra_q)


def eval_cases(scratch, tag, header, case_type, cases, evals, shard=1500, timeout=900,
               jobs=16, extra_q=()):
    """cases: list of python terms (see term.py).  evals: list of Gallina function
    names of type `case_type -> list Z`.  Returns [ [(global_index, code), ...] per eval ].
    Raises CoqError if a shard does not compile (that is a harness/model failure,
    reported by the caller as a broken correspondence)."""
    shards = [cases[i:i + shard] for i in range(0, len(cases), shard)] or [[]]
    texts = []
    for k, sh in enumerate(shards):
        body = ";\n".join("  " + to_coq(c) for c in sh)
        t = [header, "Import ListNotations.", "Open Scope Z_scope.",
             "Definition cases : list (%s) := [\n%s\n]." % (case_type, body),
             "Set Printing Width 1000000.", "Set Printing Depth 1000000."]
        for e in evals:
            t.append("Eval vm_compute in (TV.Common.Harness.report (%s) cases)." % e)
        texts.append(("%s_%03d.v" % (tag, k), "\n".join(t) + "\n"))
    results = [[] for _ in evals]

    def one(k):
        name, text = texts[k]
        return k, run_script(scratch, name, text, timeout=timeout, extra_q=extra_q)

    # how many coqc processes at once: a shard can need more than 1 GB, and several checks may run side by side
    try:
        with open("/proc/meminfo") as f:
            avail_gb = [int(l.split()[1]) for l in f if l.startswith("MemAvailable")][0] // (1024 * 1024)
        jobs = max(1, min(jobs, avail_gb // 3))
    except Exception:
        pass
    with concurrent.futures.ThreadPoolExecutor(max_workers=jobs) as ex:
        done = list(ex.map(one, range(len(texts))))
    # a shard whose coqc was killed from outside (out of memory, rc < 0 or 137) or timed out under load says nothing
    # about the model: evaluate it once more, alone
    for i, (k, (rc, out, err, secs)) in enumerate(done):
        if rc != 0 and (rc < 0 or rc in (137, 124) or "timeout after" in err or "Out of memory" in err
                        or "Stack overflow" in err):
            done[i] = one(k)
    if True:
        for k, (rc, out, err, secs) in done:
            if rc != 0:
                raise CoqError("case shard %s does not evaluate" % texts[k][0], (out + err)[-4000:])
            lists = parse_pair_lists(out)
            if len(lists) != len(evals):
                raise CoqError("unexpected coqc output for %s" % texts[k][0], out[-4000:])
            for j, l in enumerate(lists):
                results[j] += [(k * shard + i, code) for i, code in l]
    return results


def check_props_parallel(files, scratch, extra_q=(), timeout=900, jobs=4):
    """Like check_props, but the Props files are re-compiled concurrently (one coqc each) and the results merged
    in the order of `files`.  For properties whose theorems are spread over several Props files."""
    with concurrent.futures.ThreadPoolExecutor(max_workers=jobs) as ex:
        parts = list(ex.map(lambda f: check_props([f], scratch, extra_q=extra_q, timeout=timeout), files))
    res = dict(theorems=[], examples=[], assumptions={}, ok=True, log="", seconds=0.0, files=[])
    for r in parts:
        res["theorems"] += r["theorems"]
        res["examples"] += r["examples"]
        res["assumptions"].update(r["assumptions"])
        res["ok"] = res["ok"] and r["ok"]
        res["log"] += r["log"]
        res["seconds"] = max(res["seconds"], r["seconds"])
        res["files"] += r["files"]
    return res

