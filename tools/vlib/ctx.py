"""One run of one check: scratch dir, implementation build, proof status,
failure reporting (VIOLATION / KNOWN-FINDING protocol), evidence file."""
import json
import os
import shutil
import subprocess
import sys
import tempfile
import time
import traceback

from . import build_impl, coqrun
from .term import jsonable

VERIF = coqrun.VERIF
EVID = os.environ.get("VERIF_EVIDENCE_DIR") or os.path.join(VERIF, "evidence")
REPLAYS = os.path.join(EVID, "replays")
KNOWN = os.path.join(VERIF, "known_findings.json")

KERNEL_TB = [
    "Coq 8.16.1 kernel and coqc; vm_compute (bytecode VM) used for finite-case lemmas and for the "
    "correspondence evaluation; native_compute is not used",
    "no extraction: the model is evaluated inside Coq, so there is no Extract Constant / Extract Inductive directive",
    "tools/vlib (case writer term.py, coqrun.py reader of (index, code) lists, build_impl.py scratch build of ctraits.c with gcc)",
]


def load_known(prop):
    """known_findings.json (+ known_findings.d/*.json while properties are being built)."""
    out = []
    files = [KNOWN] if os.path.exists(KNOWN) else []
    d = os.path.join(VERIF, "known_findings.d")
    if os.path.isdir(d):
        files += sorted(os.path.join(d, f) for f in os.listdir(d) if f.endswith(".json"))
    for f in files:
        out += [e for e in json.load(open(f)) if e.get("property") == prop]
    return out


class Ctx:
    def __init__(self, prop, tier, seed, replay=None):
        self.prop = prop
        self.tier = tier
        self.seed = seed
        self.replay = replay
        self.t0 = time.time()
        self.scratch = tempfile.mkdtemp(prefix="verif_%s_" % prop, dir=os.environ.get("VERIF_SCRATCH", "/var/tmp"))
        self.impl = None
        self.asan = None
        self.known = load_known(prop)
        self.violations = []     # (key, replay_path, no_input)
        self.known_seen = {}     # key -> what
        self.cov = dict(evaluations=0, distinct_nontrivial=0, rule="", samples=[],
                        obligations=0, discharged=0, checker_cmd="", trusted_base=list(KERNEL_TB),
                        traces_validated_against_impl=0, exhaustive=False)
        self.obl = []            # (name, ok, note)
        self.assumptions = []
        self.hist = {}
        self._distinct = set()
        self.notes = []

    # ----- builds --------------------------------------------------------
    def build_impl(self, sanitize=False):
        if sanitize:
            if self.asan is None:
                self.asan = build_impl.build(self.scratch, True)
            return self.asan
        if self.impl is None:
            self.impl = build_impl.build(self.scratch, False)
        return self.impl

    def env(self, sanitize=False, extra=None):
        return build_impl.impl_env(self.build_impl(sanitize), sanitize, extra)

    def run_driver(self, driver, payload, sanitize=False, timeout=1800, args=()):
        """Run tools/drivers/<driver> under the scratch build: JSON in on stdin, JSON out on stdout.
        Returns (returncode, parsed_or_None, stderr_tail)."""
        path = os.path.join(VERIF, "tools", "drivers", driver)
        try:
            r = subprocess.run([build_impl.PY, path] + list(args), input=json.dumps(payload),
                               capture_output=True, text=True, env=self.env(sanitize), timeout=timeout)
        except subprocess.TimeoutExpired:
            return 124, None, "driver timeout"
        out = None
        if r.stdout.strip():
            try:
                out = json.loads(r.stdout)
            except Exception:
                out = None
        return r.returncode, out, r.stderr[-4000:]

    # ----- proofs --------------------------------------------------------
    def proofs(self, files, extra_q=(), targets=()):
        """Build of the property's part of the library (its Props/Corr files and what they depend on)
        + re-check of the Props file(s).  Every theorem is one obligation."""
        tg = [f[:-2] + ".vo" for f in files] + list(targets)
        corr = os.path.join(os.path.dirname(files[0]), "Corr.v")
        if os.path.exists(os.path.join(coqrun.COQDIR, corr)):
            tg.append(corr[:-2] + ".vo")
        ok, log = coqrun.ensure_built(targets=tg)
        if not ok:
            self.notes.append("library build failed: " + log[-1500:])
        res = coqrun.check_props(files, self.scratch, extra_q=extra_q)
        for t in res["theorems"]:
            good = ok and res["ok"] and t in res["assumptions"]
            self.obligation("theorem " + t, good, res["assumptions"].get(t, "not checked"))
        self.cov["checker_cmd"] = "make -C coq (coq_makefile, full .vo build) && coqc -Q coq TV " + " ".join(res["files"])
        self.cov.setdefault("examples_nonvacuity", [])
        self.cov["examples_nonvacuity"] += res["examples"]
        for t, a in res["assumptions"].items():
            self.assumptions.append("%s: %s" % (t, " ".join(a.split())))
        if not (ok and res["ok"]):
            self.notes.append(res["log"][-3000:])
        return ok and res["ok"], (log if not ok else "") + res["log"]

    def obligation(self, name, ok, note=""):
        self.obl.append((name, bool(ok), note))

    # ----- coverage ------------------------------------------------------
    def count(self, key, n=1):
        self.hist[key] = self.hist.get(key, 0) + n

    def case_seen(self, signature, nontrivial):
        self.cov["evaluations"] += 1
        if nontrivial:
            self._distinct.add(signature)

    def sample(self, obj, limit=4):
        if len(self.cov["samples"]) < limit:
            self.cov["samples"].append(jsonable(obj))

    # ----- failures ------------------------------------------------------
    def fail(self, key, what, replay_obj, no_input=False):
        """A property failure with canonical signature `key`.  Listed known finding -> KNOWN-FINDING line;
        anything else -> VIOLATION (once per key)."""
        for e in self.known:
            if e.get("status") == "known" and e.get("key") == key:
                if key not in self.known_seen:
                    self.known_seen[key] = what
                    print("KNOWN-FINDING: property=%s %s [%s]" % (self.prop, e.get("what", what), key), flush=True)
                return "known"
        if any(v[0] == key for v in self.violations):
            return "dup"
        os.makedirs(REPLAYS, exist_ok=True)
        safe = "".join(ch if ch.isalnum() or ch in "-_." else "_" for ch in key)[:80]
        path = os.path.join(REPLAYS, "%s-%s.json" % (self.prop, safe))
        with open(path, "w") as f:
            json.dump(dict(property=self.prop, key=key, what=what, seed=self.seed, tier=self.tier,
                           no_failing_input_found=bool(no_input), replay=jsonable(replay_obj)), f, indent=1)
        self.violations.append((key, path, no_input))
        print("%s: %s" % (key, what), flush=True)
        print("VIOLATION property=%s replay=%s%s" % (self.prop, path, " no-failing-input-found" if no_input else ""),
              flush=True)
        return "violation"

    # ----- end -----------------------------------------------------------
    def finish(self):
        # safety net: an obligation that is no longer discharged is never silent.  (A run whose failures were all
        # attributed to known-finding keys but whose correspondence or proof obligations broke is a different
        # violation of the property than the one the file lists.)
        undischarged = [(n, note) for n, ok, note in self.obl if not ok]
        if undischarged and not self.violations:
            self.fail("obligations/undischarged",
                      "%d obligation(s) no longer discharged and no failing input attributed: %s" % (
                          len(undischarged), "; ".join("%s [%s]" % (n, str(note)[:120]) for n, note in undischarged[:4])),
                      dict(kind="obligations-undischarged",
                           obligations=[dict(name=n, note=str(note)[:2000]) for n, note in undischarged]),
                      no_input=True)
        cov = self.cov
        # keep the evidence inside EVIDENCE.schema.json whatever a property module put there
        if "exhaustive" in cov and not isinstance(cov["exhaustive"], bool):
            cov["exhaustive_bound"] = str(cov["exhaustive"])
            cov["exhaustive"] = True
        for k in ("evaluations", "distinct_nontrivial", "traces_validated_against_impl", "states", "transitions"):
            if k in cov and not isinstance(cov[k], int):
                cov[k] = int(cov[k])
        cov["obligations"] = len(self.obl)
        cov["discharged"] = sum(1 for o in self.obl if o[1])
        cov["obligation_list"] = [dict(name=n, discharged=ok, assumptions=note) for n, ok, note in self.obl]
        cov["distinct_nontrivial"] = len(self._distinct)
        cov["input_distribution"] = dict(sorted(self.hist.items()))
        cov["known_findings_seen"] = sorted(self.known_seen)
        cov["trusted_base"] = cov["trusted_base"] + ["Print Assumptions: " + a for a in self.assumptions]
        if self.notes:
            cov["notes"] = self.notes
        ev = dict(property_id=self.prop, tier=self.tier, seed=self.seed, level="proof", coverage=cov,
                  assumptions=getattr(self, "assume", []), wall_s=round(time.time() - self.t0, 2),
                  violations=len(self.violations))
        os.makedirs(EVID, exist_ok=True)
        if not self.replay:
            with open(os.path.join(EVID, self.prop + ".json"), "w") as f:
                json.dump(ev, f, indent=1, sort_keys=True)
        return 1 if self.violations else 0

    def cleanup(self):
        shutil.rmtree(self.scratch, ignore_errors=True)


def main(prop, run, argv=None):
    import argparse
    ap = argparse.ArgumentParser()
    ap.add_argument("--tier", default=os.environ.get("VERIF_TIER", "quick"), choices=["quick", "thorough"])
    ap.add_argument("--seed", type=int, default=int(os.environ.get("VERIF_SEED", "20260926") or 0))
    ap.add_argument("--replay", default=None)
    a = ap.parse_args(argv)
    ctx = Ctx(prop, a.tier, a.seed, a.replay)
    rc = 2
    try:
        try:
            ctx.build_impl()
        except build_impl.BuildError as e:
            print("BROKEN-BUILD: /repo's working tree does not build/import: %s" % e, flush=True)
            return 2
        run(ctx)
        rc = ctx.finish()
        print("%s %s: %d evaluations, %d/%d obligations discharged, %d violation(s), %d known finding(s), %.1fs" % (
            prop, a.tier, ctx.cov["evaluations"], ctx.cov["discharged"], ctx.cov["obligations"],
            len(ctx.violations), len(ctx.known_seen), time.time() - ctx.t0), flush=True)
    except Exception:
        traceback.print_exc()
        print("CHECK-ERROR: the check itself failed (no verdict)", flush=True)
        rc = 2
    finally:
        ctx.cleanup()
    return rc


def proof_gate(ctx, ok, log, files):
    """A Props file that no longer compiles is a broken obligation: reported as a violation
    without failing input unless the run already found a concrete failing input."""
    if ok:
        return
    if any(not v[2] for v in ctx.violations):
        return
    ctx.fail("proof/" + "+".join(files), "proof obligations no longer check: " + log[-600:],
             dict(kind="proof-broken", files=list(files), log=log[-3000:]), no_input=True)
