"""hist.run for observations the caller already collected (own file so that concurrent edits of hist.py by
other builders cannot touch it).  Used by C18 and C14."""
from . import coqrun
from .hist import _group, shrink


def run_given(ctx, driver, cases, obs, to_term, header, case_type, key_fn, describe, nontrivial, relation,
              tag="cases", do_shrink=True, shard=1000):
    """Same reporting as `run`, for observations the caller has already collected (e.g. because it ran the
    driver itself to localise a crash).  `driver` is only used for shrinking.  (added for C18/C14)"""
    terms = [to_term(c, o) for c, o in zip(cases, obs)]
    try:
        corr, law = coqrun.eval_cases(ctx.scratch, tag, header, case_type, terms, ["corr_codes", "law_codes"],
                                      shard=shard)
    except coqrun.CoqError as e:
        err = "%s\n%s" % (e, e.log)
        ctx.obligation("correspondence " + relation, False, err[-800:])
        ctx.fail("harness/" + tag, "correspondence %s could not be evaluated: %s" % (relation, err[-400:]),
                 dict(relation=relation, error=err[-2000:]), no_input=True)
        return 0
    for c, o in zip(cases, obs):
        sig, nt = nontrivial(c, o)
        ctx.case_seen(sig, nt)
    ctx.cov["traces_validated_against_impl"] += len(cases)
    lawg, corrg = _group(law), _group(corr)
    reported = set()
    shrink_budget = [3]     # only the first few distinct failures are minimised
    for i in sorted(lawg):
        for code in sorted(lawg[i]):
            step, clause = code // 100, code % 100
            key = key_fn(cases[i], obs[i], step, clause)
            if key in reported:
                continue
            reported.add(key)
            known = any(e.get("status") == "known" and e.get("key") == key for e in ctx.known)
            case, ob, st = cases[i], obs[i], step
            if do_shrink and not known and shrink_budget[0] > 0:
                shrink_budget[0] -= 1
                case, ob2, st = shrink(ctx, driver, cases[i], to_term, header, case_type, "law", step, clause)
                ob = ob2 if ob2 is not None else obs[i]
                if ob2 is None:
                    case, st = cases[i], step
            ctx.fail(key, describe(case, ob, st, clause),
                     dict(kind="law-failure-on-implementation", clause=clause, step=st, case=case, impl_obs=ob))
    bad_corr = [i for i in sorted(corrg) if i not in lawg]
    ctx.obligation("correspondence " + relation, not corrg,
                   "%d of %d histories disagree" % (len(corrg), len(cases)) if corrg else
                   "model = implementation on %d histories" % len(cases))
    if bad_corr:
        i = bad_corr[0]
        code = sorted(corrg[i])[0]
        step, clause = code // 100, code % 100
        case, ob, st = cases[i], obs[i], step
        if do_shrink:
            case, ob2, st = shrink(ctx, driver, cases[i], to_term, header, case_type, "corr", step, clause)
            ob = ob2 if ob2 is not None else obs[i]
            if ob2 is None:
                case, st = cases[i], step
        ctx.fail("corr/%s/field%d" % (relation, clause),
                 "model and implementation disagree (%s, step %d, field %d) in %d histories; the law holds on "
                 "the implementation's observations there, so the property is no longer shown" % (
                     relation, st, clause, len(bad_corr)),
                 dict(kind="correspondence-broken", relation=relation, theorem_no_longer_applicable=relation,
                      field=clause, step=st, case=case, impl_obs=ob),
                 no_input=True)
    return len(cases)
