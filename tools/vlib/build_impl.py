"""Build the implementation under test from /repo's *current working tree*.

A scratch copy of /repo/traits (without compiled objects and tests) is made and
traits/ctraits.c is compiled there, so the check never runs a stale .so and
never writes into /repo.
"""
import os
import subprocess
import sysconfig

REPO = os.environ.get("VERIF_REPO", "/repo")
PY = "/venv/bin/python"


class BuildError(Exception):
    pass


def _pyinfo():
    out = subprocess.check_output(
        [PY, "-c",
         "import sysconfig;print(sysconfig.get_paths()['include']);"
         "print(sysconfig.get_config_var('EXT_SUFFIX'))"], text=True).split("\n")
    return out[0].strip(), out[1].strip()


def build(scratch, sanitize=False):
    """Returns the directory to put on PYTHONPATH."""
    dst = os.path.join(scratch, "asan" if sanitize else "impl")
    os.makedirs(dst, exist_ok=True)
    r = subprocess.run(
        ["rsync", "-a", "--exclude", "*.so", "--exclude", "__pycache__",
         "--exclude", "tests", os.path.join(REPO, "traits"), dst + "/"],
        capture_output=True, text=True)
    if r.returncode != 0:
        raise BuildError("rsync failed: " + r.stderr)
    inc, ext = _pyinfo()
    src = os.path.join(dst, "traits", "ctraits.c")
    out = os.path.join(dst, "traits", "ctraits" + ext)
    if sanitize:
        cmd = ["clang", "-O1", "-g", "-fno-omit-frame-pointer",
               "-fsanitize=address,undefined", "-fno-sanitize-recover=undefined",
               "-shared", "-fPIC", "-I" + inc, src, "-o", out]
    else:
        cmd = ["gcc", "-O1", "-shared", "-fPIC", "-I" + inc, src, "-o", out]
    r = subprocess.run(cmd, capture_output=True, text=True, timeout=300)
    if r.returncode != 0:
        raise BuildError("ctraits.c does not compile:\n" + r.stderr[-3000:])
    env = impl_env(dst, sanitize)
    r = subprocess.run([PY, "-c", "import traits.api, traits.ctraits as c; print(c.__file__)"],
                       capture_output=True, text=True, env=env, timeout=120)
    if r.returncode != 0 or not r.stdout.strip().startswith(dst):
        raise BuildError("scratch build does not import:\n" + r.stdout + r.stderr[-3000:])
    return dst


def impl_env(dst, sanitize=False, extra=None):
    env = dict(os.environ)
    env["PYTHONPATH"] = dst + os.pathsep + os.path.join(os.path.dirname(os.path.dirname(os.path.abspath(__file__))))
    env["PYTHONHASHSEED"] = "0"
    env["PYTHONDONTWRITEBYTECODE"] = "1"
    env.pop("ENTHOUGHT_TRAITS_VERIF", None)
    if sanitize:
        rt = subprocess.check_output(
            ["clang", "-print-file-name=libclang_rt.asan-x86_64.so"], text=True).strip()
        env["LD_PRELOAD"] = rt
        env["ASAN_OPTIONS"] = "detect_leaks=0:abort_on_error=0:exitcode=66"
        env["UBSAN_OPTIONS"] = "halt_on_error=1:exitcode=67:print_stacktrace=1"
    if extra:
        env.update(extra)
    return env
