"""C03 — compiled fast validators decide exactly like the Python validators."""
import json
import os
import random

from vlib import pyval as pv
from vlib import single, t2
from vlib.ctx import proof_gate

IMPORTS = "From Coq Require Import ZArith List.\nFrom TV Require Import Common.PyVal Common.Harness C03.Model C03.Law C03.Corr."
CASE_T = "C03.Corr.case"
PROPS = ["C03/Props.v"]
CLAUSE = {1: "accept-set", 2: "same-value-and-type", 3: "python-rejects-c-does-not", 4: "declaration-order"}
RELATION = "C03.Corr.corr_codes (c_validate = CTrait.validate, py_validate = handler.validate, alternatives alone)"


def to_term(case, ob):
    env = pv.env_term(110, ob["orc"], ob["re"])
    o = (pv.vres_term(ob["c"]), pv.opt(None if ob["p"] is None else pv.vres_term(ob["p"])),
         pv.opt(None if ob["alts"] is None else [pv.vres_term(a) for a in ob["alts"]]))
    return (env, pv.desc_term(ob.get("d", case["d"])), pv.val_term(case["v"]), o)


def _untag(j):
    """the value with every tuple-subclass tag replaced by the exact tuple tag"""
    if j[0] in ("PTuple", "PTupleSub"):
        return ["PTuple", [_untag(x) for x in j[1]]]
    if j[0] == "PList":
        return ["PList", [_untag(x) for x in j[1]]]
    return j


def key_fn(case, ob, clause):
    d, v = case["d"], case["v"]
    c, p = ob["c"], ob["p"]
    if clause == 2 and c[0] == "Accept" and p and p[0] == "Accept" and c[1] != p[1] and _untag(c[1]) == _untag(p[1]):
        return "same-value-and-type/tuple-subclass-returned-unchanged"                       # F4
    if clause == 4 and d[0] == "DCompound" and ob["alts"]:
        # F5: the compound is exactly the first non-rejecting alternative of the order "fast ones, then slow ones"
        eff = [a for j, a in enumerate(ob["alts"]) if pv.is_fast(d[1][j])] + \
              [a for j, a in enumerate(ob["alts"]) if not pv.is_fast(d[1][j])]
        first_eff = next((a for a in eff if a[0] != "Reject"), ["Reject"])
        first_decl = next((a for a in ob["alts"] if a[0] != "Reject"), ["Reject"])
        if first_eff == c and first_decl != c and any(not pv.is_fast(x) for x in d[1]):
            return "declaration-order/fast-alternative-before-earlier-slow-one"               # F5
    def flat(x):        # the alternatives of a compound through nested compounds
        out = []
        for a in x[1]:
            out += flat(a) if a[0] == "DCompound" else [a]
        return out
    if d[0] == "DCompound" and clause in (2, 4) and c[0] == "Accept" and p and p[0] == "Accept" and p[1] == ["PNone"] \
            and any(a[0] == "DAdapt" and a[2] == 2 for a in flat(d)) and ob.get("d") is not None \
            and any(a[0] == "DAdapt" and a[2] == 2 and a[4] == c[1] for a in flat(ob["d"])):
        return "same-value-and-type/adapt-default-inside-compound-returns-the-compound-default"   # F21
    if clause == 1 and d[0] == "DCompound" and c[0] == "Accept" and p == ["Propagate", "EOtherError"] and \
            v[0] == "PIndexObj" and any(a[0] == "DCast" and a[1] in ("CTInt", "CTFloat", "CTComplex") for a in flat(d)):
        return "accept-set/compound-cast-swallows-own-protocol-exception-in-c-only"          # residue of F17
    insts = [d] if d[0] == "DInstance" else ([a for a in d[1] if a[0] == "DInstance"] if d[0] == "DCompound" else [])
    if clause in (1, 3) and any(not a[2] and a[1] in (0, 1) for a in insts) and v == ["PNone"] and c == ["Accept", ["PNone"]] and p == ["Reject"]:
        return "accept-set/none-is-instance-of-class-but-allow_none-false"                   # F18
    return "%s/%s/%s" % (CLAUSE.get(clause, clause), pv.shape(d), pv.vshape(v))


def describe(case, ob, clause):
    return "trait %s, value %s: clause %s: compiled path %r, Python path %r, alternatives alone %r" % (
        pv.shape(case["d"]), json.dumps(case["v"])[:120], CLAUSE.get(clause, "model-vs-implementation"),
        ob["c"], ob["p"], ob["alts"])


def nontrivial(case, ob):
    sig = json.dumps([case["d"], case["v"]])
    return sig, ob["c"][0] != "Reject" or (ob["p"] is not None and ob["p"][0] != "Reject")


def check_obs(case, ob):
    if ob["venc"] != case["v"]:
        return "value description %r re-encodes as %r" % (case["v"], ob["venc"])
    if ob["fast"] != pv.is_fast(case["d"]) and '"name"' not in json.dumps(case["d"]):   # Instance("Name") is fast once resolved
        return "fast descriptor presence of %s: implementation %r, harness %r" % (
            pv.shape(case["d"]), ob["fast"], pv.is_fast(case["d"]))
    return None


def corpus():
    """triggers of the listed findings and of the repaired ones (F2, F3): on every run"""
    S, F = pv.S, pv.F
    cs = []
    tsub = ["PTupleSub", [["PInt", 1], ["PInt", 2]]]
    cs.append((["DTuple", [["DInt"], ["DInt"]]], tsub))                                                    # F4
    cs.append((["DTuple", [["DTuple", [["DInt"], ["DInt"]]]]], ["PTuple", [tsub]]))
    cs.append((["DCompound", [["DString", 0, 5, None], ["DCast", "CTInt"]]], S("12")))                     # F5
    cs.append((["DCompound", [["DCast", "CTFloat"], ["DInt"]]], ["PInt", 10 ** 400]))                      # F17
    cs.append((["DCompound", [["DCast", "CTInt"], ["DFloat"]]], ["PFloat", pv.PINF]))
    cs.append((["DCompound", [["DCast", "CTInt"], ["DInstance", 20, False, False]]], ["PIndexObj", ["Raises", "EOtherError"]]))
    f21 = ["DCompound", [["DAdapt", 100, 2, False, ["PNone"]], ["DCast", "CTStr"]]]                         # F21
    for v in (["PInt", 5], ["PObj", 101, 1], ["PObj", 102, 1], ["PNone"], S("a")):
        cs.append((f21, v))
    cs.append((["DCompound", [["DInt"], ["DCompound", [["DAdapt", 100, 2, False, ["PNone"]], ["DCast", "CTStr"]]]]], ["PFloat", F(0.5)]))
    cs.append((["DCompound", [["DAdapt", 100, 2, True, ["PNone"]], ["DInt"]]], S("a")))
    for gm in pv.GROWN_MAPS:                                 # the mapping grows after the trait was defined
        for v in (S("blue"), S("a"), ["PNone"], ["PInt", 5], S("yes"), S("no"), ["PInt", 1], S("zz")):
            cs.append((gm, v))
            cs.append((["DCompound", [gm, ["DFloat"]]], v))
            cs.append((["DTuple", [gm, ["DInt"]]], ["PTuple", [v, ["PInt", 1]]]))
    for d_ in (["DComplex"], ["DTuple", [["DComplex"], ["DInt"]]], ["DCompound", [["DStr"], ["DComplex"]]],
               ["DTuple", [["DCompound", [["DComplex"], ["DEnum", [["PNone"]]]]], ["DFloat"]]]):   # restored CTrait, last table kind
        for v in (["PNone"], ["PInt", 1], ["PTuple", [["PNone"], ["PInt", 1]]], ["PTuple", [["PInt", 1], ["PInt", 1]]], S("a"),
                  ["PComplex", F(1.0), F(0.0)]):
            cs.append((d_, v))
    fwd = ["DCompound", [["DInstance", 100, False, False, "name"], ["DInt"]]]
    for v in (["PObj", 100, 1], ["PObj", 101, 1], ["PObj", 102, 1], ["PInt", 1], ["PNone"], ["PProxy", 100, 1]):
        cs.append((fwd, v))
        cs.append((["DCompound", [["DStr"], ["DInstance", 101, True, False, "name"]]], v))
    two_tuples = ["DCompound", [["DTuple", [["DFloat"], ["DStr"]]], ["DTuple", [["DInt"], ["DInt"]]]]]
    for v in (["PTuple", [["PInt", 1], ["PInt", 2]]], ["PTuple", [["PBool", False], ["PInt", 2]]],
              ["PTuple", [["PInt", 1], S("a")]], ["PTupleSub", [["PInt", 1], ["PInt", 2]]]):
        cs.append((two_tuples, v))
    two_enums = ["DCompound", [["DEnum", [S("auto"), S("fill")]], ["DFloat"], ["DEnum", [["PInt", 1], ["PInt", 2], ["PInt", 5]]]]]
    for v in (["PInt", 1], ["PInt", 5], S("fill"), ["PFloat", F(2.0)], ["PBool", True]):                  # enum, converter, enum
        cs.append((two_enums, v))
    cs.append((["DCompound", [["DEnum", [S("auto"), S("none")]], ["DCast", "CTStr"], ["DEnum", [["PNone"]]]]], ["PNone"]))
    for an in (True, False):                                                # proxies; Instance(K)(allow_none=...) (F20)
        for d in (["DInstance", 100, an, False], ["DInstance", 100, an, False, "clone"]):
            for v in (["PProxy", 100, 1], ["PProxy", 101, 1], ["PProxy", 102, 1], ["PNone"], ["PObj", 101, 1]):
                cs.append((d, v))
                cs.append((["DCompound", [d, ["DStr"]]], v))
    for an in (True, False):                                                                               # F18
        cs.append((["DInstance", 0, an, False], ["PNone"]))
        cs.append((["DInstance", 0, an, False], ["PInt", 1]))
        cs.append((["DCompound", [["DInstance", 0, an, False], ["DInt"]]], ["PNone"]))
    for mask in (0, 1, 2, 3):                                                                              # F2
        cs.append((["DRangeF", F(0.0), F(1.0), mask], ["PFloat", pv.NAN]))
        cs.append((["DCompound", [["DRangeF", F(0.0), F(1.0), mask], ["DStr"]]], ["PFloat", pv.NAN]))
        cs.append((["DCompound", [["DRangeF", F(0.0), F(1.0), mask], ["DStr"]]], ["PNpFloat", 18, pv.NAN]))
    for an in (True, False):                                                                               # F3
        cs.append((["DCallable", an], ["PNone"]))
        cs.append((["DCompound", [["DCallable", an], ["DInt"]]], ["PNone"]))
    return [dict(d=d, v=v) for d, v in cs]


def gen_cases(ctx, rnd):
    quick = ctx.tier == "quick"
    cases = corpus()
    leaves = pv.fast_leaves(True) + pv.adapts((2,)) + [["DModule"], ["DTuple", []]] + pv.GROWN_MAPS
    # construction variants (Enum(a, b) / Enum(dflt, [..]) / Enum((..)), Range with one int bound, Instance("Name"))
    leaves = leaves + [w for d in leaves for w in pv.variants(d)]
    # every fast leaf configuration x the whole value lattice
    atoms = pv.ATOMS
    for d in leaves:
        vals = atoms if not quick else rnd.sample(atoms, 48)
        for v in vals:
            cases.append(dict(d=d, v=v))
    # the switch copy of every fast leaf (validate_trait_complex) against the lattice: Either(leaf, Enum("zz"))
    for d in pv.fast_leaves(True):
        vals = atoms if not quick else [["PNone"]] + rnd.sample(atoms, 32)
        for v in vals:
            cases.append(dict(d=["DCompound", [d, ["DEnum", [pv.S("zz")]]]], v=v))
    # float ranges: every bound/mask combination against every float-like atom and the bounds themselves
    floaty = [a for a in atoms if a[0] in ("PFloat", "PFloatSub", "PNpFloat", "PFloatObj", "PInt", "PBool", "PNpInt",
                                           "PIndexObj")]
    for d in pv.float_ranges():
        for v in (floaty if not quick else rnd.sample(floaty, 18)):
            cases.append(dict(d=d, v=v))
            cases.append(dict(d=["DCompound", [d, ["DStr"]]], v=v))
    # fixed compounds and tuples
    fixed = [
        ["DCompound", [["DInt"], ["DStr"]]], ["DCompound", [["DFloat"], ["DInt"]]], ["DCompound", [["DInt"], ["DFloat"]]],
        ["DCompound", [["DBool"], ["DInt"]]], ["DCompound", [["DInt"], ["DBool"]]],
        ["DCompound", [["DInt"], ["DEnum", [["PNone"]]]]],
        ["DCompound", [["DTuple", [["DInt"], ["DInt"]]], ["DEnum", [pv.S("a"), pv.S("abc")]]]],
        ["DCompound", [["DCast", "CTInt"], ["DStr"]]], ["DCompound", [["DStr"], ["DCast", "CTInt"]]],
        ["DCompound", [["DInstance", 100, True, False], ["DCallable", True]]],
        ["DCompound", [["DMap", [[pv.S("a"), ["PInt", 1]]]], ["DInt"]]], ["DCompound", [["DComplex"], ["DStr"]]],
        ["DCompound", [["DString", 0, 5, None], ["DCast", "CTInt"]]], ["DCompound", [["DString", 2, 4, None], ["DInt"]]],
        ["DCompound", [["DRangeI", 0, 5, 0], ["DFloat"]]], ["DCompound", [["DType", 100, True], ["DInstance", 100, False, False]]],
        ["DCompound", [["DSelf", False], ["DBool"], ["DPrefixList", [pv.W("yes"), pv.W("no")]]]],
        ["DCompound", [["DCast", "CTFloat"], ["DInt"]]], ["DCompound", [["DCast", "CTBool"], ["DStr"]]],
        # a forward-declared Instance("Name") alternative (validated after its class has been resolved)
        ["DCompound", [["DInstance", 100, False, False, "name"], ["DInt"]]],
        ["DCompound", [["DStr"], ["DInstance", 101, True, False, "name"]]],
        ["DCompound", [["DInstance", 100, True, False, "name"], ["DString", 2, 4, None], ["DFloat"]]],
        ["DTuple", [["DCompound", [["DInstance", 100, False, False, "name"], ["DInt"]]], ["DInt"]]],
        # two Tuple alternatives: the first converts an item and then rejects, the second must see the original value
        ["DCompound", [["DTuple", [["DFloat"], ["DStr"]]], ["DTuple", [["DInt"], ["DInt"]]]]],
        ["DCompound", [["DTuple", [["DCast", "CTStr"], ["DBool"]]], ["DTuple", [["DInt"], ["DInt"]]], ["DTuple", [["DAny"], ["DAny"]]]]],
        ["DCompound", [["DTuple", [["DComplex"], ["DInt"], ["DStr"]]], ["DTuple", [["DBool"], ["DInt"], ["DInt"]]]]],
        ["DTuple", [["DCompound", [["DTuple", [["DFloat"], ["DStr"]]], ["DTuple", [["DInt"], ["DInt"]]]]], ["DFloat"]]],
        # two enumeration-like alternatives with a converting alternative between them
        ["DCompound", [["DEnum", [pv.S("auto"), pv.S("fill")]], ["DFloat"], ["DEnum", [["PInt", 1], ["PInt", 2], ["PInt", 5]]]]],
        ["DCompound", [["DEnum", [pv.S("auto"), pv.S("none")]], ["DCast", "CTStr"], ["DEnum", [["PNone"]]]]],
        ["DCompound", [["DEnum", [pv.S("a"), ["PInt", 12]]], ["DCast", "CTInt"], ["DEnum", [pv.S("12"), pv.S("1"), ["PBool", True]]]]],
        ["DCompound", [["DEnum", [["PInt", 5]]], ["DComplex"], ["DMap", [[["PInt", 1], pv.S("a")], [["PFloat", pv.F(0.5)], pv.S("b")]]],
                       ["DEnum", [["PInt", 2], ["PFloat", pv.F(1.5)]]]]],
        ["DCompound", [["DEnum", [pv.S("abc")]], ["DBool"], ["DEnum", [["PFloat", pv.F(1.0)], ["PInt", 0]]]]],
        ["DCompound", [["DCompound", [["DInt"], ["DStr"]]], ["DFloat"]]],
        ["DCompound", [["DCompound", [["DString", 2, 4, None], ["DInt"]]], ["DCast", "CTInt"]]],
        ["DCompound", [["DFloat"], ["DCompound", [["DString", 0, 5, None], ["DBool"]]], ["DCast", "CTStr"]]],
        ["DCompound", [["DCompound", [["DRangeI", 0, 5, 0], ["DType", 100, False]]], ["DCallable", False]]],
        ["DTuple", [["DInt"], ["DInt"]]], ["DTuple", [["DInt"], ["DStr"]]], ["DTuple", [["DFloat"], ["DRangeF", pv.F(0.0), pv.F(1.0), 0]]],
        ["DTuple", [["DTuple", [["DInt"], ["DInt"]]]]], ["DTuple", [["DCast", "CTInt"], ["DBool"]]],
        ["DTuple", [["DCompound", [["DInt"], ["DStr"]]], ["DAny"]]], ["DTuple", [["DFloat"]]],
        ["DTuple", [["DString", 0, 3, None], ["DInt"]]],
    ]
    # List(<trait>) members: alone (Python-only validate on both paths) and inside Either / Tuple / Union
    lv = pv.list_values(rnd, 12 if quick else 120)
    for d in pv.LISTS + pv.LIST_CONTAINERS:
        for v in lv + (rnd.sample(atoms, 8) if quick else atoms):
            cases.append(dict(d=d, v=v))
    dv = pv.dict_values(rnd, 10 if quick else 100)
    for d in pv.DICTS:
        for v in dv + (rnd.sample(atoms, 6) if quick else atoms):
            cases.append(dict(d=d, v=v))
    tv = pv.tuple_values(rnd, 25 if quick else 250, 2)
    for d in fixed:
        vals = (atoms if not quick else rnd.sample(atoms, 42)) + (tv if d[0] == "DTuple" else tv[:8])
        for v in vals:
            cases.append(dict(d=d, v=v))
    # random nestings (depth <= 3)
    n_cfg, n_val = (50, 24) if quick else (800, 45)
    for _ in range(n_cfg):
        d = pv.gen_desc(rnd, 3, extra=pv.adapts((2,)) * 4)     # adapt='default' anywhere (F21 when inside a compound)
        if d[0] not in ("DTuple", "DCompound"):
            d = ["DTuple", [d, pv.gen_desc(rnd, 1)]]
        vals = rnd.sample(atoms, n_val // 2) + pv.tuple_values(rnd, n_val // 2, 2)
        for v in vals:
            cases.append(dict(d=d, v=v))
    for c in cases:
        for k in set(pv.desc_kinds(c["d"])):
            ctx.count("trait:" + k)
        ctx.count("value:" + c["v"][0])
    return cases


def run(ctx):
    ok, log = ctx.proofs(PROPS)
    extra = t2.obligations(ctx, "C03")
    ctx.cov["trusted_base"] += [
        "tools/drivers/c03_driver.py + pvlib.py (Python value <-> PyVal.pv description, trait construction, outcome "
        "canonicalisation) and tools/props/c03.py + vlib/pyval.py (lattice, configuration generator)",
        "tools/vlib/t2.py (translator of ctraits.c:in_float_range and of the BaseRange.float_validate comparison, "
        "fail-closed, output re-proved on every run)",
        "modelled, not verified: CPython's isinstance / == / hash / int() / float() / complex() / bool() on the lattice "
        "values (Common/PyVal.v), str() / bytes() / re / class table supplied as data by the driver; finite doubles are "
        "exact multiples of 1/1000",
    ]
    ctx.cov["rule"] = ("(configuration, value) pairs: every fast leaf configuration x the value lattice (%d atoms: "
                       "None, bool, int incl. 2**70 and 10**400, int/float/str/tuple subclasses, NaN, +-inf, -0.0, numpy "
                       "scalars, __index__/__float__/__complex__ objects that return or raise, instances, classes, "
                       "callables, containers); all float Range bound/exclusion combinations alone and inside Either; "
                       "fixed and random Either/Tuple nestings to depth 3 x lattice + random (sub)tuples; each pair is run "
                       "through CTrait.validate, handler.validate and every declared alternative alone; non-trivial = "
                       "some path accepts or lets an exception through" % len(pv.ATOMS))
    rnd = random.Random(ctx.seed)
    if ctx.replay:
        cases = [json.load(open(ctx.replay))["replay"]["case"]]
    else:
        cases = gen_cases(ctx, rnd) + [dict(d=d, v=v) for d, v in extra]
    for c in cases[:2] + cases[-2:]:
        ctx.sample(c)
    obs = None
    rc, envd, err = ctx.run_driver("c03_driver.py", [], args=("--env",))
    if rc != 0 or not envd:
        ctx.fail("harness/env", "class table could not be computed: " + err[-400:], dict(error=err[-2000:]), no_input=True)
    else:
        header = pv.header_with_sub(IMPORTS, envd["sub"])
        obs = single.run(ctx, "c03_driver.py", cases, to_term, header, CASE_T, key_fn, describe, nontrivial, RELATION,
                   check_obs=check_obs, sanitize=(ctx.tier == "thorough"), shard=550)
    nrest = 0
    for c, o in zip(cases, obs or []):          # the trait after a getstate/setstate round trip must decide like the original
        if o.get("cr") is not None and o["cr"] != o["c"] and nrest < 8:
            nrest += 1
            ctx.fail("restored-trait-validates-differently/%s/%s" % (pv.shape(c["d"]), pv.vshape(c["v"])),
                     "trait %s, value %s: CTrait.validate gives %r, the same CTrait after copy.deepcopy "
                     "(__getstate__/__setstate__) gives %r" % (pv.shape(c["d"]), json.dumps(c["v"])[:120], o["c"], o["cr"]),
                     dict(kind="law-failure-on-implementation", clause="restored-trait", case=c, impl_obs=o))
    for c, o in zip(cases, obs or []):          # a validator that changes its argument: a failing input of its own
        if o.get("mut") and sum(1 for x in ctx.violations if x[0].startswith("input-mutated")) < 5:
            ctx.fail("input-mutated/%s/%s" % (pv.shape(c["d"]), pv.vshape(c["v"])),
                     "trait %s: the value %s was MUTATED by %s (it re-encodes differently after the call)" % (
                         pv.shape(c["d"]), json.dumps(c["v"])[:120], ", ".join(o["mut"])),
                     dict(kind="law-failure-on-implementation", clause="input-mutated", case=c, impl_obs=o))
    t2.gate(ctx, "C03")
    proof_gate(ctx, ok, log, PROPS)
