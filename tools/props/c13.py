"""C13 — every attribute name is governed by the right trait and its access policy."""
import itertools
import json
import random

from vlib import hist
from vlib.ctx import proof_gate
from vlib.term import C, Nat, Some, opt

HEADER = "From Coq Require Import ZArith List.\nFrom TV Require Import Common.Harness C13.Model C13.Law C13.Corr."
CASE_T = "C13.Corr.case"
HEADER_T = ("From Coq Require Import ZArith List.\n"
            "From TV Require Import Common.Harness C13.Model C13.Law C13.Corr C13.CorrT.")
CASE_T_T = "C13.CorrT.case"
HEADER_L = ("From Coq Require Import ZArith List.\n"
            "From TV Require Import Common.Harness C13.Model C13.Law C13.Corr C13.CorrL.")
CASE_T_L = "C13.CorrL.case"
HEADER_N = ("From Coq Require Import ZArith List.\n"
            "From TV Require Import Common.Harness C13.Model C13.Law C13.Corr C13.CorrN.")
CASE_T_N = "C13.CorrN.case"
HEADER_C = ("From Coq Require Import ZArith List.\n"
            "From TV Require Import Common.Harness C13.Model C13.Law C13.Corr C13.CorrC.")
CASE_T_C = "C13.CorrC.case"
PROPS = ["C13/Props.v", "C13/PropsClassOps.v", "C13/PropsClassOps2.v", "C13/PropsWave4.v", "C13/PropsWave6.v"]
KIND = {0: "Python", 1: "Any", 2: "Disallow", 3: "ReadOnly", 4: "Constant", 5: "Event", 6: "Typed",
        7: "dunder", 8: "no-rule", 9: "add-remove"}
WHAT = {1: "outcome-class", 2: "value-read", 3: "stored-afterwards (for remove_trait: a value of the removed trait or of its shadow stays behind)",
        4: "on_trait_change(handler, name) fails", 5: "on_trait_change(handler, name, remove=True) fails",
        6: "copy refused / accepted against the copy's own rules", 7: "the copy holds a value its own rule does not store",
        9: "outcome not that of the trait found along the MRO (the code merges direct bases depth-first)"}
NROOTS = 3

ALPHA = "_ab"
NAMES = ["".join(p) for L in range(1, 5) for p in itertools.product(ALPHA, repeat=L)]
DUNDERS = ["__a__", "__ab__", "__b__"]
ALL_NAMES = NAMES + DUNDERS
EXPLICIT = [n for n in NAMES if not n.endswith("_") and len(n) <= 3]
PREFIXES = ["", "_", "a", "b", "ab", "_a", "a_", "__", "aa", "abb", "_ab", "a_b", "ba"]
# wildcard stems that are Python keywords (C13-w1: `is_ = Bool`, `in_ = Int`, `from_ = Int` are wildcards like any other)
KW_PREFIXES = ["is", "in", "as", "or", "if", "from"]
KW_NAMES = ["is_ready", "in_use", "as_x", "or_b", "if_", "from_a", "isa", "inb", "is", "fromage"]
POLS = [["Python"], ["Any", 5], ["Any", 200], ["Disallow"], ["ReadOnly"], ["Constant", 3], ["Constant", 104],
        ["Event"], ["Typed", "VInt", 7], ["Typed", "VStr", 102], ["Typed", "VCInt", 8], ["ReadOnly"], ["Event"],
        ["ReadOnly", 9], ["Event", "VInt"]]
VALUES = [0, 1, 5, 6, 3, 101, 104, 104, 200, 201]
RT_HOW = ["copy", "deepcopy", "pickle2", "pickle"]


def maybe_rt(rnd, ctx, p, prob=0.3):
    """With probability `prob` the definition goes through a __getstate__/__setstate__ round trip first (C13-u1)."""
    if rnd.random() < prob:
        how = rnd.choice(RT_HOW)
        ctx.count("round-trip:%s:%s" % (how, p[0]))
        return ["RT", how, p]
    return p


# ----- terms ---------------------------------------------------------------
def name_term(n):
    return [ord(ch) for ch in n]


def unrt(p):
    """The definition under a state round trip ["RT", how, definition] (C13-u1; Model.round_trip is the identity)."""
    while p[0] == "RT":
        p = p[2]
    return p


def pol_term(p):
    k = p[0]
    if k == "Default":  # class-body `name = value` over the trait p[2] of the first base that has the name (C13-v2)
        return C("redefault", pol_term(p[2]), p[1])
    if k == "RT":
        return C("round_trip", pol_term(p[2]))
    if k in ("Python", "Disallow"):
        return C("P" + k)
    if k == "ReadOnly":
        return C("PReadOnly", 201 if len(p) == 1 else p[1])
    if k == "Event":
        return C("PEvent", None if len(p) == 1 else Some(C(p[1])))
    if k in ("Any", "Constant"):
        return C("P" + k, p[1])
    if k == "List":
        return C("PList")
    if k == "Map":
        return C("PMap", [(a, b) for a, b in p[1]], p[2])
    return C("PTyped", C(p[1]), p[2])


def out_term(o):
    if o[0] == "Val":
        return C("Val", o[1])
    if o[0] == "Done":
        return C("Done")
    return C("Raise", C(o[1]))


def is_early(op):
    return op[-1] == "E"


def who(op):
    """Which object an operation acts on: "E" early instance, "B" second main instance, "#i" object i of a
    class-operation case, "" first main instance."""
    t = op[-1]
    return t if isinstance(t, str) and (t in ("E", "B") or t.startswith("#")) else ""


def via(op):
    t = op[-1]
    return t[2:] if isinstance(t, str) and t.startswith("V:") else None


def op_term(op):
    k = op[0]
    a = via(op)
    if a is not None:   # through attribute a of the delegating object (C13-u3; Model.via_get/via_set/via_del)
        if k == "Get":
            return C("via_get", name_term(a), name_term(op[1]))
        if k == "Set":
            return C("via_set", name_term(a), name_term(op[1]), op[2])
        return C("via_del", name_term(a), name_term(op[1]))
    if k == "Get":
        return C("OGet", name_term(op[1]))
    if k == "Set":
        return C("OSet", name_term(op[1]), op[2])
    if k == "Del":
        return C("ODel", name_term(op[1]))
    if k == "Add":
        return C("OAdd", name_term(op[1]), pol_term(op[2]))
    return C("ORem", name_term(op[1]))


def to_term(case, obs):
    classes = [C("mkClass", [(name_term(n), pol_term(p)) for n, p in cd["decls"]], [Nat(b) for b in cd["bases"]])
               for cd in case["classes"]]
    nlate = case.get("nlate", 0)
    h = [(op_term(op), C("mkObs", out_term(ob["out"]), opt(ob["stored"]), opt(ob["shadow"]), opt(ob["base"])))
         for op, ob in zip(case["ops"], obs)]
    ne = sum(1 for op in case["ops"] if is_early(op))
    main = [(op[-1] == "B", t[0], t[1]) for op, t in zip(case["ops"][ne:], h[ne:])]
    return (classes[:len(classes) - nlate], Nat(case.get("precls", case["cls"])), h[:ne],
            classes[len(classes) - nlate:], Nat(case["cls"]), main, [Nat(k) for k in obs[0]["mro"]])


def to_term_l(case, obs):
    """Cases with a trait_added listener (C13/CorrL.v): two fresh instances of class `cls`."""
    classes = [C("mkClass", [(name_term(n), pol_term(p)) for n, p in cd["decls"]], [Nat(b) for b in cd["bases"]])
               for cd in case["classes"]]
    h = [(op[-1] == "B", op_term(op),
          C("mkObs", out_term(ob["out"]), opt(ob["stored"]), opt(ob["shadow"]), opt(ob["base"])), opt(ob["inst"]))
         for op, ob in zip(case["ops"], obs)]
    return (classes, Nat(case["cls"]), [(name_term(q), pol_term(p)) for q, p in case["listener"]], h)


def to_term_n(case, obs):
    """Cases with on_trait_change listeners attached / detached (C13/CorrN.v): one fresh instance of class `cls`."""
    classes = [C("mkClass", [(name_term(n), pol_term(p)) for n, p in cd["decls"]], [Nat(b) for b in cd["bases"]])
               for cd in case["classes"]]
    h = []
    for op, ob in zip(case["ops"], obs):
        o = C("mkObs", out_term(ob["out"]), opt(ob["stored"]), opt(ob["shadow"]), opt(ob["base"]))
        if op[0] == "Listen":
            h.append((C("NListen", name_term(op[1])), o))
        elif op[0] == "Unlisten":
            h.append((C("NUnlisten", name_term(op[1])), o))
        else:
            h.append((C("NOp", op_term(op)), o))
    return (classes, Nat(case["cls"]), h)


def to_term_c(case, obs):
    """Cases with copies of the object (C13/CorrC.v): operations on a (no flag) and b (flag "B"), ["Clone", how]."""
    classes = [C("mkClass", [(name_term(n), pol_term(p)) for n, p in cd["decls"]], [Nat(b) for b in cd["bases"]])
               for cd in case["classes"]]
    h = []
    for op, ob in zip(case["ops"], obs):
        if op[0] == "Clone":
            h.append(C("CCl", out_term(ob["out"]), [(name_term(m), v) for m, v in ob["state"]],
                       [(name_term(m), opt(v)) for m, v in ob["copy"]]))
        else:
            h.append(C("CEv", op[-1] == "B", op_term(op),
                       C("mkObs", out_term(ob["out"]), opt(ob["stored"]), opt(ob["shadow"]), opt(ob["base"]))))
    return (classes, Nat(case["cls"]), h)


def to_term_t(case, obs):
    """Cases with add_class_trait (C13/CorrT.v)."""
    classes = [C("mkClass", [(name_term(n), pol_term(p)) for n, p in cd["decls"]], [Nat(b) for b in cd["bases"]])
               for cd in case["classes"]]
    h = []
    for op, ob in zip(case["ops"], obs):
        o = C("mkObs", out_term(ob["out"]), opt(ob["stored"]), opt(ob["shadow"]), opt(ob["base"]))
        if op[0] == "AddClass":
            h.append((C("TClass", Nat(op[3]), name_term(op[1]), pol_term(op[2])), o))
        else:
            h.append((C("TObj", Nat(int(op[-1][1:])), op_term(op)), o))
    return (classes, [Nat(k) for k in case["objs"]], h)


# ----- failure signatures ----------------------------------------------------
def live_instance_trait(case, step, name):
    """The instance trait governing `name` at `step` on the object of that step: add_trait also installs
    the sub-traits name_ (Map) and name_items (List: an Event), remove_trait removes them again."""
    pols = {}

    def derived(n, p):
        if p[0] == "Map":
            return {n + "_": ["Shadow"]}
        if p[0] == "List":
            return {n + "_items": ["Event"]}
        return {}
    for op in case["ops"][:step]:
        if who(op) != who(case["ops"][step]):
            continue
        if op[0] == "Add":
            pols.update(derived(op[1], unrt(op[2])))
            pols[op[1]] = unrt(op[2])
        elif op[0] == "Rem":
            p = pols.pop(op[1], None)
            if p is not None:
                for k in derived(op[1], p):
                    pols.pop(k, None)
    return pols.get(name)


def stored_before(case, obs, step, name):
    for j in range(step - 1, -1, -1):
        if case["ops"][j][1] == name and who(case["ops"][j]) == who(case["ops"][step]):
            return obs[j]["stored"]
    return None


def key_fn(case, obs, step, clause):
    op = case["ops"][step]
    kind, what = KIND.get(clause // 10, clause // 10), WHAT.get(clause % 10, clause % 10)
    if case.get("nlate", 0) > 0 and not is_early(op) and any(
            is_early(e) and e[1] == op[1] and e[0] in ("Get", "Set", "Del") for e in case["ops"]):
        return "class-created-after-use-inherits-cached-wildcard-resolution"
    if "objs" in case and op[0] in ("Get", "Set", "Del"):
        # a wildcard added with add_class_trait after the name was resolved (cached) for a class
        touched = False
        for e in case["ops"][:step]:
            if e[0] in ("Get", "Set", "Del") and e[1] == op[1]:
                touched = True
            elif e[0] == "AddClass" and touched and e[1].endswith("_") and op[1].startswith(e[1][:-1]):
                return "runtime-wildcard-does-not-reach-cached-name"
            elif e[0] == "AddClass" and touched and e[1] == op[1]:
                # explicit name added to a base class: the subclass that has the name cached keeps the cached trait
                return "runtime-class-trait-does-not-reach-cached-name"
    if clause == 99:
        # the known finding is about WHICH declaration is found (MRO vs base order).  A name the class re-defaults in
        # its own body (C13-v2) is declared by the class itself, both readings find that declaration, so a failure
        # there can never be relabelled 99; should it ever be, it is reported under its own key, not absorbed.
        k = (case.get("precls") if is_early(op) else case["cls"]) - NROOTS
        if 0 <= k < len(case["classes"]) and any(n == op[1] and unrt(p)[0] == "Default" for n, p in case["classes"][k]["decls"]):
            return "class-body-default/relabelled-99/%s" % op[0]
        return "trait-inheritance-not-by-mro"
    if op[0] == "Get" and clause in (21, 42, 51) and obs[step]["out"][0] == "Val":
        pol = live_instance_trait(case, step, op[1])
        sb = stored_before(case, obs, step, op[1])
        if pol is not None and pol[0] == kind and sb is not None and obs[step]["out"][1] == sb:
            return "stale-dict-value-shadows-added-trait/%s" % kind
    return "%s/%s/%s" % (kind, what, op[0])


def describe(case, obs, step, clause):
    op = case["ops"][step]
    return ("name %r on an instance of class %d%s of %s: governing policy %s, clause %s fails at step %d op %r: "
            "observed %r" % (op[1], case["precls"] if is_early(op) else case["cls"],
                             " (last %d classes created after the early operations on an instance of class %d)" % (
                                 case["nlate"], case["precls"]) if case.get("nlate") else "",
                             json.dumps(case["classes"]),
                             "(differs between MRO and base order)" if clause == 99 else KIND.get(clause // 10),
                             WHAT.get(clause % 10), step, op, obs[step]))


def nontrivial(case, obs):
    sig = repr((case["classes"], case["cls"], case.get("nlate", 0), case.get("precls"), case["ops"]))
    nt = any(o["out"][0] == "Raise" for o in obs) and any(o["out"][0] != "Raise" for o in obs)
    return sig, nt


# ----- hierarchies -------------------------------------------------------------
def c3_mro(bases_of, k, memo):
    """C3 linearisation (None when Python would refuse the class)."""
    if k in memo:
        return memo[k]
    seqs = []
    for b in bases_of[k]:
        m = c3_mro(bases_of, b, memo)
        if m is None:
            memo[k] = None
            return None
        seqs.append(list(m))
    seqs.append(list(bases_of[k]))
    res = [k]
    while any(seqs):
        seqs = [s for s in seqs if s]
        for s in seqs:
            cand = s[0]
            if not any(cand in t[1:] for t in seqs):
                break
        else:
            memo[k] = None
            return None
        res.append(cand)
        for s in seqs:
            if s and s[0] == cand:
                del s[0]
    memo[k] = res
    return res


def gen_decls(rnd, ctx, nmax=4):
    decls, used = [], set()
    for _ in range(rnd.randint(0, nmax)):
        if rnd.random() < 0.5:
            n = (rnd.choice(KW_PREFIXES) if rnd.random() < 0.12 else rnd.choice(PREFIXES)) + "_"
            ctx.count("decl:wildcard-len%d" % (len(n) - 1))
        else:
            n = rnd.choice(EXPLICIT)
            ctx.count("decl:explicit")
        if n in used:
            continue
        used.add(n)
        p = rnd.choice(POLS)
        ctx.count("decl-policy:" + p[0])
        decls.append([n, p])
    return decls


def gen_hierarchy(rnd, ctx):
    n = rnd.choice([1, 2, 2, 3, 3, 4])
    classes, bases_of = [], {0: [], 1: [0], 2: [0]}
    for i in range(n):
        k = NROOTS + i
        for _attempt in range(20):
            nb = rnd.choice([1, 1, 1, 2, 2, 3])
            bases = rnd.sample(range(k), min(nb, k))
            bases_of[k] = bases
            if c3_mro(bases_of, k, {}) is not None:
                break
        else:
            bases_of[k] = bases = [k - 1]
        classes.append({"decls": gen_decls(rnd, ctx), "bases": bases})
        ctx.count("bases:%d" % len(bases))
    return {"classes": classes, "cls": NROOTS + n - 1}


def fixed_hierarchies():
    """Corner hierarchies that every run includes."""
    def cl(decls, bases):
        return {"decls": decls, "bases": bases}
    I, S, A5, D, E, RO, PY = ["Typed", "VInt", 7], ["Typed", "VStr", 102], ["Any", 5], ["Disallow"], ["Event"], \
        ["ReadOnly"], ["Python"]
    hs = [
        [cl([], [0])], [cl([], [1])], [cl([], [2])],
        # overlapping prefixes of several lengths, declared shortest first
        [cl([["_", I], ["a_", S], ["ab_", E], ["abb_", RO], ["ab", ["Constant", 3]]], [0])],
        # a subclass adds a longer prefix / a shorter prefix
        [cl([["a_", I]], [0]), cl([["ab_", S]], [3])],
        [cl([["ab_", I]], [0]), cl([["a_", S], ["_", D]], [3])],
        # the same prefix in two bases; own declaration of the same prefix
        [cl([["a_", I]], [0]), cl([["a_", S]], [0]), cl([], [3, 4])],
        [cl([["a_", I]], [0]), cl([["a_", S]], [0]), cl([], [4, 3])],
        [cl([["a_", I]], [0]), cl([["a_", S]], [0]), cl([["a_", E]], [3, 4])],
        # the same explicit name in two bases, diamond
        [cl([["ab", I]], [0]), cl([["ab", S]], [3]), cl([], [3]), cl([], [5, 4])],
        [cl([["ab", I], ["b_", A5]], [0]), cl([["ab", S], ["b_", D]], [0]), cl([], [3, 4])],
        # strict / private bases and subclass wildcards shorter than "_"
        [cl([["_", A5]], [2])], [cl([["__", I]], [2])], [cl([["_a_", S]], [2])],
        [cl([["a_", PY]], [1])], [cl([["_", PY]], [1])],
        [cl([["a_", I]], [1]), cl([["b_", S]], [2]), cl([], [3, 4])],
        [cl([["a_", I]], [1]), cl([["b_", S]], [2]), cl([], [4, 3])],
        [cl([], [0]), cl([], [1, 3])], [cl([], [0]), cl([], [3, 2])], [cl([], [1]), cl([], [2]), cl([], [3, 4])],
        # wildcards whose stem is a Python keyword, own and inherited, on the three roots (C13-w1)
        [cl([["is_", I], ["in_", S], ["from_", RO]], [0])], [cl([["is_", I], ["as_", E]], [1])], [cl([["if_", A5], ["or_", I]], [2])],
        [cl([["is_", I], ["from_", S]], [1]), cl([["in_", D], ["isa_", S]], [3])],
        [cl([["is_", I]], [0]), cl([["is_", S], ["or_", ["Constant", 3]]], [2]), cl([], [3, 4])],
        # every policy kind as explicit trait and as wildcard
        [cl([["a", PY], ["b", A5], ["ab", D], ["ba", RO], ["aa", ["Constant", 3]], ["bb", E], ["_a", I], ["_b", S]], [0])],
        [cl([["a_", PY], ["b_", A5], ["ab_", D], ["ba_", RO], ["aa_", ["Constant", 3]], ["bb_", E], ["_a_", I],
             ["_b_", S]], [1])],
    ]
    return [{"classes": h, "cls": NROOTS + len(h) - 1} for h in hs]


# ----- histories ---------------------------------------------------------------
BLOCKS = [
    lambda n: [["Get", n], ["Set", n, 5], ["Get", n], ["Set", n, 101], ["Get", n], ["Del", n], ["Get", n]],
    lambda n: [["Set", n, 101], ["Get", n], ["Set", n, 6], ["Del", n], ["Get", n], ["Del", n], ["Rem", n], ["Get", n]],
    lambda n: [["Del", n], ["Get", n], ["Set", n, 1], ["Rem", n], ["Get", n], ["Set", n, 104], ["Get", n]],
]


def probe_cases(hiers, names, group, ctx, rnd):
    """Every name x every hierarchy x the three block orders, `group` names per fresh hierarchy."""
    cases = []
    for h in hiers:
        for v, blk in enumerate(BLOCKS):
            order = list(names)
            rnd.shuffle(order)
            for i in range(0, len(order), group):
                ops = []
                for n in order[i:i + group]:
                    ops += blk(n)
                cases.append(dict(h, ops=ops, kind="probe%d" % v))
    return cases


def focus_names(h, rnd):
    """Names chosen on purpose: exact declared names, names extending declared prefixes, private names."""
    pool = set()
    for cd in h["classes"]:
        for n, _ in cd["decls"]:
            if n.endswith("_"):
                p = n[:-1]
                pool.update([p + "a", p + "b", p + "ab", p] if p else ["a", "b"])
                if p in KW_PREFIXES:
                    pool.update([p + "_x", p + "_"])
            else:
                pool.update([n, n + "a"])
    pool.update(["_a", "a", "__a__"])
    pool = sorted(x for x in pool if x and len(x) <= 7)
    return rnd.sample(pool, min(len(pool), rnd.randint(1, 3)))


def random_history(h, rnd, ctx, maxlen):
    names = focus_names(h, rnd)
    ops = []
    for _ in range(rnd.randint(3, maxlen)):
        n = rnd.choice(names)
        k = rnd.choice(["Get", "Get", "Get", "Set", "Set", "Set", "Del", "Add", "Add", "Rem"])
        if k == "Set":
            op = [k, n, rnd.choice(VALUES)]
        elif k == "Add":
            op = [k, n, rnd.choice(POLS)]
            ctx.count("add-policy:" + op[2][0])
            op[2] = maybe_rt(rnd, ctx, op[2])
        else:
            op = [k, n]
        ctx.count("op:" + k)
        ops.append(op)
    return dict(h, ops=ops, kind="history")


def random_op(rnd, ctx, names, early=False):
    n = rnd.choice(names)
    k = rnd.choice(["Get", "Get", "Get", "Set", "Set", "Set", "Del", "Add", "Add", "Rem"])
    if k == "Set":
        op = [k, n, rnd.choice(VALUES)]
    elif k == "Add":
        op = [k, n, maybe_rt(rnd, ctx, rnd.choice(POLS))]
    else:
        op = [k, n]
    ctx.count(("early-op:" if early else "op:") + k)
    return op + ["E"] if early else op


def staged_history(h, rnd, ctx, maxlen):
    """An early history on another instance (same class: shared cache; or a class that exists before
    the last classes are created: the cache is inherited), then the main history."""
    n = len(h["classes"])
    if n >= 2 and rnd.random() < 0.6:
        nlate = rnd.randint(1, n - 1)
        precls = NROOTS + rnd.randrange(n - nlate)
        kind = "staged-late-classes"
    else:
        nlate, precls, kind = 0, h["cls"], "staged-second-instance"
    names = focus_names(h, rnd)
    ops = [random_op(rnd, ctx, names, True) for _ in range(rnd.randint(1, 8))]
    ops += [random_op(rnd, ctx, names) for _ in range(rnd.randint(3, maxlen))]
    return dict(h, ops=ops, nlate=nlate, precls=precls, kind=kind)


MAPS = [["Map", [[1, 11], [2, 12]], 1], ["Map", [[2, 3], [6, 5], [3, 3]], 6]]
MAP_VALUES = [1, 2, 3, 6, 5, 11, 12, 101, 200]


def mapped_history(h, rnd, ctx, maxlen):
    """add_trait / remove_trait of mapped traits (Map: shadow name_), probes of name and name_ before and after."""
    bases = rnd.sample(["ab", "a", "b", "_a", "ba", "m", "_m", "a_b"], rnd.randint(1, 2))
    names = [x for b in bases for x in (b, b, b + "_", b + "_", b + "_items")] + [bases[0] + "a"]
    ops = []
    for _ in range(rnd.randint(4, maxlen)):
        n = rnd.choice(names)
        r = rnd.random()
        if not n.endswith("_") and not n.endswith("_items") and r < 0.22:
            op = ["Add", n, rnd.choice(MAPS + [["List"]])]
        elif not n.endswith("_") and r < 0.36:
            op = ["Rem", n]
        elif r < 0.42:
            op = ["Add", n, rnd.choice(POLS)]
        elif r < 0.47:
            op = ["Rem", n]
        elif r < 0.72:
            op = ["Get", n]
        elif r < 0.93:
            op = ["Set", n, rnd.choice(MAP_VALUES)]
        else:
            op = ["Del", n]
        ctx.count("mapped-op:" + op[0] + ("-" + op[2][0] if op[0] == "Add" and op[2][0] in ("Map", "List") else ""))
        if op[0] == "Add":
            op[2] = maybe_rt(rnd, ctx, op[2])
        ops.append(op + ["B"] if rnd.random() < 0.15 else op)
    return dict(h, ops=ops, kind="mapped")


LISTENER_POLS = [["Typed", "VInt", 7], ["Constant", 3], ["ReadOnly"], ["Event"], ["Disallow"], ["Any", 5],
                 ["Typed", "VStr", 102], ["Typed", "VInt", 7], ["Constant", 104]]


def listener_history(rnd, ctx, maxlen):
    """A class whose trait_added listener declares traits lazily (names with a prefix of the table get an
    instance trait the first time they are resolved for the class); first touches are get / set valid /
    set invalid / del / add_trait, on two instances (the second one finds the names already resolved)."""
    root = rnd.choice([0, 0, 1, 2])
    classes = [{"decls": gen_decls(rnd, ctx, 2), "bases": [root]}]
    if rnd.random() < 0.3:
        classes.append({"decls": gen_decls(rnd, ctx, 1), "bases": [NROOTS]})
    prefixes = rnd.sample(["n", "k", "_n", "ab", "b_"], rnd.randint(1, 2))
    table = [[q, rnd.choice(LISTENER_POLS)] for q in prefixes]
    for q, p in table:
        ctx.count("listener-policy:" + p[0])
    names = [q + x for q in prefixes for x in ("a", "b")] + ["zz"]
    ops = []
    for _ in range(rnd.randint(3, maxlen)):
        n = rnd.choice(names)
        r = rnd.random()
        if r < 0.30:
            op = ["Get", n]
        elif r < 0.70:
            op = ["Set", n, rnd.choice(VALUES)]
        elif r < 0.80:
            op = ["Del", n]
        elif r < 0.90:
            op = ["Add", n, rnd.choice([q for q in POLS if q != ["Event", "VInt"]])]
        else:
            op = ["Rem", n]
        ctx.count("listener-op:" + op[0])
        ops.append(op + ["B"] if rnd.random() < 0.3 else op)
    return {"classes": classes, "cls": NROOTS + len(classes) - 1, "listener": table, "ops": ops, "kind": "listener"}


def listener_corpus():
    """The demo of seeded change C13-n2: first touch = invalid write / write to a Constant / read."""
    tab = [["n_", ["Typed", "VInt", 7]], ["k_", ["Constant", 3]]]
    cs = []
    for root in (0, 1, 2):
        for first in (["Set", "n_b", 101], ["Set", "k_c", 1], ["Get", "n_d"], ["Del", "n_e"], ["Set", "n_f", 5],
                      ["Add", "n_g", ["Typed", "VStr", 102]], ["Get", "k_h"]):
            n = first[1]
            cs.append({"classes": [{"decls": [], "bases": [root]}], "cls": 3, "listener": tab, "kind": "listener-corpus",
                       "ops": [first, ["Get", n], ["Set", n, 101], ["Set", n, 6], ["Get", n], ["Get", n, "B"],
                               ["Set", n, 101, "B"], ["Rem", n], ["Get", n], ["Set", "zz", 1], ["Get", "zz"]]})
    return cs


CLASS_POLS = [["Typed", "VInt", 7], ["Typed", "VStr", 102], ["Any", 5], ["ReadOnly"], ["Disallow"], ["Event"],
              ["Constant", 3], ["Python"]]


def classops_history(rnd, ctx, maxlen):
    """add_class_trait of explicit names and wildcards (specific-then-general and general-then-specific) on a
    single-inheritance chain with existing subclasses and existing instances; probes on all instances."""
    root = rnd.choice([0, 0, 1, 2])
    n = rnd.choice([1, 2, 2, 3])
    classes = []
    for i in range(n):
        classes.append({"decls": gen_decls(rnd, ctx, 2), "bases": [root if i == 0 else NROOTS + i - 1]})
    objs = [NROOTS + rnd.randrange(n) for _ in range(rnd.randint(1, 3))]
    stem = rnd.choice(["c", "ab", "_c"])
    wild = [stem + "_", stem + "a_", stem + "ab_", stem + "b_"]          # prefixes stem, stem+a, stem+ab, stem+b
    names = [stem + "abx", stem + "ax", stem + "x", stem + "ab", stem + "a", stem + "bx", "zz"]
    ops = []
    for _ in range(rnd.randint(4, maxlen)):
        r = rnd.random()
        if r < 0.22:
            op = ["AddClass", rnd.choice(wild), maybe_rt(rnd, ctx, rnd.choice(CLASS_POLS)), NROOTS + rnd.randrange(n)]
            ctx.count("classop:add-wildcard")
        elif r < 0.30:
            op = ["AddClass", rnd.choice(names), maybe_rt(rnd, ctx, rnd.choice(CLASS_POLS)), NROOTS + rnd.randrange(n)]
            ctx.count("classop:add-explicit")
        else:
            nm = rnd.choice(names)
            q = rnd.random()
            base = ["Get", nm] if q < 0.4 else ["Set", nm, rnd.choice(VALUES)] if q < 0.85 else \
                ["Del", nm] if q < 0.92 else ["Add", nm, rnd.choice(CLASS_POLS)] if q < 0.96 else ["Rem", nm]
            op = base + ["#%d" % rnd.randrange(len(objs))]
            ctx.count("classop:" + base[0])
        ops.append(op)
    return {"classes": classes, "objs": objs, "cls": objs[0], "ops": ops, "kind": "classops"}


def classops_corpus():
    """The demo of seeded change C13-t2 (specific wildcard first, general second; a class with a declared
    wildcard and a subclass; a later, shorter Disallow wildcard) and the reverse orders."""
    I, S, RO, D = ["Typed", "VInt", 7], ["Typed", "VStr", 102], ["ReadOnly"], ["Disallow"]
    cs = []
    for root in (0, 1, 2):
        for first, second in ((["cab_", I], ["c_", S]), (["c_", S], ["cab_", I]), (["cab_", I], ["c_", D]),
                              (["ca_", RO], ["c_", I])):
            cs.append({"classes": [{"decls": [], "bases": [root]}, {"decls": [], "bases": [3]}], "objs": [3, 4, 3],
                       "cls": 3, "kind": "classops-corpus",
                       "ops": [["Get", "cax", "#2"], ["AddClass"] + first + [3], ["AddClass"] + second + [3],
                               ["Get", "cabx", "#0"], ["Set", "cabx", 101, "#0"], ["Set", "cabx", 5, "#0"], ["Get", "cx", "#0"],
                               ["Set", "caby", 101, "#1"], ["Set", "caby", 6, "#1"], ["Set", "caby", 1, "#1"],
                               ["Get", "cy", "#1"], ["Get", "cax", "#2"], ["Set", "cax", 101, "#2"],
                               ["AddClass"] + second + [3], ["AddClass", "cq", I, 3], ["Get", "cq", "#1"],
                               ["AddClass", "cq", S, 4], ["AddClass", "cabx", I, 3]]})
    # explicit name added to the base after the subclass has the name cached (listed finding)
    cs.append({"classes": [{"decls": [], "bases": [0]}, {"decls": [], "bases": [3]}], "objs": [4, 3], "cls": 4,
               "kind": "classops-corpus",
               "ops": [["Get", "zz", "#0"], ["AddClass", "zz", S, 3], ["Get", "zz", "#0"], ["Get", "zz", "#1"],
                       ["Set", "zz", 1, "#1"], ["AddClass", "zz", I, 4]]})
    cs.append({"classes": [{"decls": [["ca_", RO]], "bases": [1]}, {"decls": [], "bases": [3]}], "objs": [3, 4], "cls": 3,
               "kind": "classops-corpus",
               "ops": [["AddClass", "c_", I, 3], ["Set", "cax", 101, "#0"], ["Set", "cax", 102, "#0"], ["Get", "cax", "#0"],
                       ["Get", "cz", "#0"], ["Set", "cay", 101, "#1"], ["Set", "cay", 102, "#1"], ["Get", "cz", "#1"]]})
    return cs


# ----- fourth wave: state round trip (C13-u1), listeners (C13-u2), delegation (C13-u3) ---------------------------
RT_POLS = [["Python"], ["Any", 5], ["Disallow"], ["ReadOnly"], ["ReadOnly", 9], ["Constant", 3], ["Event"],
           ["Event", "VInt"], ["Typed", "VInt", 7], ["Typed", "VStr", 102], ["Typed", "VCInt", 8]]


def rt_corpus():
    """add_trait(name, round_trip(definition)) for every policy kind and every route: the name must be governed
    exactly as by the original definition (the demo of C13-u1: a ReadOnly definition that was copied)."""
    cs = []
    for root in (0, 1, 2):
        for how in RT_HOW:
            ops = []
            for i, pol in enumerate(RT_POLS):
                n = "r%s" % "abcdefghijk"[i]
                ops += [["Add", n, ["RT", how, pol]], ["Get", n], ["Set", n, 1], ["Set", n, 2], ["Get", n], ["Set", n, 101],
                        ["Del", n], ["Get", n]]
            ops += [["Rem", "rd"], ["Set", "rd", 5], ["Get", "rd"]]
            cs.append({"classes": [{"decls": [], "bases": [root]}], "cls": 3, "ops": ops, "kind": "round-trip-corpus"})
            cs.append({"classes": [{"decls": [], "bases": [root]}], "cls": 3, "kind": "round-trip-corpus",
                       "ops": [["Add", "ab", ["RT", how, MAPS[0]]], ["Get", "ab"], ["Get", "ab_"], ["Set", "ab", 2],
                               ["Get", "ab_"], ["Set", "ab", 5], ["Add", "b", ["RT", how, ["List"]]], ["Get", "b"],
                               ["Set", "b_items", 1], ["Rem", "ab"], ["Get", "ab_"], ["Rem", "b"], ["Get", "b_items"]]})
    return cs


def rt_classops_corpus():
    """add_class_trait(name, round_trip(definition)) (second half of the C13-u1 demo)."""
    cs = []
    for root in (0, 1, 2):
        for how in RT_HOW:
            ops = []
            for i, pol in enumerate(RT_POLS):
                n = "c%s" % "abcdefghijk"[i]
                ops += [["AddClass", n, ["RT", how, pol], 3], ["Get", n, "#0"], ["Set", n, 1, "#0"], ["Set", n, 2, "#0"],
                        ["Get", n, "#0"], ["Set", n, 101, "#1"], ["Del", n, "#1"], ["Get", n, "#1"]]
            ops += [["AddClass", "w_", ["RT", how, ["ReadOnly"]], 3], ["Set", "wx", 1, "#1"], ["Set", "wx", 2, "#1"],
                    ["Get", "wx", "#1"]]
            cs.append({"classes": [{"decls": [], "bases": [root]}, {"decls": [], "bases": [3]}], "objs": [3, 4],
                       "cls": 3, "kind": "round-trip-classops-corpus", "ops": ops})
    return cs


def kw_classops_corpus():
    """C13-w1: keyword-stem wildcards declared in the class body and added with add_class_trait are the same thing."""
    I, S = ["Typed", "VInt", 7], ["Typed", "VStr", 102]
    cs = []
    for root in (0, 1, 2):
        cs.append({"classes": [{"decls": [["is_", I]], "bases": [root]}, {"decls": [["from_", S]], "bases": [3]}],
                   "objs": [3, 4], "cls": 3, "kind": "keyword-classops-corpus",
                   "ops": [["Set", "is_ready", 101, "#0"], ["Set", "is_ready", 5, "#0"], ["Get", "is_ok", "#1"],
                           ["AddClass", "in_", I, 3], ["Set", "in_use", 101, "#0"], ["Get", "in_use", "#1"],
                           ["AddClass", "is_", S, 3], ["AddClass", "from_", I, 3], ["Set", "from_a", 5, "#1"],
                           ["Set", "from_b", 5, "#0"], ["Get", "from_b", "#0"], ["AddClass", "as_", ["ReadOnly"], 4],
                           ["Set", "as_x", 1, "#1"], ["Set", "as_x", 2, "#1"], ["Set", "as_x", 1, "#0"]]})
    return cs


def items_classops_corpus():
    """C13-v3: names a class owns without declaring them in __base_traits__ — the <name>_items event trait of a
    List declared in the class body — are definitions too: add_class_trait of such a name on the class raises,
    on a base class it skips the subclass that owns it."""
    cs = []
    I, S, A5 = ["Typed", "VInt", 7], ["Typed", "VStr", 102], ["Any", 5]
    for root in (0, 1, 2):
        for pol in (I, S, A5, ["ReadOnly"], ["Constant", 3]):
            # class 3 plain, class 4(3) declares ab = List(Int): owns ab and ab_items
            cs.append({"classes": [{"decls": [], "bases": [root]}, {"decls": [["ab", ["List"]]], "bases": [3]},
                                   {"decls": [], "bases": [4]}], "objs": [4, 3, 5], "cls": 4,
                       "kind": "items-classops-corpus",
                       "ops": [["AddClass", "ab_items", pol, 3], ["Get", "ab_items", "#0"], ["Set", "ab_items", 200, "#0"],
                               ["Set", "ab_items", 5, "#0"], ["Get", "ab_items", "#1"], ["Set", "ab_items", 5, "#1"],
                               ["Get", "ab_items", "#2"], ["Set", "ab_items", 5, "#2"], ["AddClass", "ab_items", pol, 4],
                               ["Get", "ab_items", "#0"], ["Set", "ab_items", 5, "#0"], ["Get", "ab", "#0"],
                               ["AddClass", "ab", pol, 3], ["Get", "ab", "#2"], ["Set", "ab", 5, "#2"]]})
            cs.append({"classes": [{"decls": [["b", ["List"]]], "bases": [root]}, {"decls": [], "bases": [3]}],
                       "objs": [3, 4], "cls": 3, "kind": "items-classops-corpus",
                       "ops": [["AddClass", "b_items", pol, 3], ["Get", "b_items", "#0"], ["Set", "b_items", 5, "#0"],
                               ["Set", "b_items", 200, "#1"], ["Get", "b_items", "#1"], ["AddClass", "b_items", pol, 4],
                               ["Get", "b_items", "#1"]]})
    return cs


def abcify(case):
    """The same case under the ABC variants of the root classes (C13-v1): ABCHasTraits(HasTraits) with no
    declarations and ABCHasStrictTraits(ABCHasTraits) with `_ = Disallow` become classes 3 and 4 (library classes,
    described by what they promise); HasTraits -> 3, HasStrictTraits -> 4, user class k -> k + 2."""
    def mp(b):
        return {0: 3, 1: 4, 2: 2}[b] if b < NROOTS else b + 2
    c = json.loads(json.dumps(case))
    c["classes"] = ([{"lib": "ABCHasTraits", "decls": [], "bases": [0]},
                     {"lib": "ABCHasStrictTraits", "decls": [["_", ["Disallow"]]], "bases": [3]}]
                    + [{"decls": cd["decls"], "bases": [mp(b) for b in cd["bases"]]} for cd in case["classes"]])
    c["cls"] = mp(case["cls"])
    if "precls" in c:
        c["precls"] = mp(case["precls"])
    c["kind"] = "abc-" + case.get("kind", "")
    bases_of = {0: [], 1: [0], 2: [0]}
    for i, cd in enumerate(c["classes"]):
        bases_of[NROOTS + i] = cd["bases"]
        if c3_mro(bases_of, NROOTS + i, {}) is None:
            return None     # Python would refuse the class (the root classes are no longer siblings)
    return c


def abc_corpus():
    """The demo of C13-v1: an undeclared (misspelled) name on a subclass of ABCHasStrictTraits."""
    cs = []
    for decls in ([], [["ab", ["Typed", "VInt", 7]]], [["a_", ["Typed", "VStr", 102]]]):
        cs.append(abcify({"classes": [{"decls": decls, "bases": [1]}], "cls": 3, "kind": "corpus",
                          "ops": [["Set", "ba", 101], ["Get", "ba"], ["Get", "b"], ["Set", "ab", 5], ["Get", "ab"],
                                  ["Del", "ba"], ["Set", "_x", 1], ["Get", "_x"], ["Add", "ba", ["Any", 5]], ["Set", "ba", 1],
                                  ["Rem", "ba"], ["Set", "ba", 1]]}))
        cs.append(abcify({"classes": [{"decls": decls, "bases": [0]}, {"decls": [], "bases": [3, 1]}], "cls": 4,
                          "kind": "corpus", "ops": [["Set", "ba", 101], ["Get", "ba"], ["Set", "ab", 5], ["Get", "ab"]]}))
    return cs


def visible_explicit(classes, k, memo=None):
    """Explicit names visible in class k (absolute index), own declarations first, then the bases in order, the
    first base that has the name wins — how update_traits_class_dict merges class traits."""
    memo = {} if memo is None else memo
    if k in memo:
        return memo[k]
    vis = {}
    if k >= NROOTS:
        cd = classes[k - NROOTS]
        for n, p in cd["decls"]:
            if not n.endswith("_"):
                vis[n] = with_default(p[2], p[1]) if p[0] == "Default" else p
        for b in cd["bases"]:
            for n, p in visible_explicit(classes, b, memo).items():
                vis.setdefault(n, p)
    memo[k] = vis
    return vis


def with_default(p, v):
    """The definition `p` with default value v, or None when a plain class attribute cannot override it here."""
    p = unrt(p)
    if p[0] == "Typed":
        # CInt coerces the new default when the trait is cloned; Int and Str keep it as given (not validated)
        return None if (p[1] == "VCInt" and v >= 100) else ["Typed", p[1], v]
    if p[0] == "Any":
        return ["Any", v]
    if p[0] == "ReadOnly":
        return ["ReadOnly", v]
    return None


def add_override_class(h, rnd, ctx):
    """One more class with several bases whose body gives new default values (`name = value`) to traits the bases
    define — possibly differently: the trait of the FIRST base that has the name is the one re-defaulted (C13-v2)."""
    classes = json.loads(json.dumps(h["classes"]))
    n = len(classes)
    k = NROOTS + n
    bases_of = {0: [], 1: [0], 2: [0]}
    for i, cd in enumerate(classes):
        bases_of[NROOTS + i] = cd["bases"]
    for _attempt in range(20):
        bases = rnd.sample(range(NROOTS, k), min(rnd.choice([1, 2, 2, 3]), n))
        bases_of[k] = bases
        if c3_mro(bases_of, k, {}) is not None:
            break
    else:
        bases = [k - 1]
    memo, decls, seen = {}, [], set()
    for b in bases:
        for name, p in visible_explicit(classes, b, memo).items():
            if name in seen:
                continue
            seen.add(name)
            v = rnd.choice([0, 1, 5, 6, 101, 104])
            q = with_default(p, v)
            if q is not None and v != 201 and rnd.random() < 0.7:
                decls.append([name, ["Default", v, unrt(p)]])
                ctx.count("default-override:" + q[0])
    classes.append({"decls": decls, "bases": bases})
    return {"classes": classes, "cls": k}


def override_hierarchy(rnd, ctx):
    """Two or three classes defining the same explicit names differently, then the overriding class."""
    names = rnd.sample(["x", "ab", "b", "ba", "aa"], 3)
    kinds = [["Typed", "VInt", 7], ["Typed", "VStr", 102], ["Any", 5], ["ReadOnly"], ["Typed", "VCInt", 8], ["ReadOnly", 9]]
    classes = []
    for i in range(rnd.choice([2, 2, 3])):
        decls = [[nm, rnd.choice(kinds)] for nm in names if rnd.random() < 0.8]
        if rnd.random() < 0.3:
            decls.append([rnd.choice(PREFIXES) + "_", rnd.choice(POLS)])
        base = rnd.choice([0, 0, 1, 2]) if i == 0 or rnd.random() < 0.7 else NROOTS + rnd.randrange(i)
        classes.append({"decls": decls, "bases": [base]})
    return add_override_class({"classes": classes, "cls": NROOTS + len(classes) - 1}, rnd, ctx)


def override_corpus():
    """The demo of C13-v2: A.x = ReadOnly, B.x = Int; class C(A, B): x = 5 re-defaults A's ReadOnly."""
    I, S, RO = ["Typed", "VInt", 7], ["Typed", "VStr", 102], ["ReadOnly"]
    cs = []
    for first, second in ((RO, I), (I, RO), (S, I), (["Any", 5], S), (I, S)):
        for root in (0, 1):
            for order in ([3, 4], [4, 3]):
                top = first if order[0] == 3 else second
                cs.append({"classes": [{"decls": [["x", first]], "bases": [root]}, {"decls": [["x", second]], "bases": [root]},
                                       {"decls": [["x", ["Default", 5, top]]], "bases": order}],
                           "cls": 5, "kind": "override-corpus",
                           "ops": [["Get", "x"], ["Set", "x", 1], ["Get", "x"], ["Set", "x", 101], ["Get", "x"], ["Set", "x", 2],
                                   ["Del", "x"], ["Get", "x"]]})
    return cs


def plain_names(h, rnd):
    return [n for n in focus_names(h, rnd) if not n.startswith("__")] or ["a"]


def delegate_history(h, rnd, ctx, maxlen):
    """A plain HasTraits object delegating (DelegatesTo, modify semantics, listenable=False, one link) attributes
    d0, d1, ... to names of the instance under test: declared there, governed by a wildcard only, undeclared.
    Operations flagged "V:<d>" go through the delegating attribute, the others directly to the instance."""
    names = sorted(set(plain_names(h, rnd) + rnd.sample(["hue", "ab", "b", "_a", "aab", "ba"], 2)))
    dl = [["d%d" % i, t, 0] for i, t in enumerate(names)]
    ops = []
    for _ in range(rnd.randint(4, maxlen)):
        a, t, _l = rnd.choice(dl)
        r = rnd.random()
        if r < 0.55:
            q = rnd.random()
            op = ["Get", t] if q < 0.35 else ["Set", t, rnd.choice(VALUES)] if q < 0.9 else ["Del", t]
            op.append("V:" + a)
            ctx.count("delegate-op:via-" + op[0])
        else:
            op = random_op(rnd, ctx, names)
            ctx.count("delegate-op:direct-" + op[0])
        ops.append(op)
    return dict(h, ops=ops, delegations=dl, kind="delegate")


def delegate_corpus():
    """The demo of C13-u3: a strict class with size = Int and tmp_ = Str behind a plain delegating object."""
    cs = []
    I, S = ["Typed", "VInt", 7], ["Typed", "VStr", 102]
    dl = [["d0", "size", 0], ["d1", "hue", 0], ["d2", "tmp_note", 0], ["d3", "_p", 0]]
    for root in (0, 1, 2):
        for decls in ([["size", I], ["tmp_", S]], [["size", I]], [["tmp_", S], ["_", ["Disallow"]]]):
            cs.append({"classes": [{"decls": decls, "bases": [root]}], "cls": 3, "delegations": dl, "kind": "delegate-corpus",
                       "ops": [["Set", "size", 3, "V:d0"], ["Get", "size"], ["Set", "hue", 9, "V:d1"], ["Get", "hue"],
                               ["Get", "hue", "V:d1"], ["Set", "tmp_note", 5, "V:d2"], ["Set", "tmp_note", 101, "V:d2"],
                               ["Get", "tmp_note"], ["Set", "_p", 1, "V:d3"], ["Get", "_p", "V:d3"], ["Del", "size", "V:d0"],
                               ["Get", "size", "V:d0"], ["Set", "hue", 1], ["Set", "other", 2]]})
    return cs


def listen_history(h, rnd, ctx, maxlen):
    """on_trait_change(handler, name) / on_trait_change(handler, name, remove=True) among the operations of one
    instance: attaching gives the name an instance trait (a clone of the trait that governs it anyway), detaching
    changes nothing; an instance trait added with add_trait must survive both."""
    names = plain_names(h, rnd)
    ops, live = [], set()
    for _ in range(rnd.randint(4, maxlen)):
        n = rnd.choice(names)
        r = rnd.random()
        if r < 0.22:
            op = ["Get", n]
        elif r < 0.47:
            op = ["Set", n, rnd.choice(VALUES)]
        elif r < 0.52:
            # not once a handler was attached to n (the instance trait keeps its notifier list, even when empty):
            # setattr_trait's delete branch then computes the notification's new value, which re-materialises
            # the default in obj.__dict__ (ctraits.c l.2433-2437; notification machinery, outside this property)
            op = ["Get", n] if n in live else ["Del", n]
        elif r < 0.66:
            op = ["Add", n, maybe_rt(rnd, ctx, rnd.choice(POLS), 0.15)]
        elif r < 0.74:
            op = ["Rem", n]
        elif r < 0.89:
            op = ["Listen", n]
        else:
            op = ["Unlisten", n]
        if op[0] == "Listen":
            live.add(n)
        ctx.count("listen-op:" + op[0])
        ops.append(op)
    return dict(h, ops=ops, listen=True, kind="listen")


def clone_history(h, rnd, ctx, maxlen):
    """Operations on an instance a, copies of it (copy.copy / pickle: __getstate__ + __setstate__ on a new object),
    operations on the latest copy b (flag "B").  Plain traits only."""
    names = plain_names(h, rnd)
    ops = []
    for _ in range(rnd.randint(4, maxlen)):
        r = rnd.random()
        if r < 0.2:
            op = ["Clone", rnd.choice(["copy", "pickle"])]
            ctx.count("clone-op:Clone")
        else:
            op = random_op(rnd, ctx, names)
            if op[0] == "Add":
                op[2] = unrt(op[2])
            if rnd.random() < 0.35:
                op.append("B")
        ops.append(op)
    return dict(h, ops=ops, clone=True, kind="clone")


def clone_corpus():
    """The demo of C13-w3: a strict object carrying an added trait with a value cannot be copied; state entries are
    governed by the copy's own rules (wildcard validates, strict refuses)."""
    I, S = ["Typed", "VInt", 7], ["Typed", "VStr", 102]
    cs = []
    for root in (0, 1):
        for how in ("copy", "pickle"):
            cs.append({"classes": [{"decls": [["x", I]], "bases": [root]}], "cls": 3, "clone": True, "kind": "clone-corpus",
                       "ops": [["Set", "x", 1], ["Clone", how], ["Get", "x", "B"], ["Add", "lab", S], ["Clone", how],
                               ["Set", "lab", 101], ["Clone", how], ["Get", "lab", "B"], ["Set", "lab", 5, "B"], ["Get", "lab", "B"],
                               ["Rem", "lab"], ["Clone", how], ["Get", "lab", "B"], ["Get", "x", "B"]]})
            cs.append({"classes": [{"decls": [["x", I], ["n_", I], ["r", ["ReadOnly"]], ["c", ["Constant", 3]], ["e", ["Event"]]],
                                    "bases": [root]}], "cls": 3, "clone": True, "kind": "clone-corpus",
                       "ops": [["Clone", how], ["Get", "r", "B"], ["Set", "r", 1, "B"], ["Set", "r", 2], ["Set", "n_a", 5],
                               ["Set", "zz", 1], ["Add", "n_b", S], ["Set", "n_b", 101], ["Clone", how], ["Get", "n_a", "B"],
                               ["Get", "n_b", "B"], ["Get", "zz", "B"], ["Set", "r", 3, "B"], ["Add", "k", ["ReadOnly", 9]],
                               ["Clone", how], ["Get", "k", "B"]]})
    return cs


def listen_corpus():
    """The demo of C13-u2: add_trait, attach, detach, then the instance trait must still govern."""
    cs = []
    I = ["Typed", "VInt", 7]
    for root in (0, 1, 2):
        for pol in (["ReadOnly"], ["Constant", 3], ["Event"], ["Disallow"], ["Typed", "VStr", 102], ["Python"]):
            cs.append({"classes": [{"decls": [["ab", I], ["b_", ["Any", 5]]], "bases": [root]}], "cls": 3, "listen": True,
                       "kind": "listen-corpus",
                       "ops": [["Add", "c", pol], ["Set", "c", 1], ["Listen", "c"], ["Unlisten", "c"], ["Set", "c", 2],
                               ["Get", "c"], ["Add", "ab", pol], ["Listen", "ab"], ["Unlisten", "ab"], ["Set", "ab", 10],
                               ["Get", "ab"], ["Rem", "ab"], ["Get", "ab"], ["Set", "ab", 4], ["Get", "ab"], ["Rem", "c"],
                               ["Get", "c"]]})
        cs.append({"classes": [{"decls": [["ab", I], ["b_", ["ReadOnly"]]], "bases": [root]}], "cls": 3, "listen": True,
                   "kind": "listen-corpus",
                   "ops": [["Listen", "ab"], ["Get", "ab"], ["Set", "ab", 5], ["Unlisten", "ab"], ["Set", "ab", 101],
                           ["Rem", "ab"], ["Get", "ab"], ["Listen", "bx"], ["Set", "bx", 1], ["Set", "bx", 2], ["Unlisten", "bx"],
                           ["Set", "bx", 3], ["Rem", "bx"], ["Set", "bx", 3], ["Listen", "zz"], ["Set", "zz", 1], ["Get", "zz"],
                           ["Unlisten", "zz"], ["Unlisten", "q"], ["Rem", "zz"], ["Rem", "zz"]]})
    return cs



def two_instance_history(h, rnd, ctx, maxlen):
    """Operations interleaved on two instances of one class: shared cache, separate traits and values."""
    names = focus_names(h, rnd)
    ops = []
    for _ in range(rnd.randint(4, maxlen)):
        op = random_op(rnd, ctx, names)
        ops.append(op + ["B"] if rnd.random() < 0.5 else op)
    return dict(h, ops=ops, kind="two-instances")


def corpus():
    """Triggers of the listed finding and minimised past failures: run first, on every run."""
    cs = []
    h = {"classes": [{"decls": [], "bases": [0]}], "cls": 3}
    for pol in (["Event"], ["Disallow"], ["Constant", 3]):
        cs.append(dict(h, ops=[["Set", "ab", 5], ["Add", "ab", pol], ["Get", "ab"], ["Rem", "ab"], ["Get", "ab"]],
                       kind="corpus"))
    # a class created after an instance of its base resolved 'ab' through the base's wildcard
    late = {"classes": [{"decls": [["a_", ["Typed", "VInt", 7]]], "bases": [0]},
                        {"decls": [["a_", ["Typed", "VStr", 102]]], "bases": [3]}], "cls": 4, "nlate": 1, "precls": 3}
    cs.append(dict(late, ops=[["Set", "ab", 1, "E"], ["Set", "ab", 101], ["Get", "ab"], ["Set", "aa", 101], ["Get", "aa"]],
                   kind="corpus"))
    # inheritance not along the MRO: K(A, HasStrictTraits) accepts undeclared names; D(L, R) ignores R.x
    cs.append(dict({"classes": [{"decls": [], "bases": [0]}, {"decls": [], "bases": [3, 1]}], "cls": 4},
                   ops=[["Set", "ab", 5], ["Get", "ab"], ["Get", "b"]], kind="corpus"))
    cs.append(dict({"classes": [{"decls": [["ab", ["Typed", "VInt", 7]]], "bases": [0]}, {"decls": [], "bases": [3]},
                                {"decls": [["ab", ["Typed", "VStr", 102]]], "bases": [3]}, {"decls": [], "bases": [4, 5]}],
                    "cls": 6}, ops=[["Set", "ab", 101], ["Get", "ab"], ["Set", "ab", 1]], kind="corpus"))
    # two instances of one class share the cache, not the instance traits nor the values
    two = {"classes": [{"decls": [["a_", ["Typed", "VInt", 7]], ["b_", ["ReadOnly"]]], "bases": [1]}], "cls": 3,
           "nlate": 0, "precls": 3}
    cs.append(dict(two, ops=[["Set", "ab", 1, "E"], ["Add", "ab", ["Event"], "E"], ["Set", "bb", 1, "E"], ["Get", "ab"],
                             ["Set", "ab", 101], ["Set", "bb", 2], ["Set", "bb", 3], ["Rem", "ab"], ["Get", "ab"]],
                   kind="corpus"))
    cs.append(dict({"classes": [{"decls": [["a_", ["Typed", "VInt", 7]]], "bases": [1]}], "cls": 3}, kind="corpus",
                   ops=[["Add", "ab", ["Event"]], ["Get", "ab", "B"], ["Set", "ab", 3, "B"], ["Get", "ab"], ["Set", "ab", 101],
                        ["Add", "b", ["Any", 5], "B"], ["Get", "b"], ["Get", "b", "B"], ["Rem", "ab", "B"], ["Rem", "ab"],
                        ["Get", "ab"], ["Get", "ab", "B"]]))
    # mapped instance trait: the shadow name_ comes and goes with it (seeded change C13-m3)
    for root in (0, 1, 2):
        for wild in ([], [["ab_", ["Typed", "VInt", 7]]], [["a_", ["Any", 5]]]):
            cs.append(dict({"classes": [{"decls": [["a", ["Typed", "VInt", 7]]] + wild, "bases": [root]}], "cls": 3},
                           kind="corpus",
                           ops=[["Get", "ab_"], ["Add", "ab", MAPS[0]], ["Get", "ab"], ["Get", "ab_"], ["Set", "ab", 2],
                                ["Get", "ab_"], ["Set", "ab", 5], ["Rem", "ab"], ["Get", "ab_"], ["Set", "ab_", 1],
                                ["Get", "ab"], ["Add", "ab", MAPS[1]], ["Get", "ab_"], ["Del", "ab"], ["Rem", "ab"],
                                ["Get", "ab_"], ["Get", "ab"]]))
    # the non-vacuity Example of the second main theorem (Props.v, mapped_theorem_nontrivial)
    cs.append(dict({"classes": [{"decls": [["a_", ["Typed", "VInt", 7]]], "bases": [1]}], "cls": 3}, kind="corpus",
                   ops=[["Set", "ab_", 5], ["Get", "b"], ["Add", "b", ["Any", 5]], ["Set", "b", 6], ["Add", "ab", MAPS[0]],
                        ["Get", "ab_"], ["Get", "ab"], ["Set", "ab", 2], ["Get", "ab_"], ["Set", "ab", 5], ["Set", "ab_", 9],
                        ["Set", "ab", 2], ["Del", "ab"], ["Del", "ab_"], ["Get", "ab_"], ["Rem", "ab"]]))
    # List instance trait: the name_items event trait comes and goes with it
    for root in (0, 1, 2):
        cs.append(dict({"classes": [{"decls": [["b_", ["Any", 5]]], "bases": [root]}], "cls": 3}, kind="corpus",
                       ops=[["Get", "ab_items"], ["Add", "ab", ["List"]], ["Get", "ab"], ["Get", "ab_items"],
                            ["Set", "ab_items", 1], ["Del", "ab_items"], ["Set", "ab", 5], ["Rem", "ab"], ["Get", "ab_items"],
                            ["Set", "ab_items", 1], ["Get", "ab"], ["Add", "b", ["List"]], ["Get", "b_items"], ["Rem", "b"],
                            ["Get", "b_items"]]))
    # a mapped trait declared in the class body (class_traits[name + "_"], has_traits.py l.488-491)
    cs.append(dict({"classes": [{"decls": [["ab", MAPS[0]]], "bases": [1]}, {"decls": [], "bases": [3]}], "cls": 4},
                   kind="corpus", ops=[["Get", "ab_"], ["Get", "ab"], ["Set", "ab", 2], ["Get", "ab_"], ["Set", "ab", 101],
                                       ["Del", "ab"], ["Get", "ab_"], ["Set", "ab_", 5], ["Rem", "ab"], ["Get", "ab_"]]))
    hs = {"classes": [{"decls": [["a_", ["Typed", "VInt", 7]]], "bases": [1]}], "cls": 3}
    cs.append(dict(hs, ops=[["Get", "ab"], ["Add", "ab", ["ReadOnly"]], ["Set", "ab", 1], ["Set", "ab", 2], ["Get", "ab"],
                            ["Rem", "ab"], ["Get", "ab"], ["Set", "ab", 101], ["Get", "b"], ["Set", "b", 1]],
                   kind="corpus"))
    # the non-vacuity Example of C13/Props.v (history_nontrivial), checked against the implementation too
    I, S = ["Typed", "VInt", 7], ["Typed", "VStr", 102]
    ex = {"classes": [{"decls": [["a_", I], ["ab_", ["Event"]]], "bases": [1]},
                      {"decls": [["a_", S], ["b", ["Constant", 3]]], "bases": [2]},
                      {"decls": [["bb", ["ReadOnly"]]], "bases": [3, 4]}], "cls": 5}
    cs.append(dict(ex, kind="corpus", ops=[
        ["Set", "aa", 5], ["Set", "aa", 101], ["Get", "abb"], ["Set", "abb", 1], ["Get", "b"], ["Set", "b", 4],
        ["Set", "bb", 1], ["Set", "bb", 2], ["Get", "bb"], ["Get", "c"], ["Set", "c", 1], ["Set", "_c", 101],
        ["Get", "_c"], ["Add", "c", ["Any", 5]], ["Set", "c", 6], ["Get", "c"], ["Rem", "c"], ["Get", "c"]]))
    return cs


def proofs_parallel(ctx, files):
    """ctx.proofs with the Props files re-checked concurrently (coqrun.check_props_parallel): the 108 theorems are
    spread over three files whose Print Assumptions take about 13 s each."""
    import os
    from vlib import coqrun
    tg = [f[:-2] + ".vo" for f in files]
    corr = os.path.join(os.path.dirname(files[0]), "Corr.v")
    if os.path.exists(os.path.join(coqrun.COQDIR, corr)):
        tg.append(corr[:-2] + ".vo")
    ok, log = coqrun.ensure_built(targets=tg)
    if not ok:
        ctx.notes.append("library build failed: " + log[-1500:])
    res = coqrun.check_props_parallel(files, ctx.scratch)
    for t in res["theorems"]:
        good = ok and res["ok"] and t in res["assumptions"]
        ctx.obligation("theorem " + t, good, res["assumptions"].get(t, "not checked"))
    ctx.cov["checker_cmd"] = "make -C coq (coq_makefile, full .vo build) && coqc -Q coq TV " + " ".join(res["files"])
    ctx.cov.setdefault("examples_nonvacuity", [])
    ctx.cov["examples_nonvacuity"] += res["examples"]
    for t, a in res["assumptions"].items():
        ctx.assumptions.append("%s: %s" % (t, " ".join(a.split())))
    if not (ok and res["ok"]):
        ctx.notes.append(res["log"][-3000:])
    return ok and res["ok"], (log if not ok else "") + res["log"]


def run(ctx):
    ok, log = proofs_parallel(ctx, PROPS)
    ctx.cov["trusted_base"] += [
        "tools/drivers/c13_driver.py (fresh class hierarchy per case, atom <-> Python value mapping, exception class "
        "enum) and tools/props/c13.py (generator, C3 filter for legal base lists)",
        "modelled, not verified: CPython dict / type.__new__ / MRO legality; trait notification machinery (no handlers "
        "are attached); the names trait_added / trait_modified and names with class attributes are outside the model",
    ]
    ctx.cov["rule"] = ("(a) probe blocks get/set/get/set/get/del/get in three orders for every name over {_,a,b} up to "
                       "length 4 plus dunder names, on fresh instances of fixed corner hierarchies and seeded random "
                       "hierarchies (depth <= 4, multiple inheritance, strict/private roots, wildcard prefixes of length "
                       "0-3, every policy kind); (b) random histories of get/set/del/add_trait/remove_trait on names "
                       "chosen to hit declared names and prefixes; a case is non-trivial if some step raises and some "
                       "step succeeds; distinct = distinct (hierarchy, class, operation list)")
    rnd = random.Random(ctx.seed)
    if ctx.replay:
        cases = [json.load(open(ctx.replay))["replay"]["case"]]
    else:
        fixed = fixed_hierarchies()
        if ctx.tier == "quick":
            hiers = fixed + [gen_hierarchy(rnd, ctx) for _ in range(12)]
            names = rnd.sample(NAMES, 14) + DUNDERS[:1] + rnd.sample(KW_NAMES, 3)
            nhist, maxlen, group, nstaged = 250, 12, 5, 150
        else:
            hiers = fixed + [gen_hierarchy(rnd, ctx) for _ in range(60)]
            names = ALL_NAMES + KW_NAMES
            nhist, maxlen, group, nstaged = 6000, 30, 6, 2000
            ctx.cov["exhaustive"] = True
        cases = corpus() + rt_corpus() + delegate_corpus() + probe_cases(hiers, names, group, ctx, rnd)
        pool = fixed + [gen_hierarchy(rnd, ctx) for _ in range(60 if ctx.tier == "quick" else 600)]
        cases += [random_history(rnd.choice(pool), rnd, ctx, maxlen) for _ in range(nhist)]
        cases += [staged_history(rnd.choice(pool), rnd, ctx, maxlen) for _ in range(nstaged)]
        cases += [two_instance_history(rnd.choice(pool), rnd, ctx, maxlen) for _ in range(nstaged)]
        cases += [mapped_history(rnd.choice(pool), rnd, ctx, maxlen) for _ in range(2 * nstaged)]
        cases += [delegate_history(rnd.choice(pool), rnd, ctx, maxlen) for _ in range(nstaged * 2 // 3)]
        # class bodies giving new defaults to inherited traits (C13-v2)
        cases += override_corpus()
        opool = [override_hierarchy(rnd, ctx) for _ in range(20 if ctx.tier == "quick" else 200)] + \
                [add_override_class(rnd.choice(pool), rnd, ctx) for _ in range(20 if ctx.tier == "quick" else 200)]
        cases += [random_history(rnd.choice(opool), rnd, ctx, maxlen) for _ in range(nstaged * 2 // 3)]
        # the same under the ABC variants of the root classes (C13-v1)
        cases += abc_corpus() + [a for a in (abcify(c) for c in cases if rnd.random() < 0.06) if a is not None]
        ctx.count("hierarchies", len(hiers) + len(pool))
    for c in cases:
        ctx.count("case:" + c.get("kind", "replay"))
        ctx.count("probes(ops)", len(c["ops"]))
    for c in cases[:2] + cases[-2:]:
        ctx.sample(c)
    # batches of 7 shards: a coqc on a 1000-case shard needs up to 1.8 GB, and the machine is shared
    BATCH = 7000
    main_cases = [] if (ctx.replay and ("listener" in cases[0] or "objs" in cases[0] or "listen" in cases[0]
                                       or "clone" in cases[0])) else cases
    for b in range(0, len(main_cases), BATCH):
        hist.run(ctx, "c13_driver.py", main_cases[b:b + BATCH], to_term, HEADER, CASE_T, key_fn, describe, nontrivial,
                 relation="C13.Corr.corr_codes (Model.step = HasTraits attribute access on every step)"
                          + (" [cases %d-%d]" % (b, min(len(cases), b + BATCH) - 1) if len(cases) > BATCH else ""),
                 tag="cases%d" % (b // BATCH))
    # classes with a trait_added listener (C13/CorrL.v: step_l, law with adoption of the listener's trait)
    if not ctx.replay or ("listener" in cases[0] and "objs" not in cases[0]):
        if ctx.replay:
            lcases = cases
        else:
            lcases = listener_corpus() + [listener_history(rnd, ctx, maxlen)
                                          for _ in range(200 if ctx.tier == "quick" else 3000)]
            for c in lcases:
                ctx.count("case:" + c["kind"])
                ctx.count("probes(ops)", len(c["ops"]))
        hist.run(ctx, "c13_driver.py", lcases, to_term_l, HEADER_L, CASE_T_L, key_fn, describe, nontrivial,
                 relation="C13.CorrL.corr_codes (Model.step_l = attribute access on classes with a trait_added listener)",
                 tag="listener")
    # class-level operations at run time: add_class_trait (C13/CorrT.v)
    if not ctx.replay or "objs" in cases[0]:
        if ctx.replay:
            tcases = cases
        else:
            tcases = classops_corpus() + rt_classops_corpus() + items_classops_corpus() + kw_classops_corpus() + [classops_history(rnd, ctx, maxlen)
                                          for _ in range(200 if ctx.tier == "quick" else 3000)]
            for c in tcases:
                ctx.count("case:" + c["kind"])
                ctx.count("probes(ops)", len(c["ops"]))
        hist.run(ctx, "c13_driver.py", tcases, to_term_t, HEADER_T, CASE_T_T, key_fn, describe, nontrivial,
                 relation="C13.CorrT.corr_codes (Model.add_class + step = add_class_trait and attribute access)",
                 tag="classops")
    # on_trait_change listeners attached to / detached from names (C13/CorrN.v)
    if not ctx.replay or "listen" in cases[0]:
        if ctx.replay:
            ncases = cases
        else:
            ncases = listen_corpus() + [listen_history(rnd.choice(pool), rnd, ctx, maxlen)
                                        for _ in range(250 if ctx.tier == "quick" else 4000)]
            for c in ncases:
                ctx.count("case:" + c["kind"])
                ctx.count("probes(ops)", len(c["ops"]))
        hist.run(ctx, "c13_driver.py", ncases, to_term_n, HEADER_N, CASE_T_N, key_fn, describe, nontrivial,
                 relation="C13.CorrN.corr_codes (Model.step_n = attribute access with on_trait_change listeners attached "
                          "and detached)",
                 tag="listen")
    # copies of the object: copy.copy / pickle round trip (C13/CorrC.v)
    if not ctx.replay or "clone" in cases[0]:
        if ctx.replay:
            ccases = cases
        else:
            # not under HasPrivateTraits: its `__` wildcard is declared transient, so private names are not part of
            # the state — metadata the model's policies do not carry
            cpool = [h for h in pool if all(b != 2 for cd in h["classes"] for b in cd["bases"])]
            ccases = clone_corpus() + [clone_history(rnd.choice(cpool), rnd, ctx, maxlen)
                                       for _ in range(200 if ctx.tier == "quick" else 3000)]
            for c in ccases:
                ctx.count("case:" + c["kind"])
                ctx.count("probes(ops)", len(c["ops"]))
        hist.run(ctx, "c13_driver.py", ccases, to_term_c, HEADER_C, CASE_T_C, key_fn, describe, nontrivial,
                 relation="C13.CorrC.corr_codes (Model.clone = copy.copy / pickle round trip, two instances)",
                 tag="clone")
    proof_gate(ctx, ok, log, PROPS)
