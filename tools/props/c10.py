"""C10 — defaults are per instance, computed once, silent; instances (and the class) are isolated."""
import json
import random

from vlib import hist
from vlib.ctx import proof_gate
from vlib.term import C

HEADER = ("From Coq Require Import ZArith List.\n"
          "From TV Require Import Common.Harness C10.Model C10.Law C10.Corr.")
CASE_T = "C10.Corr.case"
PROPS = ["C10/Props.v"]
CLAUSE = {1: "first-read-default", 2: "read-notified", 3: "default-method-twice", 4: "later-read-differs",
          5: "default-aliased", 6: "other-instance-changed", 7: "class-table-changed", 8: "new-instance-not-empty",
          9: "default-not-stored", 10: "harness-digest", 11: "read-raised", 20: "declared-class-tables"}
CONTAINER = ("KListCopy", "KDictCopy", "KTraitList", "KTraitDict", "KTraitSet", "KArray")
KINDS = ["KConst", "KListCopy", "KDictCopy", "KTraitList", "KTraitDict", "KTraitSet", "KFactory", "KMethod",
         "KTuple", "KUnion", "KMethodInt", "KTuple2", "KArray", "KUuid"]


# ---- declared class tables (what the configuration says; compared in Coq with what the driver observed)
CMP = {"none": 0, "identity": 1, "equality": 2}


def tdef(kind, content, scalar, doid, nnotif, static, cmp=2, label=0):
    return dict(kind=kind, content=list(content), scalar=scalar, doid=doid, nnotif=nnotif, static=static, cmp=cmp,
                label=label)


def declared(case):
    nxt = 1
    base, rows0 = {}, []
    for t in sorted(case["traits"], key=lambda t: t["name"]):
        doid = 0
        if t["kind"] in CONTAINER:
            doid, nxt = nxt, nxt + 1
        d = tdef(t["kind"], t["content"], t["scalar"] if t["kind"] in ("KTuple", "KTuple2") else 0, doid,
                 1 if t["static"] else 0, t["static"],
                 2 if (t.get("dyn_enum") or t.get("dyn_range")) else CMP[t.get("cmp", "equality")])
        # (a property-like trait ignores the comparison mode)
        base[t["name"]] = d
        rows0.append([t["name"], d])
    ITEMS = ("KTraitList", "KTraitDict", "KTraitSet", "KMethod")
    shared = case.get("shared_ct")
    if shared:    # one CTrait object under several names: each name is its own definition (static handler on a clone)
        for n in sorted(shared["names"]):
            st = n in shared["static"]
            rows0.append([n, tdef("KConst", [shared["value"]], 0, 0, 1 if st else 0, st)])
    # the "<name>_items" event traits of the container traits (rows 1000 + n)
    rows0 += [[n + 1000, tdef("KEvent", [], 0, 0, 0, False)] for n, d in list(rows0) if d["kind"] in ITEMS]
    special = []
    wild = case.get("wild")
    if wild:      # the prefix trait (row -3) and, per name with a static handler, the definition it will get (3000 + n)
        for n in sorted(wild["static"]):
            special.append([n + 3000, tdef("KConst", [wild["default"]], 0, 0, 1, True)])
        special.append([-3, tdef("KConst", [wild["default"]], 0, 0, 0, False)])
    ta = tdef("KEvent", [], 0, 0, 1, True)      # HasTraits' own static handler of trait_added
    if case.get("anytrait"):
        # `_anytrait_changed` is a notifier of every class trait (also of the items events and of trait_added)
        for _, d in rows0:
            d["nnotif"] += 1
        ta["nnotif"] += 1
        special.append([-4, tdef("KEvent", [], 0, 0, 0, False)])
    rows0 += special
    rows0.append([-1, ta])
    over = {o["name"]: o for o in case["sub"]}
    dyn_range = set(t["name"] for t in case["traits"] if t.get("dyn_range"))
    rows1 = []
    for n, d in [r for r in rows0 if 0 <= r[0] < 3000]:
        o = over.get(n)
        if n in dyn_range:       # Sub has float bounds: default c + 0.5, shown in tenths
            rows1.append([n, tdef("KConst", [10 * d["content"][0] + 5], 0, 0, d["nnotif"], d["static"], 2)])
        elif o is None:
            rows1.append([n, d])
        elif o["how"] == "const":
            # (a default overridden by plain assignment in the subclass body comes back with the default comparison mode)
            rows1.append([n, tdef("KConst", o["content"], 0, 0, d["nnotif"], d["static"], 2)])
        elif o["how"] == "list":
            rows1.append([n, tdef("KTraitList", o["content"], 0, nxt, d["nnotif"], d["static"], 2)])
            nxt += 1
        elif d["kind"] in ("KConst", "KMethodInt"):
            rows1.append([n, tdef("KMethodInt", o["content"], 0, 0, d["nnotif"], d["static"], d["cmp"])])
        else:
            rows1.append([n, tdef("KMethod", o["content"], 0, 0, d["nnotif"], d["static"], d["cmp"])])
    rows1 += special
    rows1.append([-1, ta])
    return [rows0, rows1], nxt


# ---- terms
def tdef_term(t):
    return C("mkT", C(t["kind"]), list(t["content"]), t["scalar"], t["doid"], t["nnotif"], bool(t["static"]),
             t.get("cmp", 2), t.get("label", 0))


def value_term(v):
    return C("mkV", v["shape"], [(o, list(c)) for o, c in v["parts"]])


def inst_term(i):
    return C("mkI", i["cls"], [(n, value_term(v)) for n, v in i["dict"]],
             [(n, tdef_term(t)) for n, t in i["itraits"]], [(n, c) for n, c in i["calls"]],
             [(h, n, list(o), list(nw)) for h, n, o, nw in i["log"]], [(n, h) for n, h in i["regs"]])


def op_term(op):
    k = op[0]
    if k == "Read":
        return C(k, op[1], op[2])
    if k == "Assign":
        return C(k, op[1], op[2], list(op[3]), op[4])
    if k == "Mutate":
        return C(k, op[1], op[2], op[3])
    if k == "Register":
        return C(k, op[1], op[2], op[3], bool(op[4]))
    if k == "AddTrait":
        return C(k, op[1], op[2], tdef_term(tdef(op[3]["kind"], op[3]["content"], 0, 0, 0, False)))
    if k in ("Introspect",):
        return C(k, op[1], op[2])
    if k in ("SetMeta", "AssignFrom"):
        return C(k, op[1], op[2], op[3])
    if k == "Delete":
        return C(k, op[1], op[2])
    if k == "NewInst":
        return C(k, op[1])
    raise ValueError(op)


def value_payload(v):
    """(content, scalar) that rebuilds a value of the same contents through Assign."""
    if v["shape"] in (4, 7):
        return list(v["parts"][1][1]), v["parts"][2][1][0]
    return list(v["parts"][0][1]), 0


def to_term(case, obs):
    classes, nxt = declared(case)
    h = []
    views = {}
    for op, ob in zip(case["ops"], obs["steps"]):
        views[len(views) if op[0] == "NewInst" else op[1]] = ob["target"]
        h.append((op_term(op), C("mkO", value_term(ob["ret"]), inst_term(ob["target"]), list(ob["digests"]),
                                 ob["classes"], ob["next"], bool(ob["exc"]))))
    return ([[(n, tdef_term(t)) for n, t in rows] for rows in classes], nxt, obs["init"]["digest"], h)


# ---- signatures
def trait_kind(case, op):
    if op[0] in ("NewInst", "Introspect"):
        return "-"
    if op[2] == -2:
        return "anytrait"
    for t in case["traits"]:
        if t["name"] == op[2]:
            return t["kind"]
    return "shared-ctrait" if op[2] >= 70 else "wildcard" if op[2] >= 60 else "added"


def key_fn(case, obs, step, clause):
    if clause == 20:
        return "declared-class-tables"
    if clause in (6, 7, 10):
        return CLAUSE[clause]     # a changed sibling / class table is reported by every later step too
    op = case["ops"][step]
    return "%s/%s/%s" % (CLAUSE.get(clause, clause), op[0], trait_kind(case, op))


def describe(case, obs, step, clause):
    return ("classes %r sub %r: clause %s fails at step %d op %r (history %r): observed %r" % (
        [(t["name"], t["kind"], t["content"], t["static"]) for t in case["traits"]], case["sub"],
        CLAUSE.get(clause, clause), step, case["ops"][step], case["ops"][:step], obs["steps"][step]))


def nontrivial(case, obs):
    sig = repr((case["traits"], case["sub"], case["ops"]))
    nt = any(any(o for o, _ in ob["ret"]["parts"]) for ob in obs["steps"]) and \
        sum(1 for op in case["ops"] if op[0] == "NewInst") >= 2
    return sig, nt


# ---- generator
def gen_content(rnd, kind, like=None):
    if like is not None and rnd.random() < 0.25:
        return list(like)
    if kind in ("KConst", "KMethodInt"):
        return [rnd.randint(0, 9)]
    if kind in ("KDictCopy", "KTraitDict"):
        ks = rnd.sample(range(1, 9), rnd.randint(0, 3))
        out = []
        for k in ks:
            out += [k, rnd.randint(0, 9)]
        return out
    if kind == "KTraitSet":
        return sorted(rnd.sample(range(1, 9), rnd.randint(0, 3)))
    if kind == "KUuid":
        return []
    if kind == "KArray":
        return list(like) if like is not None and rnd.random() < 0.5 else [rnd.randint(0, 9) for _ in range(len(like) if like is not None else rnd.randint(1, 3))]
    return [rnd.randint(0, 9) for _ in range(rnd.randint(0, 3))]


def gen_case(rnd, ctx, maxlen):
    ntraits = rnd.randint(2, 6)
    kinds = rnd.sample(KINDS, min(ntraits, len(KINDS)))
    if rnd.random() < 0.5:
        kinds[rnd.randrange(len(kinds))] = rnd.choice(KINDS)      # repeated kinds happen too
    traits = []
    for n, k in enumerate(kinds):
        traits.append(dict(name=n, kind=k, content=gen_content(rnd, k), scalar=rnd.randint(0, 9),
                           static=rnd.random() < 0.4,
                           cmp=rnd.choice(["equality"] * 5 + ["none", "identity"])))
        if k == "KArray" and traits[-1]["cmp"] == "equality":
            traits[-1]["cmp"] = "identity"       # (Array's own default comparison mode)
        ctx.count("kind:" + k)
        ctx.count("comparison-mode:" + traits[-1]["cmp"])
        if k == "KConst" and rnd.random() < 0.25:
            traits[-1]["dyn_range"] = True       # Range(low='<name>', high='<name>', value='<name>'): property-like
            ctx.count("default:dynamic-range")
        elif k in ("KConst", "KMethodInt") and rnd.random() < 0.4:
            traits[-1]["dyn_enum"] = True        # Enum(values='<name>'): a property-like trait
            ctx.count("default:dynamic-enum" + ("-with-default-method" if k == "KMethodInt" else ""))
        if k in ("KListCopy", "KDictCopy") and rnd.random() < 0.35:
            traits[-1]["subclass"] = True        # the declared default is an instance of a list / dict subclass
            ctx.count("default:container-subclass-instance")
        elif k in ("KListCopy", "KDictCopy") and rnd.random() < 0.5:
            traits[-1]["inferred"] = True        # a user-defined TraitType: the copying kind is inferred from the value
            ctx.count("default:kind-inferred")
    sub = []
    for t in traits:
        r = rnd.random()
        if t.get("dyn_enum") or t.get("dyn_range"):
            continue
        if t["kind"] == "KConst" and r < 0.4:
            sub.append(dict(name=t["name"], how="const", content=gen_content(rnd, "KConst")))
        elif t["kind"] == "KConst" and r < 0.7:
            sub.append(dict(name=t["name"], how="method", content=gen_content(rnd, "KConst")))
        elif t["kind"] == "KTraitList" and r < 0.35:
            sub.append(dict(name=t["name"], how="list", content=gen_content(rnd, "KTraitList")))
        elif t["kind"] in ("KTraitList", "KMethod") and r < 0.7:
            sub.append(dict(name=t["name"], how="method", content=gen_content(rnd, "KMethod")))
    for o in sub:
        ctx.count("subclass-override:" + o["how"])
    wild = None
    if rnd.random() < 0.4:
        wild = dict(default=rnd.randint(0, 9), names=[60, 61, 62], static=rnd.choice([[60], [61], [60, 62], []]))
        ctx.count("wildcard-trait")
    anytrait = wild is None and rnd.random() < 0.3      # a class-level _anytrait_changed(self, name, old, new)
    if anytrait:
        ctx.count("class-level-anytrait-handler")
    shared_ct = None
    if wild is None and not anytrait and rnd.random() < 0.3:
        shared_ct = dict(value=rnd.randint(0, 9), names=[70, 71], static=rnd.choice([[70], [71], []]))
        ctx.count("shared-ctrait-in-class-body")
    ops = [["NewInst", rnd.randint(0, 1)] for _ in range(rnd.randint(2, 3))]
    cls_of = [o[1] for o in ops]
    shadow = [dict() for _ in ops]        # per instance: name -> kind of the trait added over it
    extra = [set() for _ in ops]
    hid = [0]
    over = {o["name"]: o for o in sub}

    def kind_of(i, n):
        if n in shadow[i]:
            return shadow[i][n]
        if cls_of[i] == 1 and n in over and over[n]["how"] == "method":
            return "KMethodInt" if traits[n]["kind"] in ("KConst", "KMethodInt") else "KMethod"
        return traits[n]["kind"] if n < len(traits) else "KConst"

    def default_content(i, n):
        if n in shadow[i] or n >= len(traits):
            return None
        if cls_of[i] == 1 and n in over:
            return over[n]["content"]
        return traits[n]["content"]

    def assignable(n):
        # a UUID trait is read-only; a dynamic enumeration is set through the property machinery (not modelled)
        return n >= len(traits) or (traits[n]["kind"] != "KUuid" and not traits[n].get("dyn_enum")
                                     and not traits[n].get("dyn_range"))

    mat = [set() for _ in ops]              # attributes certainly in __dict__ (read, mutated or assigned before)
    dirty = set()                           # (instance, name) of two-list tuples whose second list was mutated
    pending = []
    nsteps = rnd.randint(2, maxlen)
    focus = rnd.randrange(len(traits))      # interleave the same attribute on several instances
    for s in range(nsteps):
        i = rnd.randrange(len(cls_of))
        names = list(range(len(traits))) + sorted(extra[i]) + (wild["names"] if wild else []) + \
            (shared_ct["names"] if shared_ct else [])
        n = focus if rnd.random() < 0.4 else rnd.choice(names)
        r = rnd.random()
        if pending:
            op = pending.pop(0)
            i, n = op[1], op[2]
        elif r < 0.30:
            op = ["Read", i, n]
        elif r < 0.36:
            # hand instance i's own container object to another instance's same-named trait, then mutate i's
            cands = [(a, m) for a in range(len(cls_of)) for m in sorted(mat[a])
                     if m < len(traits) and traits[m]["kind"] in ("KTraitList", "KTraitDict", "KTraitSet", "KMethod",
                                                                  "KTuple", "KTuple2")
                     and assignable(m) and m not in shadow[a] and (a, m) not in dirty]
            others = [b for b in range(len(cls_of))]
            if cands and len(others) > 1:
                a, m = rnd.choice(cands)
                b = rnd.choice([x for x in others if x != a and m not in shadow[x]] or [a])
                if b != a:
                    op = ["AssignFrom", b, m, a]
                    i, n = b, m
                    pending.append(["Mutate", a, m, 100 + s + 1000])
                    ctx.count("assign-from-sibling")
                else:
                    op = ["Read", i, n]
            else:
                op = ["Read", i, n]
        elif r < 0.45 and assignable(n):
            k = kind_of(i, n)
            op = ["Assign", i, n, gen_content(rnd, k, default_content(i, n)), rnd.randint(0, 9)]
        elif r < 0.45:
            op = ["Read", i, n]
        elif r < 0.65:
            op = ["Mutate", i, n, 100 + s]
        elif r < 0.69:
            hid[0] += 1
            op = ["Register", i, n, hid[0], rnd.random() < 0.5 and not 60 <= n < 70]
            if rnd.random() < 0.25:
                op = ["Register", i, -2, hid[0], False]        # on_trait_change(handler): every trait of the object
                ctx.count("register:object-level")
        elif r < 0.73 and assignable(n):
            op = ["Delete", i, n]                # del obj.n: with listeners the default is recomputed and stored
        elif r < 0.80 and extra[i]:
            op = ["SetMeta", i, rnd.choice(sorted(extra[i])), rnd.randint(1, 9)]    # metadata of an added trait
        elif r < 0.86:
            op = ["Introspect", i, rnd.randint(0, 4)]
            if rnd.random() < 0.4:
                # obj.trait(name, copy=True), then metadata set on the copy
                defined = [m for m in names if m < 60]     # (force=True on an unresolved wildcard name resolves it)
                op = ["Introspect", i, rnd.choice([100000, 200000, 300000]) + 100 * rnd.choice(defined) + rnd.randint(1, 9)]
                ctx.count("trait-copy-metadata")
        elif r < 0.95:
            if rnd.random() < 0.5 or (n < len(traits) and (traits[n].get("dyn_enum") or traits[n].get("dyn_range"))):
                n = 50 + rnd.randint(0, 1)
            k = rnd.choice(["KConst", "KTraitList"])
            if n < len(traits) and traits[n]["kind"] in ("KTraitDict", "KTraitSet"):
                k = "KConst"     # a List trait over a live dict/set object makes that object's items events ill-typed
            op = ["AddTrait", i, n, dict(kind=k, content=gen_content(rnd, k))]
            if k == "KConst" and rnd.random() < 0.6:
                # one CTrait object handed to add_trait on several instances (same shared id => same object)
                op[3]["shared"] = rnd.randint(0, 1)
                op[3]["content"] = [3 + op[3]["shared"]]
                ctx.count("add_trait:shared-ctrait")
            shadow[i][n] = k
            if n >= 50:
                extra[i].add(n)
        else:
            c = rnd.randint(0, 1)
            op = ["NewInst", c]
            cls_of.append(c)
            shadow.append(dict())
            extra.append(set())
            mat.append(set())
        if op[0] in ("Read", "Mutate", "Assign", "AssignFrom"):
            mat[op[1]].add(op[2])
        if op[0] == "Mutate" and op[2] < len(traits) and traits[op[2]]["kind"] == "KTuple2":
            dirty.add((op[1], op[2]))
        if op[0] in ("Assign", "AssignFrom", "Delete"):
            dirty.discard((op[1], op[2]))
        if op[0] == "Delete":
            mat[op[1]].discard(op[2])
        ops.append(op)
        ctx.count("op:" + op[0])
    # inspect the siblings at the end: read every declared attribute of the last instance
    last = len(cls_of) - 1
    for n in range(len(traits)):
        if rnd.random() < 0.5:
            ops.append(["Read", last, n])
            ops.append(["Read", last, n])
    ctx.count("instances:%d" % len(cls_of))
    ctx.count("history-length:%02d" % len(ops))
    case = dict(traits=traits, sub=sub, ops=ops)
    if wild:
        case["wild"] = wild
    if shared_ct:
        case["shared_ct"] = shared_ct
    if anytrait:
        case["anytrait"] = True
    return case


def all_kinds_case(static):
    traits = [dict(name=n, kind=k, content=c, scalar=3, static=static) for n, (k, c) in enumerate([
        ("KConst", [5]), ("KListCopy", [1, 2]), ("KDictCopy", [1, 1]), ("KTraitList", [1, 2]), ("KTraitDict", [1, 1]),
        ("KTraitSet", [1]), ("KFactory", [9]), ("KMethod", [7]), ("KTuple", [4]), ("KUnion", [6]), ("KMethodInt", [4]),
        ("KTuple2", [2]), ("KArray", [1, 2]), ("KUuid", [])])]
    traits[-2]["cmp"] = "identity"
    sub = [dict(name=0, how="const", content=[6]), dict(name=3, how="list", content=[3]),
           dict(name=7, how="method", content=[8])]
    ops = [["NewInst", 0], ["NewInst", 1], ["NewInst", 0]]
    for n in range(14):
        ops += [["Read", 0, n], ["Read", 0, n], ["Mutate", 0, n, 100 + n], ["Read", 1, n], ["Mutate", 1, n, 200 + n]]
    ops += [["Register", 0, 3, 1, False], ["Register", 1, 7, 2, True], ["Assign", 0, 3, [1], 0], ["Assign", 1, 7, [2], 0],
            ["Assign", 1, 0, [6], 0], ["Assign", 1, 0, [7], 0], ["Assign", 2, 10, [4], 0], ["Assign", 2, 10, [5], 0],
            ["AddTrait", 0, 50, dict(kind="KTraitList", content=[4, 4])], ["AddTrait", 0, 0, dict(kind="KConst", content=[77])],
            ["Read", 0, 50], ["Read", 0, 0], ["NewInst", 1], ["NewInst", 0]]
    for n in range(14):
        ops += [["Read", 2, n], ["Read", 3, n], ["Read", 4, n], ["Read", 4, n]]
    return dict(traits=traits, sub=sub, ops=ops)


def sharing_case():
    """One CTrait object given to add_trait on two instances, a named handler on one, assignment on the other;
    add_trait followed by every filtered / unfiltered introspection call, then a sibling and a new instance."""
    traits = [dict(name=0, kind="KConst", content=[5], scalar=0, static=False),
              dict(name=1, kind="KTraitList", content=[1, 2], scalar=0, static=True)]
    sh = dict(kind="KConst", content=[3], shared=0)
    ops = [["NewInst", 0], ["NewInst", 0], ["NewInst", 1],
           ["AddTrait", 0, 50, dict(sh)], ["AddTrait", 1, 50, dict(sh)], ["AddTrait", 2, 0, dict(sh)],
           ["Register", 0, 50, 1, False], ["Assign", 1, 50, [7], 0], ["Read", 1, 50], ["Register", 2, 0, 2, True],
           ["Assign", 0, 50, [8], 0], ["Assign", 1, 0, [6], 0],
           ["AddTrait", 0, 51, dict(kind="KTraitList", content=[4])], ["SetMeta", 0, 50, 7], ["SetMeta", 1, 50, 8],
           ["SetMeta", 0, 51, 9], ["Read", 1, 50], ["AddTrait", 0, 50, dict(kind="KConst", content=[1])]]
    ops += [["Introspect", 0, m] for m in range(5)] + [["Introspect", 1, 0], ["NewInst", 0], ["Introspect", 3, 1],
                                                       ["Read", 3, 0], ["Read", 3, 1], ["Read", 1, 1]]
    return dict(traits=traits, sub=[], ops=ops)


def object_level_case():
    """An object-level handler (on_trait_change without a name) on one instance: default reads stay silent, assignments
    report old defaults, in-place mutation of Trait{List,Dict,Set}Object values clones the items traits into that
    instance only; the sibling and a later instance see nothing."""
    traits = [dict(name=n, kind=k, content=c, scalar=2, static=(n == 1)) for n, (k, c) in enumerate([
        ("KConst", [5]), ("KTraitList", [1, 2]), ("KTraitDict", [1, 1]), ("KTraitSet", [1]), ("KUnion", [6]),
        ("KMethod", [7]), ("KMethodInt", [4]), ("KTuple", [3]), ("KDictCopy", [2, 2])])]
    ops = [["NewInst", 0], ["NewInst", 0], ["Register", 0, -2, 1, False]]
    for n in range(9):
        ops += [["Read", 0, n], ["Mutate", 0, n, 100 + n]]
    ops += [["Assign", 0, 0, [5], 0], ["Assign", 0, 0, [6], 0], ["Assign", 0, 1, [1, 2, 101], 0], ["Assign", 0, 1, [9], 0],
            ["Assign", 1, 5, [7], 0], ["Assign", 1, 6, [4], 0], ["Register", 1, -2, 2, False], ["Assign", 1, 6, [5], 0],
            ["Assign", 1, 2, [1, 1], 0], ["Mutate", 1, 4, 300], ["NewInst", 0]]
    for n in range(9):
        ops += [["Read", 2, n], ["Read", 1, n]]
    return dict(traits=traits, sub=[], ops=ops)


def comparison_mode_case(mode):
    """Every default kind declared with comparison_mode none / identity, handlers of all three mechanisms (static,
    on_trait_change, observe) and an object-level handler: first reads must stay silent."""
    traits = [dict(name=n, kind=k, content=c, scalar=2, static=(n % 2 == 0), cmp=mode) for n, (k, c) in enumerate([
        ("KConst", [5]), ("KListCopy", [1, 2]), ("KDictCopy", [1, 1]), ("KTraitList", [1, 2]), ("KTraitDict", [1, 1]),
        ("KTraitSet", [1]), ("KFactory", [9]), ("KMethod", [7]), ("KTuple", [4]), ("KUnion", [6]), ("KMethodInt", [4])])]
    ops = [["NewInst", 0], ["NewInst", 0], ["NewInst", 0]]
    hid = 0
    for n in range(11):
        hid += 2
        ops += [["Register", 0, n, hid - 1, True], ["Register", 0, n, hid, False], ["Register", 1, n, 100 + hid, True]]
    ops += [["Register", 2, -2, 99, False]]
    for n in range(11):
        ops += [["Read", 0, n], ["Read", 0, n], ["Read", 1, n], ["Read", 2, n], ["Mutate", 1, n, 300 + n]]
    # assignments: the same value again, a different one, and onto a never-read attribute of a new instance
    ops += [["NewInst", 0]]
    for n, same, other in ((0, [5], [6]), (3, [1, 2], [3]), (4, [1, 1], [2, 2]), (5, [1], [2]), (10, [4], [5]), (1, [1, 2], [9])):
        ops += [["Assign", 0, n, same, 2], ["Assign", 0, n, other, 2], ["Assign", 0, n, other, 2], ["Assign", 3, n, same, 2],
                ["Assign", 2, n, same, 2]]
    return dict(traits=traits, sub=[], ops=ops)


def handover_case():
    """Instance 0's own List/Dict/Set container objects are assigned to the same-named traits of instances 1 and 2
    (the trait must copy them into a new container), then mutated through instance 0."""
    traits = [dict(name=n, kind=k, content=c, scalar=0, static=(n == 1)) for n, (k, c) in enumerate([
        ("KTraitList", [1, 2]), ("KTraitDict", [1, 1]), ("KTraitSet", [1]), ("KMethod", [7]), ("KTuple", [4]),
        ("KTuple2", [5])])]
    for t in traits:
        t["scalar"] = 3
    ops = [["NewInst", 0], ["NewInst", 0], ["NewInst", 1], ["Register", 1, 1, 1, True]]
    for n in range(4):
        ops += [["Read", 0, n], ["AssignFrom", 1, n, 0], ["Mutate", 0, n, 100 + n], ["AssignFrom", 2, n, 0],
                ["Mutate", 0, n, 200 + n], ["Mutate", 1, n, 300 + n], ["Read", 1, n], ["Read", 2, n]]
    for n in (4, 5):       # tuples: hand over first, then mutate the receiver's member, then the giver's
        ops += [["Read", 0, n], ["AssignFrom", 1, n, 0], ["AssignFrom", 2, n, 0], ["Mutate", 1, n, 300 + n],
                ["Mutate", 0, n, 100 + n], ["Read", 1, n], ["Read", 2, n], ["Assign", 2, n, [8], 9], ["Mutate", 2, n, 400 + n]]
    return dict(traits=traits, sub=[], ops=ops)


def wildcard_case():
    """`_ = Int(7)` with a static handler for one wildcard name: the other names resolved through the same prefix
    trait, on this and other instances and the subclass, must not inherit it."""
    traits = [dict(name=0, kind="KTraitList", content=[1], scalar=0, static=False)]
    ops = [["NewInst", 0], ["NewInst", 0], ["NewInst", 1], ["Read", 0, 60], ["Assign", 0, 60, [8], 0], ["Read", 1, 61],
           ["Assign", 1, 61, [9], 0], ["Assign", 2, 61, [3], 0], ["Assign", 2, 60, [4], 0], ["Assign", 0, 62, [1], 0],
           ["Register", 1, 62, 1, False], ["Assign", 1, 62, [2], 0], ["Assign", 2, 62, [2], 0], ["NewInst", 0],
           ["Read", 3, 60], ["Read", 3, 61], ["Assign", 3, 61, [5], 0]]
    return dict(traits=traits, sub=[], ops=ops, wild=dict(default=7, names=[60, 61, 62], static=[60]))


def definitions_case():
    """Definitions shared by construction: one CTrait object declared under two names with a static handler for one;
    Any defaults that are instances of list / dict subclasses; private trait copies whose metadata is then set."""
    traits = [dict(name=0, kind="KListCopy", content=[1, 2], scalar=0, static=False, subclass=True),
              dict(name=1, kind="KDictCopy", content=[1, 1], scalar=0, static=True, subclass=True),
              dict(name=4, kind="KListCopy", content=[3], scalar=0, static=False, inferred=True),
              dict(name=5, kind="KDictCopy", content=[2, 2], scalar=0, static=False, inferred=True),
              dict(name=2, kind="KTuple", content=[4], scalar=3, static=False),
              dict(name=3, kind="KConst", content=[5], scalar=0, static=False)]
    ops = [["NewInst", 0], ["NewInst", 0], ["NewInst", 1]]
    for n in (0, 1, 2, 3, 4, 5, 70, 71):
        ops += [["Read", 0, n], ["Mutate", 0, n, 100 + n], ["Introspect", 0, 100000 + 100 * n + 4], ["Read", 1, n],
                ["Introspect", 2, 200000 + 100 * n + 5], ["Introspect", 2, 300000 + 100 * n + 6], ["Read", 2, n]]
    ops += [["Assign", 0, 70, [8], 0], ["Assign", 1, 71, [9], 0], ["Assign", 2, 71, [2], 0], ["Assign", 2, 70, [2], 0],
            ["NewInst", 0], ["Read", 3, 0], ["Read", 3, 1], ["Read", 3, 70], ["Read", 3, 71]]
    return dict(traits=traits, sub=[], ops=ops, shared_ct=dict(value=3, names=[70, 71], static=[70]))


def delete_case():
    """Handlers of every mechanism, a value assigned, then del / read: the default the attribute reverts to is computed
    once, stored and is what later reads return; without listeners nothing is computed until the next read."""
    traits = [dict(name=n, kind=k, content=c, scalar=2, static=(n % 2 == 0)) for n, (k, c) in enumerate([
        ("KMethod", [7]), ("KMethodInt", [4]), ("KFactory", [9]), ("KTraitList", [1, 2]), ("KTraitDict", [1, 1]),
        ("KConst", [5]), ("KTuple", [3]), ("KArray", [1, 2])])]
    traits[-1]["cmp"] = "identity"
    ops = [["NewInst", 0], ["NewInst", 0], ["Register", 0, 1, 1, False], ["Register", 0, 3, 2, True], ["Register", 1, -2, 3, False]]
    payload = {0: [1], 1: [6], 2: [2], 3: [3], 4: [2, 2], 5: [6], 6: [8], 7: [3, 4]}
    for n in range(8):
        ops += [["Assign", 0, n, payload[n], 1], ["Delete", 0, n], ["Read", 0, n], ["Read", 0, n], ["Delete", 0, n],
                ["Delete", 0, n], ["Read", 1, n], ["Assign", 1, n, payload[n], 1], ["Delete", 1, n], ["Read", 1, n]]
    return dict(traits=traits, sub=[], ops=ops)


def anytrait_case():
    """A class-level `_anytrait_changed`: first reads stay silent for every default kind; assignments, deletions,
    in-place mutations and add_trait behave as with any other listener."""
    c = all_kinds_case(False)
    c["anytrait"] = True
    return c


def dynamic_case():
    """Dynamic enumerations Enum(values='<name>') with and without a _name_default method, with static, on_trait_change,
    observe and object-level listeners: computed once, stored, silent, per instance."""
    traits = [dict(name=0, kind="KConst", content=[3], scalar=0, static=True, dyn_enum=True),
              dict(name=1, kind="KMethodInt", content=[5], scalar=0, static=False, dyn_enum=True),
              dict(name=2, kind="KConst", content=[7], scalar=0, static=False, dyn_enum=True, cmp="none"),
              dict(name=3, kind="KMethodInt", content=[2], scalar=0, static=True, dyn_enum=True),
              dict(name=4, kind="KTraitList", content=[1], scalar=0, static=False),
              dict(name=5, kind="KConst", content=[3], scalar=0, static=True, dyn_range=True),
              dict(name=6, kind="KConst", content=[4], scalar=0, static=False, dyn_range=True)]
    ops = [["NewInst", 0], ["NewInst", 0], ["NewInst", 1], ["Register", 0, 0, 1, False], ["Register", 0, 1, 2, True],
           ["Register", 0, 2, 3, True], ["Register", 1, -2, 4, False], ["Register", 2, 3, 5, False]]
    for n in range(4):
        ops += [["Read", 0, n], ["Read", 0, n], ["Read", 1, n], ["Read", 1, n], ["Mutate", 0, n, 100 + n], ["Read", 2, n],
                ["Introspect", 0, 100000 + 100 * n + 3], ["Read", 0, n]]
    # dynamic ranges: the int-bounded instance first, then the float-bounded one (and the other way round)
    ops += [["Register", 2, 5, 6, True], ["Read", 0, 5], ["Read", 2, 5], ["Read", 2, 5], ["Read", 1, 5],
            ["Read", 2, 6], ["Read", 0, 6], ["Read", 0, 6], ["Read", 1, 6]]
    ops += [["NewInst", 0], ["NewInst", 1]] + [["Read", 3, n] for n in range(7)] + [["Read", 4, n] for n in range(7)] + \
        [["Read", 3, n] for n in range(7)]
    return dict(traits=traits, sub=[], ops=ops)


def corpus():
    return [dynamic_case(), anytrait_case(), delete_case(), definitions_case(), wildcard_case(), all_kinds_case(False), all_kinds_case(True), sharing_case(), object_level_case(),
            comparison_mode_case("none"), comparison_mode_case("identity"), handover_case()]


def run(ctx):
    ok, log = ctx.proofs(PROPS)
    ctx.cov["trusted_base"] += [
        "tools/drivers/c10_driver.py (class construction from the configuration, oid numbering, non-perturbing views, "
        "mirror of C10.Law.enc_* and Harness.digest) and tools/props/c10.py (generator, declared class tables, term writer)",
        "modelled, not verified: the C functions default_value_for / getattr_trait / setattr_trait / get_trait and the Python "
        "side (_change_accepted, add_trait, on_trait_change, observe) are hand-modelled in C10/Model.v and tied by the "
        "correspondence; what a default method/factory returns and handler registrations are echoed configuration",
    ]
    ctx.cov["rule"] = ("random class configurations (2-6 traits over all 11 default kinds, optional static handlers, a "
                       "subclass overriding constants / list defaults / adding _name_default methods over list and Int traits) x interleaved "
                       "histories on 2-5 instances of both classes (read, assign, in-place mutation, on_trait_change / "
                       "observe registration, add_trait new and shadowing, instances created mid-history), ending with "
                       "double reads on the last instance; a case is non-trivial if >= 2 instances exist and some step "
                       "returns a container object; distinct = distinct (configuration, history)")
    rnd = random.Random(ctx.seed)
    n, maxlen = (120, 12) if ctx.tier == "quick" else (2500, 30)
    if ctx.replay:
        cases = [json.load(open(ctx.replay))["replay"]["case"]]
    else:
        cases = corpus() + [gen_case(rnd, ctx, maxlen) for _ in range(n)]
    for c in cases[7:10] + cases[-1:]:   # evidence samples: two corpus cases, one random, the last random
        ctx.sample(c)
    _evaluate = hist.evaluate

    def sharded(*a, **k):              # C10 terms are large: small shards evaluate in parallel
        k["shard"] = 40
        return _evaluate(*a, **k)
    hist.evaluate = sharded
    _shrink, budget = hist.shrink, [1]

    def bounded_shrink(ctx_, driver, case, to_term_, header, case_type, which, step, clause, rounds=3):
        if budget[0] <= 0 or len(case["ops"]) > 40:     # many distinct failures / a long fixed history: report unshrunk
            return case, None, step
        budget[0] -= 1
        return _shrink(ctx_, driver, case, to_term_, header, case_type, which, step, clause, 2)
    hist.shrink = bounded_shrink
    hist.run(ctx, "c10_driver.py", cases, to_term, HEADER, CASE_T, key_fn, describe, nontrivial,
             relation="C10.Corr.corr_codes (Model.step = HasTraits instances on every step)")
    proof_gate(ctx, ok, log, PROPS)
