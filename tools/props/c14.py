"""C14 — pickling, deep copying and cloning preserve state and liveness."""
import json
import os
import random

from vlib import hist
from vlib.ctx import proof_gate
from vlib.term import C, Nat, opt

from props import c18 as t3mod

HEADER = "From Coq Require Import ZArith List.\nFrom TV Require Import Common.Harness C14.Model C14.Law C14.Corr."
CASE_T = "C14.Corr.case"
PROPS = ["C14/Props.v"]
DRIVER = "c14_driver.py"
CLAUSE = {1: "copy-raised-or-class-differs", 2: "values-differ", 3: "transient-not-reset", 4: "shared-container",
          5: "container-not-bound-to-copy", 6: "invalid-accepted", 7: "mutation-not-live", 8: "write-once-lost",
          9: "instance-child-shared-or-differs",
          11: "corr-original", 12: "corr-copy-values", 13: "corr-sharing", 14: "corr-owners", 15: "corr-probes",
          16: "corr-class"}


def ttype(t):
    if t == "int":
        return C("TInt")
    if t == "any":
        return C("TAny")
    if t == "ro":
        return C("TReadOnly")
    return C("TCont", ttype(t["inner"]))


def cmode(m):
    return None if m is None else C({"ref": "CRef", "shallow": "CShallow", "deep": "CDeep"}[m])


def raw_term(r):
    if isinstance(r, list):
        return C("Ct", 0, None, [raw_term(x) for x in r])
    return C("Sc", r)


def dump_term(v):
    if isinstance(v, dict):
        return C("Ct", v["id"], opt(v["owner"]), [dump_term(x) for x in v["items"]])
    return C("Sc", v)


OUT = {"Ok": "Ok", "TraitError": "TraitError", "OtherError": "OtherError"}


def probe_term(p):
    if p[0] == "cont":
        return C("PCont", p[1], [Nat(i) for i in p[2]], C(OUT[p[3]]), C(OUT[p[4]]), list(p[5]), list(p[6]), list(p[7]),
                 bool(p[8]))
    if p[0] == "scalar":
        return C("PScalar", p[1], C(OUT[p[2]]))
    if p[0] == "inst":
        m = cmode(p[2])
        return C("PInst", p[1], C("Some", m) if m is not None else None, bool(p[3]), bool(p[4]))
    return C("PReadOnly", p[1], C(OUT[p[2]]))


def op_term(op):
    if op[0] == "pickle":
        return C("Pickle")
    if op[0] == "deepcopy":
        return C("Deepcopy")
    m = cmode(op[1])
    return C("Clone", C("Some", m) if m is not None else None)


def to_term(case, ob):
    meta = {k: (cp, tr) for k, cp, tr in ob["meta"]}
    cls = []
    for d in case["cls"]:
        cp, tr = meta[d["k"]]
        m = cmode(cp if cp in ("ref", "shallow", "deep") else None)
        cls.append((d["k"], C("Build_tdef", ttype(d["type"]), bool(tr), C("Some", m) if m is not None else None)))
    extra = []
    if case.get("graph"):
        # the Instance-graph fixture adds two non-transient traits to the class: one stand-in in the model's
        # class (never assigned, reads its default on both objects) so that `copies_all` sees them
        cls.append((999, C("Build_tdef", C("TAny"), False, None)))
        extra = [(999, C("Sc", 0))]
    hs = []
    for h in case["ops"]:
        if h[0] == "assign":
            hs.append(C("HAssign", h[1], raw_term(h[2])))
        else:
            hs.append(C("HAppend", h[1], [Nat(i) for i in h[2]], raw_term(h[3])))
    cobs = C("Build_cobs", bool(ob["same_class"]), [(k, dump_term(v)) for k, v in ob["orig"]] + extra,
             ([(k, dump_term(v)) for k, v in ob["copy"]] + extra) if not ob.get("copy_raised") else [],
             [probe_term(p) for p in ob["probes"]])
    return (cls, hs, op_term(case["op"]), cobs)


def _tname(t):
    if isinstance(t, dict):
        return "%s(%s)" % (t["shape"], _tname(t["inner"]))
    return t


def offending(case, ob, clause):
    """which trait exhibits the clause (for a canonical key)"""
    return ""


def key_fn(case, ob, step, clause):
    op = case["op"]
    mode = op[0] + ("-" + str(op[1]) if op[0] == "clone" else "")
    detail = ""
    if clause == 4:
        # which kind of trait shares: canonical = sorted kinds of traits whose copy shares an identity
        oid = set()

        def ids(v, acc):
            if isinstance(v, dict):
                acc.add(v["id"])
                for x in v["items"]:
                    ids(x, acc)
        for k, v in ob["orig"]:
            ids(v, oid)
        kinds = set()
        for k, v in ob["copy"]:
            cid = set()
            ids(v, cid)
            d = next(x for x in case["cls"] if x["k"] == k)
            cp = next(m[1] for m in ob["meta"] if m[0] == k)
            demanded = op[0] == "pickle" or cp == "deep" or (
                cp not in ("ref", "shallow") and (op[0] == "deepcopy" or (op[0] == "clone" and op[1] == "deep")))
            if (cid & oid) and demanded:
                kinds.add("%s/copy-metadata-%s" % (_tname(d["type"]).split("(")[0], d["copy"]))
        detail = "/" + "+".join(sorted(kinds))
    if clause == 9:
        names = {900: "instance", 904: "list-of-instances", 905: "write-once-until-inited", 906: "dict-keys", 908: "delegated-container", 911: "prototyped-override-lost", 914: "undeclared-attribute-lost", 916: "order-dependent-state-lost", 917: "container-deepcopy-graph-broken", 915: "weakref-target-lost", 912: "set-of-objects-aliasing", 913: "minlen-list-value-lost", 910: "post-init-handlers-ran-during-restore", 909: "unpickled-delegate-not-following",
                 907: "dict-values-no-copy-metadata"}
        demanded = lambda cp: op[0] == "pickle" or cp == "deep"    # children: only the trait's own metadata
        bad = sorted(names.get(q[1], str(q[1])) + ("-shared" if q[3] and demanded(q[2]) else "-differs")
                     for q in ob["probes"] if q[0] == "inst" and ((q[3] and demanded(q[2])) or not q[4]))
        detail = "/" + "+".join(bad)
    if clause == 8:
        if any(q[0] == "ro" and q[1] >= 900 and q[2] != "TraitError" for q in ob["probes"]):
            detail = "/write-once-until-inited"
    if clause == 3 and all(t for _, _, t in ob["meta"]) and not case.get("graph"):
        detail = "/all-traits-transient"
    return "%s/%s%s" % (CLAUSE.get(clause, clause), mode, detail)


def describe(case, ob, step, clause):
    return "copy by %r of an object of class %r after history %r: clause %s fails; original reads %r, copy reads %r, " \
           "probes %r" % (case["op"], [(d["k"], _tname(d["type"]), d["transient"], d["copy"]) for d in case["cls"]],
                          case["ops"], CLAUSE.get(clause, clause), ob["orig"], ob["copy"], ob["probes"])


def nontrivial(case, ob):
    sig = json.dumps([case["cls"], case["ops"], case["op"]], sort_keys=True)
    nt = any(isinstance(v, dict) and v["items"] for k, v in ob["copy"])
    return sig, nt


# ---------------------------------------------------------------------------------------------
def gen_type(rnd):
    x = rnd.random()
    if x < 0.18:
        return "int"
    if x < 0.33:
        return "any"
    if x < 0.40:
        return "ro"
    depth = rnd.choice([1, 1, 2, 2, 3])
    t = "int"
    for lvl in range(depth):
        shapes = ["list", "list", "dict"] + (["set"] if t == "int" else [])
        t = {"shape": rnd.choice(shapes), "inner": t}
    return t


def inc_ints(rnd, n, lo=1, hi=60, bad=0.0):
    xs = sorted(rnd.sample(range(lo, hi), n))
    return [(-1 if rnd.random() < bad else x) for x in xs]


def gen_raw(rnd, t, bad=0.0):
    if t == "int" or t == "ro":
        return -1 if rnd.random() < bad else rnd.randrange(1, 60)
    if t == "any":
        x = rnd.random()
        if x < 0.3:
            return rnd.randrange(1, 60)
        if x < 0.7:
            return inc_ints(rnd, rnd.randint(0, 3))
        return [inc_ints(rnd, rnd.randint(0, 2)) for _ in range(rnd.randint(1, 2))]
    n = rnd.randint(0, 3)
    if t["inner"] == "int":
        return inc_ints(rnd, n, bad=bad)
    return [gen_raw(rnd, t["inner"], bad) for _ in range(n)]


def paths_of(raw, t):
    if not isinstance(raw, list) or not isinstance(t, dict):
        return [[]] if isinstance(raw, list) else []
    out = [[]]
    for i, x in enumerate(raw):
        out += [[i] + p for p in paths_of(x, t["inner"])]
    return out


def gen_case(rnd, ctx, maxlen):
    ntr = rnd.randint(1, 4)
    cls = []
    for k in range(ntr):
        t = gen_type(rnd)
        cp = None
        if rnd.random() < 0.35:
            cp = rnd.choice(["ref", "shallow", "deep"])
        cls.append(dict(k=k, type=t, transient=rnd.random() < 0.2, copy=cp))
        ctx.count("trait:%s%s%s" % (_tname(t), "/transient" if cls[-1]["transient"] else "",
                                    "/copy=" + cp if cp else ""))
    ops = []
    current = {}
    stamp = [100]
    for _ in range(rnd.randint(0, maxlen)):
        d = rnd.choice(cls)
        k, t = d["k"], d["type"]
        if k in current and isinstance(current[k], list) and rnd.random() < 0.5 and t != "ro":
            ps = paths_of(current[k], t)
            p = rnd.choice(ps)
            et = t
            for _i in range(len(p) + 1):
                et = et["inner"] if isinstance(et, dict) else "any"
            stamp[0] += 1
            if isinstance(et, dict):
                x = gen_raw(rnd, et, bad=0.1)
            else:
                x = -1 if rnd.random() < 0.25 else stamp[0]
            ops.append(["append", k, p, x])
            ctx.count("op:append-depth%d" % len(p))
            # generation hint only
            tgt = current[k]
            ok = True
            for i in p:
                tgt = tgt[i]
            if x != -1 and not (isinstance(x, list) and json.dumps(x).find("-1") >= 0):
                tgt.append(json.loads(json.dumps(x)))
        else:
            raw = gen_raw(rnd, t, bad=0.08)
            ops.append(["assign", k, raw])
            ctx.count("op:assign")
            if json.dumps(raw).find("-1") < 0 and not (t == "ro" and k in current):
                current[k] = json.loads(json.dumps(raw))
    op = rnd.choice([["pickle", rnd.randint(0, 5)], ["pickle", rnd.randint(0, 5)], ["deepcopy"], ["deepcopy"],
                     ["clone", None], ["clone", "shallow"], ["clone", "deep"], ["clone", "deep"]])
    ctx.count("copy:" + op[0] + ("-%s" % op[1] if op[0] == "clone" else ""))
    graph = rnd.random() < 0.4
    ctx.count("instance-graph:" + ("yes" if graph else "no"))
    return dict(cls=cls, ops=ops, op=op, graph=graph)


def corpus():
    L = {"shape": "list", "inner": "int"}
    LL = {"shape": "list", "inner": L}
    D = {"shape": "dict", "inner": L}
    S = {"shape": "set", "inner": "int"}
    cls = [dict(k=0, type="int", transient=False, copy=None), dict(k=1, type=L, transient=False, copy=None),
           dict(k=2, type=LL, transient=False, copy=None), dict(k=3, type=D, transient=False, copy=None),
           dict(k=4, type=S, transient=False, copy=None), dict(k=5, type="int", transient=True, copy=None),
           dict(k=6, type="ro", transient=False, copy=None), dict(k=7, type=L, transient=False, copy="ref"),
           dict(k=8, type="any", transient=False, copy=None), dict(k=9, type="any", transient=False, copy="deep"),
           dict(k=10, type=L, transient=True, copy=None)]
    ops = [["assign", 0, 5], ["assign", 1, [1, 2]], ["assign", 2, [[1], [2, 3]]], ["assign", 3, [[1], []]],
           ["assign", 4, [1, 2]], ["assign", 5, 42], ["assign", 6, 9], ["assign", 7, [7]], ["assign", 8, [1, 2]],
           ["assign", 9, [[1], [2]]], ["assign", 10, [4]], ["append", 2, [0], 8], ["append", 1, [], -1]]
    cs = []
    for op in ([["pickle", p] for p in range(6)] + [["deepcopy"], ["clone", None], ["clone", "shallow"],
                                                      ["clone", "deep"]]):
        cs.append(dict(cls=cls, ops=ops, op=op, graph=True))
        cs.append(dict(cls=cls, ops=[], op=op))
    # triggers of the listed findings: a class whose traits are all transient, under every non-pickle mode
    tcls = [dict(k=0, type="int", transient=True, copy=None), dict(k=1, type=L, transient=True, copy=None)]
    for op in (["deepcopy"], ["clone", None], ["clone", "shallow"], ["clone", "deep"], ["pickle", 2]):
        cs.append(dict(cls=tcls, ops=[["assign", 0, 5], ["assign", 1, [3, 4]]], op=op))
    return cs


def run(ctx):
    ok, log = ctx.proofs(PROPS)
    ctx.cov["trusted_base"] += [
        "tools/drivers/c14_driver.py (identity atoms of containers, owner read through the container's weak "
        "reference, behavioural liveness probes) and tools/props/c14.py (generator); c14_ctrait_driver.py",
        "modelled, not verified: the pickle byte format / copyreg / copy module of CPython (the model's Pickle is "
        "'every object new, containers ownerless'); List, Dict and Set share one container shape in the model",
    ]
    ctx.cov["rule"] = ("classes of 1-4 traits (Int, Any, ReadOnly, List/Dict/Set nestings to depth 3, transient flag, "
                       "copy metadata ref/shallow/deep/unset) x assignment and nested-append histories on the original "
                       "(invalid items at random ordinals) x pickle protocols 0-5 / copy.deepcopy / "
                       "clone_traits(copy=None|shallow|deep); every container path of the copy is probed (invalid "
                       "append, valid append with items handler, observer, declared observer, dependent property on "
                       "copy and original); non-trivial = the copy holds a non-empty container; plus every kind of "
                       "trait definition object round-tripped in a subprocess")
    rnd = random.Random(ctx.seed)
    if ctx.replay:
        rep = json.load(open(ctx.replay))["replay"]
        if rep.get("kind") == "ctrait":
            t3_ok, t3_data, _ = t3mod.t3(ctx)
            t3mod.ctrait_stream(ctx, t3_data, t3_data is not None and os.path.exists(
                os.path.join(ctx.scratch, "CTablesGen.vo")), specs=[rep["spec"]], modes=[rep["mode"]])
        else:
            cases = [rep["case"]]
            hist.run(ctx, DRIVER, cases, to_term, HEADER, CASE_T, key_fn, describe, nontrivial,
                     relation="C14.Corr.corr_codes", do_shrink=False)
        proof_gate(ctx, ok, log, PROPS)
        return
    # --- T3 + trait definition objects ------------------------------------------------------------
    t3_ok, t3_data, t3_msg = t3mod.t3(ctx)
    have_gen = t3_data is not None and os.path.exists(os.path.join(ctx.scratch, "CTablesGen.vo"))
    t3mod.ctrait_stream(ctx, t3_data, have_gen)
    # --- object copies ------------------------------------------------------------------------
    n, maxlen = (600, 8) if ctx.tier == "quick" else (24000, 16)
    cases = corpus() + [gen_case(rnd, ctx, maxlen) for _ in range(n)]
    for c in cases[:1] + cases[-2:]:
        ctx.sample(c)
    hist.run(ctx, DRIVER, cases, to_term, HEADER, CASE_T, key_fn, describe, nontrivial,
             relation="C14.Corr.corr_codes (Model.do_copy = pickle/deepcopy/clone_traits: values, sharing, owners, probes)")
    if ctx.tier == "thorough":
        # the same copies and trait-definition round trips on the clang ASan+UBSan build of ctraits.c
        ctx.build_impl(sanitize=True)
        t3mod.ctrait_stream(ctx, t3_data, have_gen, sanitize=True)
        hist.run(ctx, DRIVER, cases[:len(corpus())] + cases[-1500:], to_term, HEADER, CASE_T, key_fn, describe,
                 nontrivial, relation="C14.Corr.corr_codes on the ASan+UBSan build", sanitize=True, tag="asan")
    if not t3_ok and not any(not v[2] for v in ctx.violations):
        ctx.fail("T3/tables", t3_msg, dict(kind="generated-obligation-broken", detail=t3_msg), no_input=True)
    proof_gate(ctx, ok, log, PROPS)
