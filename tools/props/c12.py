"""C12 — observed / cached properties are never stale and announce dependency changes."""
import json
import random

from vlib import hist
from vlib.ctx import proof_gate
from vlib.term import C, Nat, opt

HEADER = "From Coq Require Import ZArith List.\nFrom TV Require Import Common.Harness C12.Model C12.Law C12.Corr."
CASE_T = "C12.Corr.case"
PROPS = ["C12/Props.v"]
CLAUSE = {1: "stale-read", 2: "getter-ran-twice", 3: "change-not-notified", 4: "event-announces-stale-value"}
PNAMES = ["scalar", "child", "kids", "dict", "set", "nums", "nested", "kidchild", "multi", "chain", "mitems", "sitems", "raw", "xscalar", "area", "maybe", "tname", "meta", "trans"]
KEYS = ["ka", "kb", "kc"]


def kind_term(op, ob):
    k = op[0]
    if k == "Read":
        return C("KRead")
    if k == "Listen":
        return C("KListen")
    if k == "Unlisten":
        return C("KUnlisten")
    if k == "Copy":
        return C("KCopy")
    return C("KMut", bool(ob["touched"]))


EXPECTED_ERR = (None, "IndexError", "KeyError", "ValueError")      # of the container operation itself


def to_term(case, obs):
    h = []
    for op, ob in zip(case["ops"], obs["hist"]):
        # a step that raised anything else (e.g. NotifierNotFound out of a maintainer) is reported as a broken
        # interface to the observer machinery: 100 deliveries (correspondence code 8)
        d = ob["delivered"] + (0 if ob["err"] in EXPECTED_ERR else 100)
        h.append((kind_term(op, ob),
                  C("mkI", opt(ob["val"]), ob["oracle"], list(ob["view"]), Nat(ob["getter"]),
                    [(opt(e[0]), e[1]) for e in ob["events"]], Nat(d), opt(ob["cache"]))))
    # c_hooked = false (interface check, code 8, skipped; the model follows the observed deliveries; the LAW decides):
    # the families of the known findings F23 (property added with add_trait) and `afterreset` (double hook after del / reset)
    hooked = not case.get("added") and not case.get("afterreset")
    return C("mkCase", bool(case["cached"]), hooked, (list(obs["init_view"]), obs["init_oracle"]), h)


def shape(op):
    if op[0] == "Set":
        return "Set(%s)" % op[2]
    if op[0] == "Copy":
        return "Copy(%s)" % op[1]
    if len(op) > 2 and isinstance(op[2], str):
        return "%s(%s)" % (op[0], op[2])
    return op[0]


def key_fn(case, obs, step, clause):
    if case.get("afterreset"):
        return "%s/afterreset" % CLAUSE.get(clause, clause)
    return "%s/%s/%s/%s" % (CLAUSE.get(clause, clause), case["prop"],
                            ("added-by-add_%strait-" % ("class_" if case["added"] == "class" else "") if case.get("added")
                             else "") +
                            (("cached-in-subclass" if case.get("sub") else "redeclared-in-subclass" if case.get("redecl")
                              else "cached") if case["cached"] else "uncached"),
                            shape(case["ops"][step]))


def describe(case, obs, step, clause):
    ob = obs["hist"][step]
    return ("Property(observe=...) %s (%s): clause %s fails at step %d op %r: read %r, recomputation %r, getter ran %d, "
            "events %r; history %r" % (case["prop"], "cached" if case["cached"] else "not cached",
                                       CLAUSE.get(clause, clause), step, case["ops"][step], ob["val"], ob["oracle"],
                                       ob["getter"], ob["events"], case["ops"][:step + 1]))


def nontrivial(case, obs):
    sig = json.dumps([case["prop"], case["cached"], case.get("kwargs"), case.get("sub"), case.get("redecl"), case.get("added"), case["init"], case["ops"]], sort_keys=True)
    nt = any(o["delivered"] for o in obs["hist"])
    return sig, nt


# ---------------------------------------------------------------- generator
RELEVANT = {  # traits whose mutation matters for each property (steers the generator only)
    "scalar": ["value"], "child": ["child", "value"], "kids": ["kids", "value"], "dict": ["m", "value"],
    "set": ["s", "value"], "nums": ["nums"], "nested": ["child", "kids", "value"],
    "kidchild": ["kids", "child", "value"], "multi": ["value", "child", "nums"], "chain": ["value"], "mitems": ["m"], "sitems": ["s"], "raw": ["raw"], "xscalar": ["value"], "area": ["value", "other"], "maybe": ["value"], "tname": ["value"], "meta": ["off0", "off1"], "trans": ["tval"],
}


class _Never(set):
    def add(self, x):
        pass


def gen_case(rnd, ctx, maxlen):
    pname = rnd.choice(PNAMES)
    cached = rnd.random() < 0.7
    n = rnd.randint(2, 5)
    init = []
    for i in range(n):
        hi = list(range(i + 1, n))
        d = {"value": rnd.randint(0, 5),
             "child": rnd.choice(hi) if hi and rnd.random() < 0.7 else None,
             "kids": [rnd.choice(hi) for _ in range(rnd.choice([0, 1, 2, 3, 3]))] if hi else [],
             "m": [[k, rnd.choice(hi)] for k in rnd.sample(KEYS, rnd.randint(0, 3))] if hi else [],
             "s": sorted(set(rnd.choice(hi) for _ in range(rnd.randint(0, 3)))) if hi else [],
             "nums": [rnd.randint(0, 4) for _ in range(rnd.randint(0, 3))]}
        init.append(d)
    ops = []
    ls = 0
    clamp_only = [False]      # the only listener attached is the re-entrant "clamp" listener
    lens = {(i, "kids"): len(init[i]["kids"]) for i in range(n)}
    lens.update({(i, "nums"): len(init[i]["nums"]) for i in range(n)})
    # containers that were deleted / reset: the delete notification and the default-value notification BOTH hook the new
    # default value (reported to the coordinator as a candidate finding), so items added to it would be hooked twice;
    # until the trait is assigned again only whole-value assignments are generated for it
    frozen = set()
    # ... except in the family `afterreset` (known finding: the double hook of the new default), where nothing is held
    # back; its failures are keyed by the family, not by property and operation
    ar = rnd.random() < 0.05
    if ar:
        frozen = _Never()
    for _ in range(rnd.randint(2, maxlen)):
        r = rnd.random()
        if r < 0.34:
            op = ["Read"]
        elif r < 0.40:
            style = rnd.choice(["observe", "observe", "on_trait_change"])
            if pname == "area" and ls == 0 and rnd.random() < 0.6:
                style = "clamp"
            clamp_only[0] = (style == "clamp" and ls == 0)
            op = ["Listen", style]
            ls += 1
        elif r < 0.44 and ls > 0:
            op = ["Unlisten"]
            ls -= 1
            clamp_only[0] = False
        elif r < 0.475:
            op = rnd.choice([["Copy", "pickle", rnd.randint(0, 5)], ["Copy", "deepcopy"], ["Copy", "clone"],
                             ["Copy", "shallow"]])
            ls = 0
            clamp_only[0] = False
            frozen.clear()
        else:
            # objects near the root and relevant traits are preferred
            i = rnd.choice([0, 0, 0] + list(range(n)))
            hi = list(range(i + 1, n))
            tr = rnd.choice(RELEVANT[pname] * 3 + ["other", "value", "child", "kids", "m", "s", "nums"])
            if tr in ("child", "kids", "m", "s") and not hi:
                tr = "value"
            if tr in ("value", "other") and rnd.random() < 0.12:
                ops.append(["Redeclare", i, tr])
                ctx.count("op:Redeclare")
                continue
            if pname == "area" and tr == "value" and i == 0 and clamp_only[0] and rnd.random() < 0.5:
                ops.append(["SetArm", 0, rnd.randint(0, 5), rnd.randint(0, 5)])
                ops.append(["Nested"])
                ctx.count("op:SetArm+Nested")
                continue
            if tr == "raw":
                ops.append(["SetRaw", 0, rnd.randrange(8)])
                ctx.count("op:SetRaw")
                continue
            mode = rnd.random()
            if tr in ("value", "other", "off0", "off1", "tval"):
                op = ["Set", i, tr, rnd.randint(0, 5)]
            elif tr == "child":
                op = ["Set", i, "child", rnd.choice(hi + [None])]
            elif tr in ("kids", "nums"):
                item = (lambda: rnd.choice(hi)) if tr == "kids" else (lambda: rnd.randint(0, 4))
                ln = lens[(i, tr)]
                ch = rnd.choice(["Set", "Append", "Append", "Insert", "Pop", "SetItem", "SetSame", "Remove", "Clear",
                                 "Extend", "Reverse", "SetSlice", "Reset"])
                if (i, tr) in frozen and ch != "Reset":
                    ch = "Set"
                if ch == "Set":
                    v = [item() for _ in range(rnd.randint(0, 3))]
                    op = ["Set", i, tr, v]
                    lens[(i, tr)] = len(v)
                    frozen.discard((i, tr))
                elif ch == "Append":
                    op = ["Append", i, tr, item()]
                    lens[(i, tr)] = ln + 1
                elif ch == "Insert":
                    op = ["Insert", i, tr, rnd.randint(0, ln), item()]
                    lens[(i, tr)] = ln + 1
                elif ch == "Pop" and ln:
                    op = ["Pop", i, tr, rnd.randrange(ln)]
                    lens[(i, tr)] = ln - 1
                elif ch == "SetItem" and ln:
                    op = ["SetItem", i, tr, rnd.randrange(ln), item()]
                elif ch == "SetSame" and ln:
                    op = ["SetSame", i, tr, rnd.randrange(ln)]
                elif ch == "Clear":
                    op = ["Clear", i, tr]
                    lens[(i, tr)] = 0
                elif ch == "Extend":
                    v = [item() for _ in range(rnd.randint(0, 2))]
                    op = ["Extend", i, tr, v]
                    lens[(i, tr)] = ln + len(v)
                elif ch == "Reverse":
                    op = ["Reverse", i, tr]
                elif ch == "Reset":
                    op = ["Reset", i, tr, rnd.randint(0, 1)]
                    lens[(i, tr)] = 0
                    frozen.add((i, tr))
                elif ch == "SetSlice" and ln:
                    # the items stay, their multiplicities change in ONE event (removed and added overlap)
                    mult = [rnd.choice([0, 1, 1, 2, 3]) for _ in range(ln)]
                    extra = [item() for _ in range(rnd.choice([0, 0, 1]))]
                    op = ["SetSlice", i, tr, mult, extra]
                    lens[(i, tr)] = sum(mult) + len(extra)
                else:
                    op = ["Append", i, tr, item()]
                    lens[(i, tr)] = ln + 1
            elif tr == "m":
                ch = rnd.choice(["Set", "DSet", "DSet", "DDel", "DUpdate", "Clear", "Reset"])
                if (i, "m") in frozen and ch != "Reset":
                    ch = "Set"
                if ch == "Reset":
                    frozen.add((i, "m"))
                elif ch == "Set":
                    frozen.discard((i, "m"))
                if ch == "Set":
                    op = ["Set", i, "m", [[k, rnd.choice(hi)] for k in rnd.sample(KEYS, rnd.randint(0, 3))]]
                elif ch == "DSet":
                    op = ["DSet", i, "m", rnd.choice(KEYS), rnd.choice(hi)]
                elif ch == "DDel":
                    op = ["DDel", i, "m", rnd.choice(KEYS)]
                elif ch == "Reset":
                    op = ["Reset", i, "m", rnd.randint(0, 1)]
                elif ch == "DUpdate":
                    op = ["DUpdate", i, "m", [[k, rnd.choice(hi)] for k in rnd.sample(KEYS, rnd.randint(0, 2))]]
                else:
                    op = ["Clear", i, "m"]
            else:
                ch = rnd.choice(["Set", "SAdd", "SAdd", "SDiscard", "Clear", "Reset", "SInter", "SInter", "SDiff", "SUpdate", "SSym"])
                args = [[rnd.choice(hi) for _ in range(rnd.randint(0, 3))] for _ in range(rnd.choice([1, 2, 2, 3]))]
                if (i, "s") in frozen and ch != "Reset":
                    ch = "Set"
                if ch == "Reset":
                    frozen.add((i, "s"))
                elif ch == "Set":
                    frozen.discard((i, "s"))
                if ch == "Set":
                    op = ["Set", i, "s", sorted(set(rnd.choice(hi) for _ in range(rnd.randint(0, 3))))]
                elif ch == "Reset":
                    op = ["Reset", i, "s", rnd.randint(0, 1)]
                elif ch in ("SInter", "SDiff", "SUpdate"):
                    op = [ch, i, "s", args]
                elif ch == "SSym":
                    op = ["SSym", i, "s", args[0]]
                elif ch == "SAdd":
                    op = ["SAdd", i, "s", rnd.choice(hi)]
                elif ch == "SDiscard":
                    op = ["SDiscard", i, "s", rnd.choice(hi)]
                else:
                    op = ["Clear", i, "s"]
        ops.append(op)
        ctx.count("op:" + shape(op))
    ctx.count("property:" + pname)
    ctx.count("cached:%s" % cached)
    ctx.count("history-length:%02d" % len(ops))
    sub = cached and pname not in ("xscalar", "tname") and rnd.random() < 0.2
    ctx.count("subclass-overriding-getter-with-cached_property:%s" % sub)
    redecl = cached and not sub and pname == "scalar" and rnd.random() < 0.5
    ctx.count("property-redeclared-in-subclass:%s" % redecl)
    kw = rnd.random() < 0.3
    ctx.count("constructed-with-kwargs:%s" % kw)
    # the root's construction (traits_init) touches its container defaults, which are then filled in place
    touch = not kw and not sub and not redecl and rnd.random() < 0.15
    ctx.count("construction-touches-defaults:%s" % touch)
    afterreset = ar and any(o[0] == "Reset" for o in ops)
    ctx.count("family-afterreset:%s" % afterreset)
    return dict(prop=pname, cached=cached, n=n, init=init, ops=ops, kwargs=kw, sub=sub, redecl=redecl, afterreset=afterreset,
                touch=touch)


def corpus():
    cs = []
    base = [{"value": 1, "child": 1, "kids": [1, 1, 2], "m": [["ka", 1], ["kb", 1]], "s": [1, 2], "nums": [1, 2]},
            {"value": 2, "child": 2, "kids": [2, 2], "m": [], "s": [], "nums": []},
            {"value": 3, "child": None, "kids": [], "m": [], "s": [], "nums": []}]
    # item present twice, removed once, then changed; intermediate object replaced; on copies too
    for cached in (True, False):
        cs.append(dict(prop="kids", cached=cached, n=3, init=base,
                       ops=[["Read"], ["Listen"], ["Pop", 0, "kids", 0], ["Read"], ["Set", 1, "value", 5], ["Read"], ["Read"],
                            ["Pop", 0, "kids", 0], ["Set", 1, "value", 4], ["Read"], ["Set", 2, "value", 0], ["Read"]]))
        cs.append(dict(prop="nested", cached=cached, n=3, init=base,
                       ops=[["Read"], ["Set", 0, "child", 2], ["Read"], ["Set", 1, "kids", [2]], ["Read"],
                            ["Set", 0, "child", 1], ["Read"], ["Set", 2, "value", 4], ["Read"], ["Read"]]))
        for mode in (["Copy", "pickle", 2], ["Copy", "deepcopy"], ["Copy", "clone"]):
            cs.append(dict(prop="dict", cached=cached, n=3, init=base,
                           ops=[["Read"], mode, ["Read"], ["Read"], ["Set", 1, "value", 0], ["Read"], ["Listen"],
                                ["DDel", 0, "m", "ka"], ["Set", 1, "value", 3], ["Read"], ["DDel", 0, "m", "kb"],
                                ["Set", 1, "value", 1], ["Read"]]))
    # the same item twice when the observers are hooked up (constructor / reassignment / copies), one copy
    # removed, the other changed
    dup = [{"value": 1, "child": 1, "kids": [1, 1], "m": [["ka", 1], ["kb", 1]], "s": [1], "nums": []},
           {"value": 2, "child": None, "kids": [], "m": [], "s": [], "nums": []}]
    for kw in (True, False):
        for pre in ([], [["Copy", "pickle", 2]], [["Copy", "clone"]], [["Set", 0, "kids", [1, 1]]]):
            cs.append(dict(prop="kids", cached=True, n=2, init=dup, kwargs=kw,
                           ops=pre + [["Read"], ["Listen"], ["Set", 1, "value", 3], ["Read"], ["Pop", 0, "kids", 1],
                                      ["Read"], ["Set", 1, "value", 5], ["Read"], ["Read"]]))
        cs.append(dict(prop="dict", cached=True, n=2, init=dup, kwargs=kw,
                       ops=[["Read"], ["Listen"], ["DDel", 0, "m", "kb"], ["Set", 1, "value", 4], ["Read"]]))
    # identity comparison mode: equal but distinct values
    for cached in (True, False):
        cs.append(dict(prop="raw", cached=cached, n=2, init=dup,
                       ops=[["Read"], ["Listen"], ["SetRaw", 0, 1], ["Read"], ["SetRaw", 0, 2], ["Read"], ["SetRaw", 0, 0],
                            ["Read"], ["SetRaw", 0, 1], ["Read"], ["SetRaw", 0, 1], ["Read"], ["SetRaw", 0, 4], ["Read"]]))
    # re-entrant history: a listener of the property assigns another dependency from inside the property's notification
    for cached in (True, False):
        cs.append(dict(prop="area", cached=cached, n=2, init=dup,
                       ops=[["Read"], ["Listen", "clamp"], ["Set", 0, "value", 2], ["Read"], ["SetArm", 0, 4, 5], ["Nested"],
                            ["Read"], ["Read"], ["SetArm", 0, 1, 0], ["Nested"], ["Read"], ["Set", 0, "other", 3], ["Read"]]))
    # unpickling: a static change handler reads the cached property while the state is being restored
    for proto in (0, 2, 5):
        cs.append(dict(prop="area", cached=True, n=2, init=dup,
                       ops=[["Set", 0, "other", 4], ["Read"], ["Copy", "pickle", proto], ["Read"], ["Listen", "observe"],
                            ["Set", 0, "other", 2], ["Read"], ["Set", 0, "value", 3], ["Read"], ["Read"]]))
    # a dependency re-declared on the instance with add_trait after the observers were installed
    for cached in (True, False):
        cs.append(dict(prop="scalar", cached=cached, n=2, init=dup,
                       ops=[["Read"], ["Listen", "observe"], ["Set", 0, "value", 3], ["Read"], ["Redeclare", 0, "value"], ["Read"],
                            ["Set", 0, "value", 6], ["Read"], ["Set", 0, "value", 2], ["Read"]]))
        cs.append(dict(prop="child", cached=cached, n=2, init=dup,
                       ops=[["Read"], ["Listen", "observe"], ["Redeclare", 1, "value"], ["Set", 1, "value", 6], ["Read"], ["Read"]]))
    # a nested object attached while its container is set but EMPTY, then filled in place
    emp = [{"value": 1, "child": 1, "kids": [], "m": [], "s": [], "nums": []},
           {"value": 2, "child": None, "kids": [], "m": [], "s": [], "nums": []},
           {"value": 5, "child": None, "kids": [], "m": [], "s": [], "nums": []}]
    emp2 = [dict(emp[0], child=None)] + emp[1:]
    for cached in (True, False):
        for kw in (True, False):
            cs.append(dict(prop="nested", cached=cached, n=3, init=emp, kwargs=kw,
                           ops=[["Read"], ["Listen", "observe"], ["Append", 1, "kids", 2], ["Read"], ["Set", 2, "value", 7],
                                ["Read"], ["Append", 1, "kids", 2], ["Read"], ["Set", 2, "value", 1], ["Read"], ["Read"]]))
            cs.append(dict(prop="nested", cached=cached, n=3, init=emp2, kwargs=kw,
                           ops=[["Read"], ["Listen", "observe"], ["Set", 0, "child", 1], ["Read"], ["Append", 1, "kids", 2],
                                ["Read"], ["Set", 2, "value", 7], ["Read"]]))
            cs.append(dict(prop="kids", cached=cached, n=3, init=emp, kwargs=kw,
                           ops=[["Read"], ["Listen", "observe"], ["Append", 0, "kids", 2], ["Read"], ["Set", 2, "value", 7], ["Read"]]))
    # LISTED FINDING (always included): an observed Property added with add_trait / add_class_trait gets no observers
    for how in ("instance", "class"):
        for cached in (True, False):
            cs.append(dict(prop="scalar", cached=cached, added=how, n=2, init=dup,
                           ops=[["Read"], ["Listen", "observe"], ["Set", 0, "value", 4], ["Read"], ["Set", 0, "value", 5],
                                ["Read"], ["Read"]]))
    # fifth wave: a dependency deleted / reset to its (non-constant) default; a property with an ordinary name that
    # starts with a letter of "_get_"; intersection_update with several arguments
    tri = [{"value": 1, "child": 1, "kids": [1, 2], "m": [["ka", 1], ["kb", 2]], "s": [1, 2], "nums": [3, 4]},
           {"value": 2, "child": None, "kids": [], "m": [], "s": [], "nums": []},
           {"value": 5, "child": None, "kids": [], "m": [], "s": [], "nums": []}]
    for cached in (True, False):
        for pn, tr in (("kids", "kids"), ("dict", "m"), ("set", "s"), ("nums", "nums")):
            for how in (0, 1):
                cs.append(dict(prop=pn, cached=cached, n=3, init=tri,
                               ops=[["Read"], ["Listen", "observe"], ["Reset", 0, tr, how], ["Read"], ["Set", 1, "value", 4],
                                    ["Read"], ["Reset", 0, tr, how], ["Read"], ["Read"]]))
        cs.append(dict(prop="tname", cached=cached, n=3, init=tri,
                       ops=[["Read"], ["Listen", "observe"], ["Set", 0, "value", 4], ["Read"], ["Read"], ["Set", 0, "value", 2],
                            ["Read"]]))
        for pn in ("set", "sitems"):
            cs.append(dict(prop=pn, cached=cached, n=3, init=tri,
                           ops=[["Read"], ["Listen", "observe"], ["SInter", 0, "s", [[1], [2]]], ["Read"], ["Set", 1, "value", 4],
                                ["Read"], ["SUpdate", 0, "s", [[1, 2], [2]]], ["Read"], ["SInter", 0, "s", [[1, 2], [2], [2, 1]]],
                                ["Read"], ["Set", 1, "value", 3], ["Read"], ["SDiff", 0, "s", [[1], [2]]], ["Read"]]))
    # KNOWN FINDING (always included), family afterreset: the minimal script -- del obj.m, an item put into the new default,
    # del obj.m again, the departed item changes: the handler still fires (getter runs again, event (v, v))
    for cached in (True, False):
        for tr, pn, add in (("m", "dict", ["DSet", 0, "m", "kb", 2]), ("kids", "kids", ["Append", 0, "kids", 2]),
                            ("s", "set", ["SAdd", 0, "s", 2])):
            for how in (0, 1):
                cs.append(dict(prop=pn, cached=cached, n=3, init=tri, afterreset=True,
                               ops=[["Read"], ["Listen", "observe"], ["Reset", 0, tr, how], add, ["Read"], ["Reset", 0, tr, how],
                                    ["Read"], ["Set", 2, "value", 4], ["Read"], ["Read"]]))
    # metadata-selected dependencies (the metadata value of one of them is 0) and a transient dependency across copies
    for cached in (True, False):
        cs.append(dict(prop="meta", cached=cached, n=3, init=tri,
                       ops=[["Read"], ["Listen", "observe"], ["Set", 0, "off0", 4], ["Read"], ["Set", 0, "off1", 2], ["Read"],
                            ["Set", 0, "off0", 1], ["Read"], ["Read"]]))
    for mode in (["Copy", "pickle", 2], ["Copy", "pickle", 5], ["Copy", "shallow"], ["Copy", "deepcopy"], ["Copy", "clone"]):
        cs.append(dict(prop="trans", cached=True, n=3, init=tri,
                       ops=[["Set", 0, "tval", 5], ["Read"], mode, ["Read"], ["Read"], ["Set", 0, "tval", 3], ["Read"], mode, ["Read"]]))
    cs.append(dict(prop="maybe", cached=True, n=2, init=dup,
                   ops=[["Set", 0, "value", 2], ["Read"], ["Read"], ["Read"], ["Listen", "observe"], ["Set", 0, "value", 3], ["Read"],
                        ["Read"], ["Set", 0, "value", 4], ["Read"], ["Read"]]))
    # seventh wave: container defaults first touched DURING construction (traits_init) and filled in place
    for cached in (True, False):
        for pn, mut in (("kids", ["Append", 0, "kids", 2]), ("dict", ["DSet", 0, "m", "kc", 2]), ("set", ["SAdd", 0, "s", 2]),
                        ("nums", ["Append", 0, "nums", 3]), ("multi", ["Append", 0, "nums", 3])):
            cs.append(dict(prop=pn, cached=cached, n=3, init=tri, touch=True,
                           ops=[["Read"], ["Listen", "observe"], mut, ["Read"], ["Set", 1, "value", 4], ["Read"],
                                ["Set", 2, "value", 1], ["Read"], ["Read"]]))
    # `child.*`: every trait of the child, its computed (Property) trait included
    star = [{"value": 1, "child": 1, "kids": [], "m": [], "s": [], "nums": []},
            {"value": 2, "child": None, "kids": [2], "m": [], "s": [], "nums": []},
            {"value": 5, "child": None, "kids": [], "m": [], "s": [], "nums": []}]
    for cached in (True, False):
        cs.append(dict(prop="star", cached=cached, n=3, init=star,
                       ops=[["Read"], ["Listen", "observe"], ["Set", 2, "value", 7], ["Read"], ["Append", 1, "kids", 2], ["Read"],
                            ["Set", 1, "value", 3], ["Read"], ["Set", 2, "value", 1], ["Read"], ["Pop", 1, "kids", 0], ["Read"],
                            ["Read"]]))
    # a dependency that is an instance trait of the child: removed and added back (trait_added must re-hook it)
    for cached in (True, False):
        cs.append(dict(prop="dynchild", cached=cached, n=2, init=dup,
                       ops=[["Read"], ["Listen", "observe"], ["Set", 1, "extra", 3], ["Read"], ["Set", 1, "extra", 0], ["Read"],
                            ["ReAdd", 1], ["Read"], ["Set", 1, "extra", 5], ["Read"], ["Read"]]))
    # one slice assignment changing the multiplicity of an item that stays, then removal of copies, then a change
    for cached in (True, False):
        cs.append(dict(prop="kids", cached=cached, n=2, init=dup,
                       ops=[["Read"], ["Listen", "observe"], ["SetSlice", 0, "kids", [2, 1], []], ["Read"], ["Pop", 0, "kids", 0],
                            ["Pop", 0, "kids", 0], ["Set", 1, "value", 3], ["Read"], ["Pop", 0, "kids", 0], ["Set", 1, "value", 4],
                            ["Read"], ["Read"]]))
    # an inherited observed property redeclared in a subclass with another dependency
    cs.append(dict(prop="scalar", cached=True, redecl=True, n=2, init=dup,
                   ops=[["Read"], ["Set", 0, "value", 4], ["Read"], ["Set", 0, "other", 2], ["Read"], ["Listen", "observe"],
                        ["Set", 0, "value", 5], ["Read"], ["Set", 0, "other", 3], ["Read"], ["Read"]]))
    # a subclass overriding only the getter of an inherited observed property with @cached_property
    for pname in ("scalar", "kids", "multi"):
        cs.append(dict(prop=pname, cached=True, sub=True, n=2, init=dup,
                       ops=[["Read"], ["Set", 0, "value", 4], ["Read"], ["Set", 1, "value", 6], ["Read"], ["Listen"],
                            ["Set", 0, "value", 5], ["Set", 1, "value", 7], ["Read"], ["Read"]]))
    return cs


def run(ctx):
    ok, log = ctx.proofs(PROPS)
    ctx.cov["trusted_base"] += [
        "tools/drivers/c12_driver.py (test classes with 12 dependency shapes x cached/uncached, the independent "
        "recomputation functions, the from-scratch walk giving the observed view and the touched flag, counters through "
        "an override of trait_property_changed) and tools/props/c12.py (generator, term writer)",
        "interface, not proved here: the observe machinery calls the property's handler exactly once for a change of a "
        "matched dependency and never otherwise (property C08); the run checks it on every step (correspondence code 8)",
        "modelled, not verified: pickle / deepcopy / clone_traits (the model's Copy step is: cache empty, no listeners)",
    ]
    ctx.cov["rule"] = ("random histories (reads, listener add/remove, copies by pickle 0-5 / deepcopy / clone_traits / copy.copy, "
                       "mutations of scalar, Instance, List, Dict, Set traits and their items anywhere in a DAG pool of 2-5 "
                       "objects with shared and repeated items, relevant traits preferred) for 12 dependency shapes (incl. a property that observes another cached property and two that depend on which objects a dict / set holds) x cached / "
                       "not cached; a case is non-trivial if the property's handler fired at least once; distinct = distinct "
                       "(property, cached, pool, history)")
    rnd = random.Random(ctx.seed)
    n, maxlen = (2400, 14) if ctx.tier == "quick" else (26000, 30)
    if ctx.replay:
        cases = [json.load(open(ctx.replay))["replay"]["case"]]
    else:
        cases = corpus() + [gen_case(rnd, ctx, maxlen) for _ in range(n)]
    for c in cases[:2] + cases[-2:]:
        ctx.sample(c)
    for k in range(0, len(cases), 6000):
        hist.run(ctx, "c12_driver.py", cases[k:k + 6000], to_term, HEADER, CASE_T, key_fn, describe, nontrivial,
                 relation="C12.Corr.corr_codes (Model.step = Property(observe=...) on every step)", tag="cases%02d" % (k // 6000),
                 shard=300)
    proof_gate(ctx, ok, log, PROPS)
