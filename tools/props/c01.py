"""C01 — assigned values always lie in the trait's declared domain."""
import json
import random

from vlib import pyval as pv
from vlib import single, t2
from vlib.ctx import proof_gate
from vlib.term import C

IMPORTS = ("From Coq Require Import ZArith List.\n"
           "From TV Require Import Common.PyVal Common.Harness C03.Model C01.Model C01.Law C01.Corr.")
CASE_T = "C01.Corr.case"
PROPS = ["C01/Props.v"]
CLAUSE = {1: "out-of-domain-readable", 2: "other-attribute-changed", 3: "failed-assignment-had-effect",
          4: "not-the-documented-conversion", 5: "foreign-exception", 6: "dynamic-range-out-of-bounds",
          7: "dynamic-range-reads-outside-declared-range", 8: "read-stored-something-else-than-the-default"}
RELATION = "C01.Corr.corr_codes (Model.step = setattr / trait_set / constructor on every step)"
HOW = {"Attr": "Attr", "TraitSet": "TraitSet", "Ctor": "Ctor"}


def to_term(case, ob):
    env = pv.env_term(110, ob["orc"], ob["re"])
    dfl = dict((n, w) for n, w in ob["defaults"])
    def dterm(t):      # a settable validated Property(<trait>) is the description DProperty <trait>
        return C("DProperty", pv.desc_term(t[1])) if len(t) > 2 and t[2] == "property" else pv.desc_term(t[1])
    cls = [(int(t[0]), (dterm(t), pv.val_term(dfl[t[0]]))) for t in case["traits"]]
    h = []
    for (how, kws), st in zip(case["ops"], ob["steps"]):
        # the quiet routes (notifications off): the model operation TraitSetQ
        op = (C("TraitSetQ" if how in ("TraitSetQ", "TraitSetq") else how), [(int(n), pv.val_term(v)) for n, v in kws])
        out = C("Ok") if st["out"] == "Ok" else C("Raise", C(st["out"]))
        h.append((op, C("mkObs", out, bool(st["names"]), [(int(n), pv.val_term(w)) for n, w in st["after"]])))
    pre = ([int(n) for n in case.get("pre", [])], [(int(n), pv.val_term(w)) for n, w in ob.get("init", [])])
    return (env, cls, pre, h)


def _first(case, step):
    how, kws = case["ops"][step]
    descs = dict((t[0], t[1]) for t in case["traits"])
    n, v = kws[0]
    return how, descs[n], v


def key_fn(case, ob, code):
    step, clause = code // 100, code % 100
    how, d, v = _first(case, step)
    if clause == 7:
        # F23: which endpoint the getter clamped onto
        dyn = [(t[0], t[1]) for t in case["traits"] if t[1][0] == "DRangeDyn"]
        after = dict((n, w) for n, w in ob["steps"][step]["after"])
        for n, dd in dyn:
            r, lo_, hi_ = after.get(n + 2000), after.get(dd[1]), after.get(dd[2])
            if r and lo_ and r == lo_ and dd[3] & 1:
                return "out-of-domain-readable/dynamic-range-getter-clamps-onto-excluded-low-endpoint"     # F23
            if r and hi_ and r == hi_ and dd[3] & 2:
                return "out-of-domain-readable/dynamic-range-getter-clamps-onto-excluded-high-endpoint"    # F23
        if any(t[1][0] == "DEnumDyn" for t in case["traits"]):
            return "dynamic-enum-reads-a-value-outside-the-current-collection"
        return "dynamic-range-reads-outside-declared-range/%s" % pv.shape(d)
    if any(v2 == ["PUndefined"] for _, v2 in case["ops"][step][1]):
        return "out-of-domain-readable/Undefined-sentinel-bypasses-validation"                # F22
    if clause == 1 and d[0] == "DInstance" and not d[2] and d[1] in (0, 1) and \
            any(w == ["PNone"] for n, w in ob["steps"][step]["after"] if n == case["ops"][step][1][0][0]):
        return "out-of-domain-readable/none-stored-although-allow_none-false"                  # F18
    return "%s/%s/%s/%s" % (CLAUSE.get(clause, clause), how, pv.shape(d), pv.vshape(v))


def describe(case, ob, code):
    step, clause = code // 100, code % 100
    how, d, v = _first(case, step)
    return "step %d (%s) of a history on traits %s: %s <- %s: clause %s: observed %r" % (
        step, how, ", ".join(pv.shape(t[1]) for t in case["traits"]), pv.shape(d), json.dumps(v)[:100],
        CLAUSE.get(clause, "model-vs-implementation"), {k: ob["steps"][step][k] for k in ("out", "names", "after")})


def nontrivial(case, ob):
    return json.dumps([case["traits"], case["ops"], case.get("pre")]), any(s["out"] != "ETraitError" for s in ob["steps"])


def check_obs(case, ob):
    for (how, kws), st in zip(case["ops"], ob["steps"]):
        if st["venc"] != [v for _, v in kws]:
            return "value descriptions %r re-encode as %r" % ([v for _, v in kws], st["venc"])
    return None


def readable_first(t):
    """may this attribute be read before the history starts? Not the traits with a post_setattr (a read stores the
    default WITHOUT the shadow entry), not Property / PrototypedFrom / name-based Range and Enum (reads do not go through
    the instance dictionary alone), not List / Dict (the default is a fresh TraitList object built and
    length-checked by the read itself: C04's subject)"""
    if len(t) > 2:
        return False
    if any(k in ("DMap", "DPrefixMap", "DRangeDyn", "DEnumDyn", "DProperty", "DList", "DDict") for k in pv.desc_kinds(t[1])):
        return False
    return '"dynamic"' not in json.dumps(t[1])


def values_for(d, rnd, k):
    """k values biased to the interesting ones of configuration d"""
    pool = list(pv.ATOMS)
    kinds = pv.desc_kinds(d)
    if any(x in ("DPrefixList", "DPrefixMap") for x in kinds):
        pool = pv.PREFIX_VALUES * 3 + pool
    if "DString" in kinds:
        pool = pv.STRING_VALUES * 4 + pool
    if "DTuple" in kinds:
        pool = pv.tuple_values(rnd, 30, 2) + pool
    if "DList" in kinds:
        pool = pv.list_values(rnd, 10) * 2 + pool[:20]
    if "DDict" in kinds:
        pool = pv.dict_values(rnd, 10) * 2 + pool[:20]
    if "DArray" in kinds:        # arrays only meet Array traits (array == x is element-wise: not modelled elsewhere)
        pool = pv.ARRAY_VALUES
    return [rnd.choice(pool) for _ in range(k)]


def corpus():
    S, F = pv.S, pv.F
    cs = []

    def one(d, *vals, how="Attr"):
        cs.append(dict(traits=[[0, d], [1, ["DInt"]]], ops=[["Attr", [[1, ["PInt", 7]]]]] + [[how, [[0, v]]] for v in vals]))
    for mask in (0, 1, 2, 3):                                                          # F2: NaN against a float Range
        one(["DRangeF", F(0.0), F(1.0), mask], ["PFloat", F(0.5)], ["PFloat", pv.NAN], ["PNpFloat", 18, pv.NAN],
            ["PFloat", F(0.0)], ["PFloat", F(1.0)], ["PNpFloat", 17, F(1.0)])
        one(["DCompound", [["DRangeF", F(0.0), F(1.0), mask], ["DStr"]]], ["PFloat", pv.NAN], ["PFloatObj", ["Returns", pv.NAN]])
    for an in (True, False):                                   # proxies; Instance(K)(allow_none=...) (F20)
        for d in (["DInstance", 100, an, False], ["DInstance", 100, an, False, "clone"]):
            one(d, ["PProxy", 100, 1], ["PNone"], ["PProxy", 102, 1], ["PObj", 101, 1], ["PNone"])
            one(["DCompound", [d, ["DStr"]]], ["PNone"], ["PProxy", 101, 1])
    for an in (True, False):                                                           # F18
        one(["DInstance", 0, an, False], ["PInt", 1], ["PNone"])
    one(["DMap", [[S("a"), ["PInt", 1]], [["PInt", 1], ["PInt", 2]]]], S("a"), ["PFloat", F(1.0)], S("c"), ["PList", []], ["PBool", True])
    one(["DPrefixMap", [[pv.W("yes"), ["PInt", 1]], [pv.W("no"), ["PInt", 0]], [pv.W("yesterday"), ["PInt", 2]]]],
        S("ye"), S("n"), S("yest"), ["PStrSub", pv.W("no")], ["PInt", 1])
    # repaired F19 (c056106): Map / PrefixMap as an alternative of a compound: a value accepted by ANOTHER alternative is
    # stored, its shadow is the value itself, nothing is raised; the first assignment materialises the default None the same way
    pmx = ["DPrefixMap", [[pv.W("yes"), ["PInt", 1]], [pv.W("no"), ["PInt", 0]], [pv.W("yesterday"), ["PInt", 2]]]]
    for how in ("Attr", "TraitSet", "Ctor", "TraitSetQ"):
        one(["DCompound", [["DMap", [[S("a"), ["PInt", 1]]]], ["DInt"]]], S("a"), ["PInt", 5], S("b"), ["PInt", 5], S("a"), how=how)
        one(["DCompound", [pmx, ["DInt"]]], S("ye"), ["PInt", 5], S("n"), S("zz"), ["PInt", 7], S("yes"), how=how)
        one(["DCompound", [["DFloat"], pmx, ["DMap", [[["PInt", 1], S("one")], [S("k"), ["PNone"]]]]]], ["PInt", 1], S("k"), S("no"),
            ["PFloat", F(0.5)], ["PBool", True], ["PNone"], S("yest"), how=how)
        one(["DUnion", [["DMap", [[S("a"), ["PInt", 1]]]], ["DInt"]]], S("a"), ["PInt", 5], S("b"), how=how)
        # a NESTED compound contributes its own _post_setattr (which never raises) to the outer one
        one(["DCompound", [["DCompound", [["DMap", [[S("a"), ["PInt", 1]]]], ["DString", 2, 4, None]]], ["DInt"]]],
            S("a"), S("abc"), ["PInt", 5], S("abcdef"), S("a"), how=how)
        one(["DCompound", [["DInt"], ["DCompound", [["DFloat"], pmx]], ["DMap", [[S("k"), ["PNone"]]]]]],
            S("ye"), S("k"), ["PFloat", F(0.5)], ["PInt", 5], S("zz"), S("no"), how=how)
    # the quiet routes x mapped traits: the shadow must follow the value (post_setattr runs with notifications off)
    m1 = ["DMap", [[S("a"), ["PInt", 1]], [["PInt", 1], ["PInt", 2]], [S("b"), S("abc")]]]
    pm = ["DPrefixMap", [[pv.W("yes"), ["PInt", 1]], [pv.W("no"), ["PInt", 0]], [pv.W("yesterday"), ["PInt", 2]]]]
    for q in ("TraitSetQ", "TraitSetq"):
        cs.append(dict(traits=[[0, m1], [1, ["DInt"]]],
                       ops=[["Attr", [[0, S("a")]]], [q, [[0, ["PInt", 1]]]], [q, [[0, S("b")]]], ["Attr", [[0, S("a")]]],
                            [q, [[0, S("zz")]]], [q, [[0, S("b")], [1, ["PInt", 3]]]]]))
        cs.append(dict(traits=[[0, pm], [1, ["DInt"]]],
                       ops=[[q, [[0, S("no")]]], [q, [[0, S("yest")]]], ["Attr", [[0, S("n")]]], [q, [[0, S("yes")]]]]))
        cs.append(dict(traits=[[0, m1], [2, pm]], ops=[[q, [[0, S("b")], [2, S("no")]]], [q, [[2, S("ye")]]], [q, [[0, ["PInt", 1]]]]]))
    # ValidatedTuple (no / always-true fvalidate): stores the converted members
    for fv in (1, 2, 3):     # real custom validators; lists, tuple subclasses, members that raise
        vt = ["DTuple", [["DFloat"], ["DInt"]], "Validated", fv]
        one(vt, ["PTuple", [["PInt", 1], ["PInt", 2]]], ["PList", [["PInt", 5], ["PBool", True]]],
            ["PTupleSub", [["PFloat", F(0.5)], ["PIntSub", 3]]], ["PTuple", [["PInt", 10 ** 400], ["PInt", 2]]],
            ["PTuple", [["PIndexObj", ["Raises", "EValueError"]], ["PInt", 2]]], ["PTuple", [["PInt", 12], ["PInt", 2]]],
            ["PTuple", [["PNpInt", 15, 1], ["PNpInt", 14, 3]]], ["PNone"], ["PTuple", [["PInt", 1]]],
            how=("Attr", "TraitSet", "Ctor")[fv - 1])
    for fv in ("none", "true"):
        one(["DTuple", [["DFloat"], ["DInt"]], "Validated", fv], ["PList", [["PInt", 5], ["PBool", True]]],
            ["PTupleSub", [["PFloat", F(0.5)], ["PIntSub", 3]]], ["PTuple", [["PInt", 10 ** 400], ["PInt", 2]]])
        vt = ["DTuple", [["DFloat"], ["DInt"], ["DCast", "CTStr"]], "Validated", fv]
        one(vt, ["PTuple", [["PInt", 1], ["PInt", 2], ["PInt", 5]]], ["PTuple", [["PFloat", F(0.5)], ["PBool", True], S("a")]],
            ["PTuple", [["PInt", 1], ["PInt", 2]]], ["PInt", 1], ["PTuple", [["PNpInt", 15, 1], ["PIntSub", 3], ["PNone"]]],
            ["PTuple", [S("a"), ["PInt", 2], ["PInt", 5]]], ["PNone"])
        one(["DTuple", [["DFloat"], ["DFloat"]], "Validated", fv], ["PTuple", [["PInt", 1], ["PInt", 2]]], how="Ctor")
    # x = PrototypedFrom('parent'): the assignment is validated by the PARENT's trait (setattr_delegate -> setattr_trait with
    # traitd = the parent's trait) and stored on the delegating object
    dvals = [["PInt", 3], ["PInt", 1000], S("42"), ["PFloat", F(0.5)], ["PBool", True], ["PNone"], ["PIntSub", 3], S("a"),
             ["PTuple", [["PInt", 1], ["PInt", 2]]], ["PNpInt", 15, 1], ["PInt", -1], ["PFloat", pv.NAN], ["PUndefined"],
             ["PIndexObj", ["Raises", "EValueError"]], ["PTupleSub", [["PInt", 1], ["PInt", 2]]]]
    for d in (["DRangeI", 0, 150, 0], ["DFloat"], ["DEnum", [["PInt", 1], S("a")]], ["DTuple", [["DFloat"], ["DFloat"]]], ["DInt"],
              ["DRangeF", F(0.0), F(1.0), 1], ["DCast", "CTInt"], ["DString", 1, 3, None], ["DInstance", 100, False, False],
              ["DCompound", [["DInt"], ["DStr"]]], ["DUnion", [["DFloat"], ["DStr"]]], ["DList", ["DInt"], 0, 2]):
        for how in ("Attr", "TraitSet", "Ctor", "TraitSetQ"):
            cs.append(dict(traits=[[0, d, "prototyped"], [1, ["DInt"]]], ops=[[how, [[0, v]]] for v in dvals]))
    # Map on a dict that grows after the trait was defined: the new key is valid and gets its shadow
    for gm in pv.GROWN_MAPS:
        one(gm, S("blue"), S("a"), ["PNone"], ["PInt", 5], S("yes"), S("zz"), ["PInt", 1])
    # settable validated Property(<trait>): the SETTER must receive the validated value (the Python validate is used:
    # configurations and values on which it coincides with the compiled one)
    pvals = [["PInt", 3], S("42"), S("n"), S("no"), ["PTuple", [["PInt", 1], ["PInt", 2]]], ["PFloat", F(0.5)], ["PBool", True],
             ["PNone"], ["PIntSub", 3], ["PNpInt", 15, 1], S("abc"), ["PTuple", [["PInt", 1], S("a")]], ["PInt", 2 ** 70],
             ["PNpFloat", 17, F(0.5)], ["PIndexObj", ["Returns", 1]], ["PList", [["PInt", 1], ["PInt", 2]]],
             # the property is validated by the trait's PYTHON validate and without the Undefined bypass
             ["PTupleSub", [["PInt", 1], ["PInt", 2]]], ["PUndefined"], ["PFloat", pv.PINF], ["PInt", 10 ** 400],
             ["PIndexObj", ["Raises", "EValueError"]], ["PObj", 100, 1], ["PProxy", 100, 1]]
    for d in (["DFloat"], ["DCast", "CTInt"], ["DPrefixList", [pv.W("yes"), pv.W("no"), pv.W("nope")]],
              ["DTuple", [["DFloat"], ["DFloat"]]], ["DInt"], ["DRangeI", 0, 5, 1], ["DString", 2, 4, None], ["DBool"],
              ["DCast", "CTFloat"], ["DComplex"], ["DUnion", [["DFloat"], ["DStr"]]], ["DInstance", 100, False, False],
              ["DInstance", 0, False, False], ["DTuple", [["DInt"], ["DInt"]]], ["DCompound", [["DCast", "CTInt"], ["DFloat"]]],
              ["DCompound", [["DString", 0, 5, None], ["DCast", "CTInt"]]], ["DEnum", [["PInt", 1], S("a")]]):
        for how in ("Attr", "TraitSet", "Ctor", "TraitSetq"):
            cs.append(dict(traits=[[0, d, "property"], [1, ["DInt"]]], ops=[[how, [[0, v]]] for v in pvals]))
    # Range whose bounds are given BY TRAIT NAME: x = Range(low='y', high='z', exclude_*) with y, z Int traits of the
    # same class (description DRangeDyn 2 3 mask); the bounds start at 0 / 0 and are moved by the history itself
    def iv(z):
        return ["PInt", z]
    for lo, hi in ((0, 5), (2, 7), (-3, 3), (4, 4)):
        for mask in (0, 1, 2, 3):
            tr = [[0, ["DRangeDyn", 2, 3, mask]], [1, ["DInt"]], [2, ["DInt"]], [3, ["DInt"]]]
            ends = [iv(z) for z in (lo, hi, lo - 1, hi + 1, lo + 1, hi - 1)]
            odd = [["PFloat", F(2.5)], ["PNone"], ["PBool", True], S("3"), ["PBytes", [51]], ["PIntSub", 3], ["PNpInt", 15, 4],
                   ["PNpFloat", 18, F(0.5)], ["PIndexObj", ["Returns", 2]], ["PIndexObj", ["Raises", "EValueError"]],
                   ["PInt", 10 ** 400], ["PUndefined"], ["PTuple", []], ["PFloat", pv.NAN]]
            # (validating x READS y and z, which caches their defaults in __dict__: every history / constructor call
            #  assigns both bounds before x, so that the dictionary snapshots are those of the model)
            cs.append(dict(traits=tr, ops=[["Attr", [[3, iv(0)]]], ["Attr", [[2, iv(0)]]], ["Attr", [[0, iv(0)]]],
                                           ["Attr", [[3, iv(hi)]]], ["Attr", [[2, iv(lo)]]]]
                           + [["Attr", [[0, v]]] for v in ends + odd]))
            # the bound moves AFTER a value was stored, then the endpoints are probed again; all routes
            cs.append(dict(traits=tr, ops=[["TraitSet", [[3, iv(hi + 4)], [2, iv(lo)]]], ["TraitSet", [[0, iv(hi + 2)]]],
                                           ["TraitSetQ", [[3, iv(hi)]]]] + [["TraitSetq", [[0, v]]] for v in ends[:4]]
                           + [["Ctor", [[3, iv(hi)], [2, iv(lo)], [0, ends[0]]]], ["Ctor", [[2, iv(lo)], [3, iv(hi)], [0, ends[1]]]],
                              ["Attr", [[2, S("a")]]], ["Attr", [[0, ends[1]]]]]))
    # Enum(values='y') with y = List(Str) / List(Any) of the same class (description DEnumDyn 2): assign, then the collection
    # changes so that the stored value is no longer a member, then the attribute is read (pseudo-name 2000) at every step
    def L(*xs):
        return ["PList", list(xs)]
    for item in (["DStr"], ["DAny"]):
        tr = [[0, ["DEnumDyn", 2]], [1, ["DInt"]], [2, ["DList", item, 0, pv.MAXSIZE]]]
        rgb, cmy = L(S("red"), S("blue")), L(S("cyan"), S("magenta"), S("yellow"))
        cs.append(dict(traits=tr, ops=[["Attr", [[2, rgb]]], ["Attr", [[0, S("blue")]]], ["Attr", [[0, S("green")]]],
                                       ["Attr", [[2, cmy]]], ["Attr", [[1, ["PInt", 3]]]], ["Attr", [[0, S("blue")]]],
                                       ["TraitSetQ", [[0, S("yellow")]]], ["TraitSet", [[2, L()]]], ["Attr", [[0, S("x")]]],
                                       ["Attr", [[2, rgb]]], ["Attr", [[0, ["PNone"]]]], ["Attr", [[0, ["PUndefined"]]]]]))
        cs.append(dict(traits=tr, ops=[["Ctor", [[2, rgb], [0, S("red")]]], ["TraitSetq", [[2, L(S("blue"))]]],
                                       ["Ctor", [[2, cmy]]], ["Ctor", [[2, rgb], [0, S("cyan")]]], ["TraitSet", [[2, cmy], [0, S("cyan")]]]]))
    tr = [[0, ["DEnumDyn", 2]], [2, ["DList", ["DAny"], 0, pv.MAXSIZE]]]
    mixed = L(["PInt", 1], S("a"), ["PFloat", F(0.5)], ["PNone"], ["PTuple", [["PInt", 1], ["PInt", 2]]])
    cs.append(dict(traits=tr, ops=[["Attr", [[2, mixed]]]] + [["Attr", [[0, v]]] for v in
                   (["PBool", True], ["PInt", 2], ["PNone"], ["PFloat", F(1.0)], ["PTuple", [["PInt", 1], ["PInt", 2]]], S("b"),
                    ["PFloat", F(0.5)], ["PList", []])] + [["Attr", [[2, L(["PInt", 7])]]], ["Attr", [[0, ["PInt", 7]]]]]))
    # membership tests against a value whose == has no truth value (numpy array of size > 1) / that is unhashable:
    # the rejection must be a TraitError naming the attribute, not numpy's ValueError
    arr = [["PArray", 32, [3], 0], ["PArray", 30, [2, 3], 1], ["PArray", 36, [2], 0]]
    one(["DEnum", [["PInt", 1], ["PInt", 2], S("a")]], *arr, ["PInt", 2])
    one(["DEnum", [["PFloat", F(0.5)], ["PNone"]], "args"], *arr, how="TraitSet")
    one(["DMap", [[S("a"), ["PInt", 1]], [["PInt", 1], ["PInt", 2]]]], *arr)
    one(["DPrefixList", [pv.W("yes"), pv.W("no")]], *arr)
    one(["DCompound", [["DEnum", [["PInt", 1], S("a")]], ["DStr"]]], *arr)
    one(["DTuple", [["DEnum", [["PInt", 1], S("a")]], ["DInt"]]], ["PTuple", [arr[0], ["PInt", 1]]], ["PTuple", [["PInt", 1], ["PInt", 1]]])
    one(["DUnion", [["DEnum", [["PInt", 1], S("a")]], ["DInt"]]], *arr, how="Ctor")
    # Union: "the first trait in the list that can validate": the stored value must not depend on which alternative
    # accepted the PREVIOUS value (on this or any other instance of the class): a value only a LATER alternative accepts,
    # then values that an earlier alternative accepts and a later one would convert differently
    yn = ["DPrefixList", [pv.W("yes"), pv.W("no")]]
    for d, later, both in [
            (["DUnion", [["DInt"], ["DFloat"]]], ["PFloat", F(0.5)], [["PInt", 2], ["PBool", True], ["PInt", 0]]),
            (["DUnion", [["DBool"], ["DInt"]]], ["PInt", 3], [["PBool", True], ["PBool", False]]),
            (["DUnion", [yn, ["DStr"]]], S("zzz"), [S("y"), S("no"), S("n")]),
            (["DUnion", [["DInt"], ["DCast", "CTFloat"], ["DStr"]]], S("a"), [["PInt", 2], ["PFloat", F(0.5)], ["PInt", 3]]),
            (["DUnion", [["DRangeI", 0, 5, 0], ["DFloat"], ["DCast", "CTStr"]]], ["PNone"], [["PInt", 2], ["PInt", 7], ["PInt", 1]]),
            (["DUnion", [["DStr"], ["DCast", "CTBytes"]]], ["PBytes", [97]], [S("a")]),
            (["DUnion", [["DTuple", [["DInt"], ["DInt"]]], ["DTuple", [["DFloat"], ["DFloat"]]]]],
             ["PTuple", [["PFloat", F(0.5)], ["PInt", 1]]], [["PTuple", [["PInt", 1], ["PInt", 2]]]]),
            (["DUnion", [["DComplex"], ["DFloat"], ["DInt"]]], ["PNone"], [["PFloat", F(0.5)], ["PInt", 2]])]:
        for how in ("Attr", "TraitSet", "TraitSetQ", "Ctor"):
            cs.append(dict(traits=[[0, d], [1, ["DInt"]]],
                           ops=[[how, [[0, later]]]] + [[how, [[0, v]]] for v in both] + [[how, [[0, later]]], ["Attr", [[0, both[0]]]]]))
        cs.append(dict(traits=[[0, d], [1, ["DInt"]], [2, d]],       # the other attribute / another instance
                       ops=[["Attr", [[2, later]]], ["Attr", [[0, both[0]]]], ["Ctor", [[2, later]]], ["Ctor", [[0, both[-1]]]],
                            ["TraitSet", [[2, later], [0, both[0]]]]]))
    # READ FIRST, then assign the very object the read returned: the default a read stores is not validated, so what is
    # stored is no evidence that assigning it is allowed (default None of allow_none=False traits, '' of String(minlen=2),
    # None of Either(..)); also a valid value, then the default again
    for d, bad, good in [(["DInstance", 100, False, False], ["PNone"], ["PObj", 100, 1]),
                         (["DInstance", 101, False, False, "clone"], ["PNone"], ["PObj", 101, 1]),
                         (["DCallable", False], ["PNone"], ["PCallable", 1]),
                         (["DType", 100, False], ["PNone"], ["PType", 100]),
                         (["DSelf", False], ["PNone"], ["PInt", 1]),
                         (["DString", 2, 4, None], S(""), S("abc")),
                         (["DString", 1, 3, 1], S(""), S("ab")),
                         (["DCompound", [["DInt"], ["DStr"]]], ["PNone"], ["PInt", 3]),
                         (["DCompound", [["DInstance", 100, False, False], ["DRangeF", F(0.0), F(1.0), 0]]], ["PNone"], ["PFloat", F(0.5)]),
                         (["DTuple", [["DInt"], ["DStr"]]], ["PNone"], ["PTuple", [["PInt", 0], S("")]]),
                         (["DInt"], ["PInt", 0], ["PNone"]), (["DRangeI", 1, 5, 0], ["PInt", 1], ["PInt", 0])]:
        for how in ("Attr", "TraitSet", "TraitSetQ"):
            cs.append(dict(traits=[[0, d], [1, ["DInt"]]], pre=[0], ops=[[how, [[0, bad]]], [how, [[0, good]]], [how, [[0, bad]]]]))
        cs.append(dict(traits=[[0, d], [1, ["DInt"]], [2, d]], pre=[2, 1, 0],
                       ops=[["TraitSet", [[1, ["PInt", 0]], [2, bad]]], ["Attr", [[0, bad]]], ["Ctor", [[0, bad]]], ["Attr", [[2, good]]]]))
    for how in ("Attr", "TraitSet", "Ctor"):                                           # F22
        one(["DInt"], ["PInt", 3], ["PUndefined"], ["PInt", 4], how=how)
    one(["DRangeF", F(0.0), F(1.0), 0], ["PUndefined"])
    # a stand-alone Map / PrefixMap and the unvalidated sentinel: stored, then post_setattr raises TraitError (c056106)
    for how in ("Attr", "TraitSet", "Ctor"):
        one(["DMap", [[S("a"), ["PInt", 1]], [["PInt", 1], ["PInt", 2]]]], S("a"), ["PUndefined"], ["PInt", 1], how=how)
    one(["DPrefixMap", [[pv.W("yes"), ["PInt", 1]], [pv.W("no"), ["PInt", 0]]]], ["PUndefined"], S("y"))
    one(["DInt"], ["PIndexObj", ["Raises", "EValueError"]], ["PIndexObj", ["Raises", "ETypeError"]], ["PBool", True], how="TraitSet")
    one(["DFloat"], ["PInt", 10 ** 400], ["PFloatObj", ["Raises", "EValueError"]], ["PIndexObj", ["Returns", 10 ** 400]], how="Ctor")
    one(["DTuple", [["DInt"], ["DFloat"]]], ["PTuple", [["PInt", 1], ["PIndexObj", ["Raises", "EOverflowError"]]]],
        ["PTupleSub", [["PInt", 1], ["PFloat", F(0.5)]]], ["PTupleSub", [["PIntSub", 3], ["PInt", 2]]])
    return cs


def has_mapped_compound(d):
    if d[0] == "DCompound" and any(a[0] in ("DMap", "DPrefixMap") for a in d[1]):
        return True
    return d[0] in ("DTuple", "DCompound", "DUnion") and any(has_mapped_compound(a) for a in d[1])


def configs(rnd, quick):
    fixed = (pv.fast_leaves(True) + pv.int_ranges() + pv.types_() + pv.STRINGS + pv.PREFIXES + pv.ARRAYS
             + pv.LISTS + pv.LIST_CONTAINERS + pv.DICTS
             + [["DUnion", [["DArray", 30, [3], 4], ["DInt"]]], ["DTuple", [["DArray", 33, None, 2], ["DInt"]]]]
             + [["DModule"], ["DTuple", []], ["DAny"],
                ["DUnion", [["DInt"], ["DStr"]]], ["DUnion", [["DString", 0, 5, None], ["DCast", "CTInt"]]],
                ["DUnion", [["DRangeF", pv.F(0.0), pv.F(1.0), 3], ["DEnum", [["PNone"]]], ["DTuple", [["DInt"], ["DInt"]]]]],
                ["DUnion", [["DFloat"], ["DInt"]]], ["DUnion", [["DInstance", 100, False, False], ["DCallable", False]]],
                ["DCompound", [["DString", 0, 5, None], ["DCast", "CTInt"]]], ["DCompound", [["DInt"], ["DStr"]]],
                ["DTuple", [["DInt"], ["DStr"]]], ["DTuple", [["DUnion", [["DRangeF", pv.F(0.0), None, 1], ["DStr"]]], ["DBool"]]],
                ["DTuple", [["DTuple", [["DInt"], ["DCast", "CTFloat"]]], ["DString", 1, 3, 1]]]])
    # (Supports stores an extra name_ entry through its own post_setattr: validation-only variant, used by C03)
    fixed = fixed + [w for d in fixed for w in pv.variants(d) if "Supports" not in w] + [
        ["DUnion", [["DEnum", [["PNone"]]], ["DInt"]]], ["DUnion", [["DStr"], ["DEnum", [["PNone"]]]]]]
    rand = []
    for _ in range(80 if quick else 760):
        d = pv.gen_desc(rnd, 3)
        if rnd.random() < 0.3:
            d = ["DUnion", [d, rnd.choice(pv.STRINGS + pv.int_ranges() + pv.SIMPLE_FAST)]]
        rand.append(d)
    return fixed, rand


def gen_cases(ctx, rnd):
    quick = ctx.tier == "quick"
    cases = corpus()
    fixed, rand = configs(rnd, quick)
    per_fixed, per_rand, maxlen = (7, 5, 4) if quick else (80, 15, 8)
    # every fixed configuration meets the key atoms once (None, bool, int, float, NaN, str, tuple, instance, class, ...)
    key_atoms = [["PNone"], ["PBool", True], ["PInt", 1], ["PFloat", pv.F(0.5)], ["PFloat", pv.NAN], pv.S("a"),
                 ["PTuple", [["PInt", 1], ["PInt", 2]]], ["PObj", 100, 1], ["PType", 100], ["PCallable", 1],
                 ["PInt", 10 ** 400], ["PNpInt", 15, 1], ["PIndexObj", ["Raises", "EValueError"]]]
    for d in fixed:
        vals = key_atoms if not pv.has_kind(d, "DArray") else pv.ARRAY_VALUES
        if pv.has_kind(d, "DList"):
            vals = pv.list_values(rnd, 4)
        if pv.has_kind(d, "DDict"):
            vals = pv.dict_values(rnd, 4) + (pv.list_values(rnd, 0)[:6] if pv.has_kind(d, "DList") else [])
        if d[0] == "DString":          # every String configuration meets every length / regex class
            vals = pv.STRING_VALUES
        cases.append(dict(traits=[[0, d], [1, ["DInt"]]], ops=[["Attr", [[0, v]]] for v in vals]))
    for d, k in [(d, per_fixed) for d in fixed] + [(d, per_rand) for d in rand]:
        for _ in range(k):
            traits = [[0, d], [1, ["DInt"]]]
            if rnd.random() < 0.3:
                traits.append([2, rnd.choice([f for f in fixed if not pv.has_kind(f, "DArray")])])
            descs = dict(traits)
            ops = [["Attr", [[1, ["PInt", 7]]]]] if rnd.random() < 0.7 else []
            for _ in range(rnd.randint(1, maxlen)):
                how = rnd.choice(["Attr", "Attr", "Attr", "TraitSet", "Ctor", "TraitSetQ", "TraitSetq"])
                names = [0] if how == "Attr" or rnd.random() < 0.6 else rnd.sample([n for n, _ in traits], min(2, len(traits)))
                kws = []
                for n in names:
                    kws.append([n, values_for(descs[n], rnd, 1)[0] if n != 1 else rnd.choice([["PInt", 3], ["PStr", [97]], ["PBool", True]])])
                ops.append([how, kws])
                ctx.count("op:" + how + ("-multi" if len(kws) > 1 else ""))
            case = dict(traits=traits, ops=ops)
            if rnd.random() < 0.25:      # some attributes have been read before the history starts
                el = [t[0] for t in traits if readable_first(t)]
                pre = [n for n in el if rnd.random() < 0.7]
                if pre:
                    rnd.shuffle(pre)
                    case["pre"] = pre
                    ctx.count("pre-read")
                    if rnd.random() < 0.5:   # ... and what a read typically returns is assigned first
                        n = rnd.choice(pre)
                        ops.insert(0, [rnd.choice(["Attr", "TraitSet", "TraitSetQ"]), [[n, rnd.choice([["PNone"], pv.S(""), ["PInt", 0]])]]])
            cases.append(case)
    for c in cases:
        for k in set(pv.desc_kinds(c["traits"][0][1])):
            ctx.count("trait:" + k)
        for how, kws in c["ops"]:
            for _, v in kws:
                ctx.count("value:" + v[0])
    return cases


def run(ctx):
    ok, log = ctx.proofs(PROPS)
    extra = t2.obligations(ctx, "C01")
    ctx.cov["trusted_base"] += [
        "tools/drivers/c01_driver.py + pvlib.py (Python value <-> PyVal.pv description, trait construction, dictionary "
        "snapshot, exception canonicalisation) and tools/props/c01.py + vlib/pyval.py (lattice, generators)",
        "tools/vlib/t2.py (translator of ctraits.c:in_float_range and the BaseRange comparisons; output re-proved each run)",
        "modelled, not verified: CPython built-ins on the lattice values (Common/PyVal.v); str()/bytes()/re/class table "
        "are supplied as data by the driver (Section-variable oracles of the theorems); numpy Array, List/Dict/Set "
        "(C04), File/Directory/Date/Time/UUID are not modelled",
    ]
    ctx.cov["rule"] = ("histories (a quarter of them after READS of some attributes, which store unvalidated defaults) "
                       "of 1-4 (thorough: 1-8) operations (attribute assignment, trait_set with one or two "
                       "keywords, constructor keywords) on a class with the trait under test, an Int witness attribute and "
                       "sometimes a third trait; trait under test: every fast leaf configuration, int Range, Type, String "
                       "(length/regex grid), PrefixList/PrefixMap, Map (shadow), Union/Either/Tuple nestings to depth 3; "
                       "values from the %d-atom lattice, prefix strings and random (sub)tuples; non-trivial = some "
                       "operation stores or lets a non-TraitError through" % len(pv.ATOMS))
    rnd = random.Random(ctx.seed)
    if ctx.replay:
        cases = [json.load(open(ctx.replay))["replay"]["case"]]
    else:
        cases = gen_cases(ctx, rnd)
        for d, v in extra:
            cases.append(dict(traits=[[0, d], [1, ["DInt"]]], ops=[["Attr", [[0, v]]]]))
    for c in cases[:2] + cases[-2:]:
        ctx.sample(c)
    obs = None
    rc, envd, err = ctx.run_driver("c01_driver.py", [], args=("--env",))
    if rc != 0 or not envd:
        ctx.fail("harness/env", "class table could not be computed: " + err[-400:], dict(error=err[-2000:]), no_input=True)
    else:
        header = pv.header_with_sub(IMPORTS, envd["sub"])
        obs = single.run(ctx, "c01_driver.py", cases, to_term, header, CASE_T, key_fn, describe, nontrivial, RELATION,
                   check_obs=check_obs, sanitize=(ctx.tier == "thorough"), shard=250)
    for c, o in zip(cases, obs or []):          # an assignment that changes the assigned value itself
        for i, st in enumerate(o["steps"]):
            if st.get("mut") and sum(1 for x in ctx.violations if x[0].startswith("input-mutated")) < 5:
                how, d, v = _first(c, i)
                ctx.fail("input-mutated/%s/%s/%s" % (how, pv.shape(d), pv.vshape(v)),
                         "step %d (%s): the assigned value %s was MUTATED by the assignment to %s" % (
                             i, how, json.dumps(v)[:120], pv.shape(d)),
                         dict(kind="law-failure-on-implementation", clause="input-mutated", step=i, case=c, impl_obs=o))
    t2.gate(ctx, "C01")
    proof_gate(ctx, ok, log, PROPS)
