"""C07 — TraitSet refines set; change events are faithful deltas; copies still validate."""
import random

from vlib import hist
from vlib.ctx import proof_gate
from vlib.term import C, Some, opt

HEADER = "From Coq Require Import ZArith List.\nFrom TV Require Import Common.Harness C07.Model C07.Law C07.Corr."
CASE_T = "C07.Corr.case"
PROPS = ["C07/Props.v"]
CLAUSE = {1: "outcome-class", 2: "contents", 3: "failing-op-effect", 4: "several-events", 5: "missing-event",
          6: "not-silent", 7: "delta-law", 8: "copy", 9: "observer-event"}


def outcome(o):
    return C("Ok") if o == "Ok" else C("Raise", C(o))


def op_term(op, ob, before, target="plain"):
    """`before`: contents before the step (needed when the receiver itself is the operand)."""
    k = op[0]

    def arglist(l):
        return list(before) if l == "self" else list(l)

    if k in ("Add", "Discard", "Remove"):
        return C(k, op[1])
    if k == "Pop":
        return C("Pop", opt(ob["ret"]))
    if k == "Clear":
        return C("Clear")
    if k in ("Update", "DiffUpdate", "InterUpdate"):
        return C(k, [arglist(l) for l in op[1]])
    if k in ("Ior", "Iand", "Isub", "Ixor"):
        if op[1] == "self":
            return C(k, C("ASet", list(before)))
        return C(k, C("ASet" if op[1] in ("set", "frozenset", "traitset") else "AList", list(op[2])))
    if k == "SymDiffUpdate":
        return C(k, arglist(op[1]))
    if k == "Copy":
        kind = {"copy": "CopyCopy", "deep": "CopyDeep", "pickle": "CopyPickle"}[op[1]]
        if op[1] == "pickle" and target not in ("plain", "obj/VAll"):
            kind = "CopyPickleDetached"        # a Set-trait value pickled on its own: __setstate__ drops the trait
                                               # (unobservable for Set(Any): nothing is ever rejected)
        return C("Copy", C(kind))
    raise ValueError(op)


def to_term(case, obs):
    h = []
    before = list(case["init"])
    for op, ob in zip(case["ops"], obs):
        term = op_term(op, ob, before, case["target"] + ("/VAll" if case["target"] != "plain" and case["vk"] == "VAll" else ""))
        before = list(ob["after"])
        h.append((term,
                  C("mkObs", outcome(ob["out"]), list(ob["after"]), [(e[0], e[1]) for e in ob["events"]],
                    opt(ob["ret"]), opt(ob["cv"]),
                    opt(None if ob.get("oev") is None else [(e[0], e[1]) for e in ob["oev"]]))))
    return (C(case["vk"]), list(case["init"]), h)


def key_fn(case, obs, step, clause):
    op = case["ops"][step]
    tail = op[0] + ("/" + op[1] if op[0] == "Copy" else "")
    return "%s/%s/%s" % (CLAUSE.get(clause, clause), tail, case["target"])


def describe(case, obs, step, clause):
    return "TraitSet (%s, validator %s): clause %s fails at step %d op %r: observed %r" % (
        case["target"], case["vk"], CLAUSE.get(clause, clause), step, case["ops"][step], obs[step])


def nontrivial(case, obs):
    sig = repr((case["vk"], case["target"], case["init"], case["ops"]))
    nt = any(o["events"] or o["out"] != "Ok" for o in obs)
    return sig, nt


def gen_case(rnd, ctx, maxlen):
    vk = rnd.choice(["VAll", "VInt", "VCInt", "VCInt"])
    target = rnd.choice(["plain", "plain", "obj"])
    valid = {"VAll": list(range(6)) + [101, 103, 200, 201], "VInt": list(range(6)), "VCInt": list(range(6))}[vk]
    init = rnd.sample(valid, rnd.randint(0, min(5, len(valid))))
    universe = list(range(7)) + [100, 101, 102, 103, 104, 105] + [200, 201]
    cur = set(init)   # only a generation hint (overlap patterns), never an oracle

    def items(n=None):
        mode = rnd.random()
        n = rnd.randint(0, 4) if n is None else n
        pool = list(cur) if (mode < 0.35 and cur) else universe[:7] if mode < 0.7 else universe if mode < 0.9 \
            else [x + 100 for x in cur if x < 100] or universe
        return [rnd.choice(pool) for _ in range(n)]

    ops = []
    for _ in range(rnd.randint(1, maxlen)):
        k = rnd.choice(["Add", "Add", "Discard", "Remove", "Pop", "Clear", "Update", "Update", "Ior", "Iand", "Isub",
                        "Ixor", "Ixor", "DiffUpdate", "InterUpdate", "SymDiffUpdate", "SymDiffUpdate", "Copy"])
        if k in ("Add", "Discard", "Remove"):
            op = [k, items(1)[0]]
            if k == "Add" and vk != "VAll" and rnd.random() < 0.15:
                op = [k, 300 + rnd.randint(0, 5)]        # a float equal to a (possibly present) int member
        elif k in ("Pop", "Clear"):
            op = [k]
        elif k in ("Update", "DiffUpdate", "InterUpdate"):
            op = [k, [("self" if rnd.random() < 0.08 else items())
                      for _ in range(rnd.randint(0 if k != "InterUpdate" else 1, 3))]]
            op.append([rnd.choice(["list", "list", "tuple", "iter", "gen"]) for _ in op[1]])
            if k == "Update" and vk != "VAll" and rnd.random() < 0.15:
                op[1].append([300 + rnd.randint(0, 5)])
        elif k in ("Ior", "Iand", "Isub", "Ixor"):
            op = [k, rnd.choice(["set", "set", "set", "frozenset", "list", "traitset", "traitset", "self"]), items()]
        elif k == "SymDiffUpdate":
            op = [k, "self" if rnd.random() < 0.1 else items(), rnd.choice(["list", "tuple", "iter", "gen"])]
        else:
            # a TraitSetObject taken alone: copy.copy and deepcopy keep validating; a pickle round trip does not
            # (its __setstate__ drops the trait: listed known finding), so it ends the history
            kind = rnd.choice(["copy", "deep", "pickle"]) if target == "plain" else rnd.choice(["copy", "deep", "deep", "pickle"])
            op = ["Copy", kind] + ([rnd.randint(0, 5)] if kind == "pickle" else [])
        ops.append(op)
        ctx.count("op:" + op[0])
        if op[0] == "Copy" and op[1] in ("pickle", "copy") and target != "plain":
            break      # such a copy has trait = None: a further copy of it is outside the statement
        # hint update (ignores validation; good enough to steer overlaps)
        if k == "Add":
            a = op[1]          # float atoms (300+i) never enter the hint pool: raw-containment ops must not see them
            cur.add(a - 300 if a >= 300 else a % 100 if a < 200 else a)
        elif k == "Clear":
            cur.clear()
    if not ops:
        ops = [["Add", 1]]
    ctx.count("validator:" + vk)
    ctx.count("target:" + target)
    ctx.count("history-length:%02d" % len(ops))
    return dict(vk=vk, target=target, init=init, ops=ops)


def corpus():
    """Minimised past failures and the triggers of listed findings: run first, on every run."""
    cs = []
    for kind in (["copy"], ["deep"], ["pickle", 0], ["pickle", 2], ["pickle", 5]):
        for vk in ("VAll", "VInt", "VCInt"):
            cs.append(dict(vk=vk, target="plain", init=[1, 2],
                           ops=[["Copy"] + kind, ["Add", 103], ["Add", 200], ["Add", 4], ["Ixor", "set", [1, 104, 5]]]))
    for vk in ("VAll", "VInt", "VCInt"):
        cs.append(dict(vk=vk, target="obj", init=[1, 2], ops=[["Add", 3], ["Copy", "pickle", 2]]))
        cs.append(dict(vk=vk, target="obj", init=[1, 2], ops=[["Add", 3], ["Copy", "copy"]]))
        cs.append(dict(vk=vk, target="obj", init=[1, 2],
                       ops=[["Copy", "deep"], ["Add", 103], ["Add", 200], ["Add", 4], ["Ixor", "set", [1, 104, 5]]]))
    for vk in ("VAll", "VInt", "VCInt"):
        for target in ("plain", "obj"):
            cs.append(dict(vk=vk, target=target, init=[1, 2],
                           ops=[["Isub", "self", []], ["Add", 3], ["Ixor", "self", []], ["Add", 4], ["Iand", "self", []],
                                ["Ior", "self", []], ["DiffUpdate", ["self"]], ["Add", 5], ["InterUpdate", ["self", [5, 1]]],
                                ["SymDiffUpdate", "self"], ["Add", 1], ["Update", ["self", [2]]],
                                ["Ior", "traitset", [101, 3]], ["Ior", "traitset", [200]], ["Ixor", "traitset", [104, 1]],
                                ["Isub", "traitset", [1]], ["Iand", "traitset", [2, 3]]]))
    for vk in ("VInt", "VCInt"):
        for target in ("plain", "obj"):
            cs.append(dict(vk=vk, target=target, init=[1, 2, 3],
                           ops=[["Add", 301], ["Add", 304], ["Update", [[302, 5]], ["list"]], ["Ior", "set", [303]],
                                ["DiffUpdate", [[9, 2, 7], [3]], ["iter", "gen"]], ["InterUpdate", [[1, 5, 4]], ["iter"]],
                                ["SymDiffUpdate", [4, 6], "gen"], ["Update", [[7], [8]], ["gen", "iter"]]]))
    cs.append(dict(vk="VCInt", target="plain", init=[1, 2, 3],
                   ops=[["Ixor", "set", [101, 4]], ["SymDiffUpdate", [102, 105, 200]], ["SymDiffUpdate", [103, 3]]]))
    return cs


def run(ctx):
    ok, log = ctx.proofs(PROPS)
    ctx.cov["trusted_base"] += [
        "tools/drivers/c07_driver.py (atom <-> Python value mapping, recording notifier) and tools/props/c07.py (generator)",
        "modelled, not verified: the built-in set type (Common/LSet.v), copy/pickle protocols of CPython; "
        "validators are inputs (VAll/VInt/VCInt tables in C07/Model.v mirror the driver's callables)",
    ]
    ctx.cov["rule"] = ("random operation histories over all 13 TraitSet mutators + copy/deepcopy/pickle, validators "
                       "accept-all / reject / coercing, stand-alone TraitSet and Set-trait TraitSetObject; items chosen to "
                       "overlap the current contents (subset, superset, partial, coercion-collisions, invalid at any "
                       "ordinal); a case is non-trivial if some step notifies or raises; distinct = distinct (validator, "
                       "target, initial contents, operation list)")
    rnd = random.Random(ctx.seed)
    n, maxlen = (1200, 10) if ctx.tier == "quick" else (30000, 30)
    if ctx.replay:
        import json
        cases = [json.load(open(ctx.replay))["replay"]["case"]]
    else:
        cases = corpus() + [gen_case(rnd, ctx, maxlen) for _ in range(n)]
    for c in cases[:2] + cases[-2:]:
        ctx.sample(c)
    hist.run(ctx, "c07_driver.py", cases, to_term, HEADER, CASE_T, key_fn, describe, nontrivial,
             relation="C07.Corr.corr_codes (Model.step = TraitSet on every step)")
    proof_gate(ctx, ok, log, PROPS)
