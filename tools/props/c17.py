"""C17 — adaptation finds an adapter chain iff one exists, and a shortest one."""
import itertools
import json
import random

from vlib import hist
from vlib.ctx import proof_gate
from vlib.term import C, Nat, Some

HEADER = "From Coq Require Import ZArith List.\nFrom TV Require Import Common.Harness C17.Model C17.Law C17.Corr."
CASE_T = "C17.Corr.case"
PROPS = ["C17/Props.v"]
DRIVER = "c17_driver.py"
CLAUSE = {1: "self-not-returned", 2: "self-without-providing", 3: "found-iff-chain-exists", 4: "chain-invalid",
          5: "chain-not-minimal", 6: "single-step-specificity", 7: "storage-rule", 8: "outcome-shape"}
APIS = ["adapt", "adapt_module", "adapt_default", "supports", "inst0", "inst1", "inst2", "Supports", "AdaptsTo", "either0", "either1", "either2"]
API_T = {"adapt": C("ApiAdapt"), "adapt_module": C("ApiAdaptModule"), "adapt_default": C("ApiAdaptDefault"), "supports": C("ApiSupports"),
         "inst0": C("TraitInstance", Nat(0)), "inst1": C("TraitInstance", Nat(1)), "inst2": C("TraitInstance", Nat(2)),
         "Supports": C("TraitSupports"), "AdaptsTo": C("TraitAdaptsTo"),
         "either0": C("TraitEither", Nat(0)), "either1": C("TraitEither", Nat(1)), "either2": C("TraitEither", Nat(2))}


# ---------------------------------------------------------------- terms
def fac_term(f):
    k = f[0]
    if k == "A":
        return C("FAlways")
    if k == "N":
        return C("FNever")
    if k == "F":
        return C("FIfFlag")
    if k == "D":
        return C("FMaxDepth", Nat(f[1]))
    if k == "X":
        return C("FNotAfter", Nat(f[1]))
    if k == "K":
        return C("FNeeds", Nat(f[1]))
    raise ValueError(f)


def value_term(v, offers):
    if v[0] == "self":
        return C("VSelf")
    if v[0] == "default":
        return C("VDefault")
    if v[0] == "adapter":
        chain = []
        for i in v[1]:
            if not (0 <= i < len(offers)):
                return None
            chain.append(C("mk_offer", Nat(i), Nat(offers[i][0]), Nat(offers[i][1])))
        return C("VAdapter", chain)
    return None


def outcome_term(o, offers):
    k = o["k"]
    if k == "value":
        v = value_term(o["v"], offers)
        return C("OValue", v) if v is not None else C("OOutOfFuel")
    if k == "bool":
        return C("OBool", bool(o["b"]))
    if k == "stored":
        v = value_term(o["v"], offers)
        sh = value_term(o["shadow"], offers) if "shadow" in o else None
        if v is None or ("shadow" in o and sh is None):
            return C("OOutOfFuel")
        return C("OStored", v, Some(sh) if "shadow" in o else None)
    if k == "AdaptationError":
        return C("OAdaptationError")
    if k == "TraitError":
        return C("OTraitError")
    return C("OOutOfFuel")      # any other exception / foreign object: no outcome of the right shape (law clause 8)


def is_query(op):
    return op[0] not in ("register", "offer", "reset_global", "set_global")


def state_at(case, ob, step):
    """(issubclass table, MROs, offers) current at history position `step`."""
    sub, mro, offers = ob["sub"], ob["mro"], list(case["offers"])
    for op, o in list(zip(case["ops"], ob["obs"]))[:step]:
        if op[0] == "register" and o.get("k") == "mut":
            sub, mro = o["sub"], o["mro"]
        elif op[0] == "offer":
            offers.append(op[1:4])
    return sub, mro, offers


def to_term(case, ob):
    """(initial state, operations in order with the recorded outcome): the state is threaded inside Coq (Model.hstep)."""
    if not ob.get("ok"):
        return (C("mkH", [], [], [], True), [])
    st = C("mkH", [[bool(x) for x in row] for row in ob["sub"]], [[Nat(t) for t in row] for row in ob["mro"]],
           [(Nat(f), Nat(t), fac_term(fc)) for f, t, fc in case["offers"]], True)
    offers = list(case["offers"])
    h = []
    for op, o in zip(case["ops"], ob["obs"]):
        if op[0] == "register":
            if o.get("k") == "mut":
                h.append((C("HTables", [[bool(x) for x in row] for row in o["sub"]], [[Nat(t) for t in row] for row in o["mro"]]),
                          None))
            else:                        # refused by Python: nothing changed; keep the position
                sub, mro, _ = state_at(case, ob, len(h))
                h.append((C("HTables", [[bool(x) for x in row] for row in sub], [[Nat(t) for t in row] for row in mro]), None))
        elif op[0] == "offer":
            offers = offers + [op[1:4]]
            h.append((C("HOffer", (Nat(op[1]), Nat(op[2]), fac_term(op[3]))), None))
        elif op[0] == "reset_global":
            h.append((C("HResetGlobal"), None))
        elif op[0] == "set_global":
            h.append((C("HSetGlobal"), None))
        else:
            src, tgt, flag, api = op
            flag = bool(flag) and not case["types"][src].get("builtin")      # instances of builtin types carry no flag
            h.append((C("HQuery", (Nat(src), Nat(tgt), flag, API_T[api])), Some(outcome_term(o, offers))))
    return (st, h)


# ---------------------------------------------------------------- keys
def _dist(ob, a, b):
    n = 0
    for t in ob["mro"][a][1:]:
        if ob["sub"][t][b]:
            n += 1
        else:
            break
    return n


def _specificity_shape(case, ob, step):
    """Shape of a clause-6 failure.  The code's comparator is a strict weak order — and CPython's insertion then sorts
    correctly (theorem executable_model_satisfies_law_when_comparable) — unless, among the from-protocols of the
    applicable edges at the chosen MRO distance, two are incomparable or two are subclasses of EACH OTHER (possible
    through ABC registration: T2(T1) real, T1 registered to T3, T3 registered to T2).  Anything else is `direct`."""
    try:
        src, tgt, flag, api = case["ops"][step]
        o = ob["obs"][step]
        vals = [o.get("v"), o.get("shadow")]
        chain = next(v[1] for v in vals if v and v[0] == "adapter")
        sub, mro, offers = state_at(case, ob, step)
        tb = {"sub": sub, "mro": mro}
        d0 = _dist(tb, src, offers[chain[0]][0])
        fs = sorted(set(f for f, t, fc in offers if sub[src][f] and _dist(tb, src, f) == d0))
        pairs = [(f, g) for f in fs for g in fs if f < g]
        if any(not sub[f][g] and not sub[g][f] for f, g in pairs):
            return "incomparable-offer-at-same-distance"
        if any(sub[f][g] and sub[g][f] for f, g in pairs):
            return "mutually-subclassing-offers-at-same-distance"
        return "direct"
    except Exception:
        return "direct"


def key_fn(case, ob, step, clause):
    api = case["ops"][step][3] if is_query(case["ops"][step]) else "adapt"
    kind = "compound-trait" if api.startswith("either") else \
        "trait" if api in ("inst0", "inst1", "inst2", "Supports", "AdaptsTo") else "adapt"
    if clause == 6:
        return "%s/%s" % (CLAUSE[6], _specificity_shape(case, ob, step))
    return "%s/%s" % (CLAUSE.get(clause, clause), kind)


def describe(case, ob, step, clause):
    return ("adaptation: clause %s fails for query (src=T%d, target=T%d, flag=%d, entry=%s) at history position %d: observed "
            "%r; types=%r regs=%r offers(from,to,factory)=%r history=%r" % (
                (CLAUSE.get(clause, clause),) + tuple(case["ops"][step]) + (
                    step, ob["obs"][step] if ob.get("ok") else ob, case["types"], case.get("regs", []), case["offers"],
                    case["ops"][:step + 1])))


_CTX = [None]


def nontrivial(case, ob):
    sig = json.dumps([case["types"], case.get("regs", []), case["offers"], case["ops"]], sort_keys=True)
    ctx = _CTX[0]
    if ctx is not None and ob.get("ok") and case.get("provides"):
        # @provides(P1, P2, ...) must register the class with EVERY listed protocol: the issubclass table the implementation
        # ends up with is compared with plain ABCMeta.register calls (pure CPython)
        want = python_accepts(case["types"], case.get("regs", []) + [[p_, c] for c, ps in case["provides"] for p_ in ps])
        if want is not None and [[bool(x) for x in row] for row in ob["sub"]] != [[bool(x) for x in row] for row in want]:
            missing = [(a, b) for a in range(len(want)) for b in range(len(want)) if bool(want[a][b]) != bool(ob["sub"][a][b])]
            ctx.fail("provides-decorator/protocol-not-registered",
                     "@provides%r leaves the class without some of the listed protocols: issubclass differs from plain "
                     "register() calls at (type, protocol) %r; types=%r regs=%r — the object then does not 'already provide' the "
                     "protocol and offers from it never apply" % (case["provides"], missing, case["types"], case.get("regs", [])),
                     dict(kind="hierarchy-registration", case=case, observed_issubclass=ob["sub"], expected_issubclass=want))
    if ctx is not None:
        if not ob.get("ok"):
            ctx.count("hierarchy:rejected-by-python")
        else:
            for o in ob["obs"]:
                if o["k"] in ("mut", "mutfail"):
                    ctx.count("history:" + o["k"])
                    continue
                v = o.get("shadow") if (o.get("shadow") or [""])[0] == "adapter" else o.get("v")
                if o["k"] in ("value", "stored"):
                    ctx.count("result:" + (v[0] if v[0] != "adapter" else "chain-of-%d" % len(v[1])))
                else:
                    ctx.count("result:" + (o["k"] if o["k"] != "bool" else "supports-%s" % o["b"]))
    nt = bool(ob.get("ok")) and any(
        o["k"] in ("AdaptationError", "TraitError", "mut") or (o.get("v") or [""])[0] in ("adapter", "default")
        or (o.get("shadow") or [""])[0] == "adapter" for o in ob["obs"])
    return sig, nt


# ---------------------------------------------------------------- generators
def python_accepts(types, regs):
    """Pure CPython (no code of the implementation): does this hierarchy exist, and what is its issubclass table?
    Used only to steer the generator towards hierarchies Python accepts and queries that need adaptation."""
    import abc
    ts = []
    try:
        for i, d in enumerate(types):
            if d.get("builtin"):
                ts.append({"dict": dict, "float": float, "list": list}[d["builtin"]])
                continue
            ts.append((abc.ABCMeta if d.get("abc") else type)("G%d" % i, tuple(ts[j] for j in d["bases"]) or (object,), {}))
        for a, b in regs:
            ts[a].register(ts[b])
    except (TypeError, RuntimeError, AttributeError):
        return None
    return [[issubclass(a, b) for b in ts] for a in ts]


def gen_types(rnd, n):
    while True:
        types = []
        for i in range(n):
            k = rnd.choice([0, 0, 1, 1, 1, 2, 2, 3]) if i else 0
            bases = sorted(rnd.sample(range(i), min(k, i)), reverse=True)
            if rnd.random() < 0.15:
                rnd.shuffle(bases)
            types.append({"bases": bases, "abc": rnd.random() < 0.3})
        if rnd.random() < 0.15:
            # one protocol IS a builtin value type (Supports(dict), Instance(float, adapt="yes")): no bases, not an ABC
            types[rnd.randrange(n)] = {"bases": [], "abc": False, "builtin": rnd.choice(["dict", "float", "list"])}
            for t in types:
                t["bases"] = [b for b in t["bases"] if not types[b].get("builtin") or rnd.random() < 0.5]
        regs = []
        for i, t in enumerate(types):
            if t["abc"] and n > 1 and rnd.random() < 0.6:
                j = rnd.choice([x for x in range(n) if x != i])
                regs.append([i, j])
        sub = python_accepts(types, regs)
        if sub is not None or rnd.random() < 0.02:      # a few rejected hierarchies stay in (the driver must cope)
            return types, regs, sub


def gen_fac(rnd, noffers):
    r = rnd.random()
    if r < 0.6:
        return ["A"]
    if r < 0.72:
        return ["N"]
    if r < 0.80:
        return ["F"]
    if r < 0.88:
        return ["D", rnd.randint(0, 2)]
    if r < 0.94:
        return ["K", rnd.randrange(max(1, noffers))]
    return ["X", rnd.randrange(max(1, noffers))]


def gen_case(rnd, ctx, max_types, max_offers, nq):
    n = rnd.choice([1] + list(range(2, max_types + 1)) * 3)
    types, regs, sub = gen_types(rnd, n)
    no = rnd.randint(0, max_offers)
    hub = rnd.randrange(n)
    offers = []
    route = None
    shape = rnd.random()
    if shape < 0.5 and n > 1 and no > 0:
        # a route through the types (so that multi-step chains exist), then noise
        nr = rnd.randint(1, min(no, n - 1) if rnd.random() < 0.7 else no)
        route = rnd.sample(range(n), nr + 1) if nr + 1 <= n else [rnd.randrange(n) for _ in range(nr + 1)]
        for a, b in zip(route, route[1:]):
            offers.append([a, b, ["A"] if rnd.random() < 0.6 else gen_fac(rnd, no)])
        if rnd.random() < 0.3 and len(offers) >= 1 and no - nr >= 2:
            # gate the last step on a detour: ... -> a -(gated)-> b needs the offer a -> c, and c -> a closes the cycle
            a = route[-2]
            c = rnd.randrange(n)
            offers.append([a, c, ["A"]])
            offers.append([c, a, ["A"]])
            offers[nr - 1][2] = ["K", len(offers) - 2]
            nr += 2
            ctx.count("shape:gated-cycle")
            keep_order = True
        else:
            keep_order = False
        if not keep_order:
            rnd.shuffle(offers)
        for _ in range(no - nr):
            noise = [rnd.randrange(n), rnd.randrange(n), gen_fac(rnd, no)]
            offers.insert(len(offers) if keep_order else rnd.randrange(len(offers) + 1), noise)   # ids stay valid
        hub = route[-1]
    elif shape < 0.75 and sub is not None and n > 2 and no > 1:
        # competition: several single-step offers from different supertypes of one source to one target
        # (exercises MRO distances, the edge sort and the specificity tie-break)
        cands = [(a, b) for a in range(n) for b in range(n) if not sub[a][b] and sum(sub[a]) >= 2]
        if cands:
            a, b = rnd.choice(cands)
            sups = [t for t in range(n) if sub[a][t]]
            for _ in range(no):
                r = rnd.random()
                f = rnd.choice(sups) if r < 0.8 else rnd.randrange(n)
                offers.append([f, b if r < 0.9 else rnd.randrange(n), ["A"] if rnd.random() < 0.8 else gen_fac(rnd, no)])
            route = [a, b]
            hub = b
            ctx.count("shape:competition")
        else:
            offers = [[rnd.randrange(n), rnd.randrange(n), gen_fac(rnd, no)] for _ in range(no)]
    else:
        for _ in range(no):
            f = rnd.randrange(n)
            t = hub if rnd.random() < 0.35 else rnd.randrange(n)
            offers.append([f, t, gen_fac(rnd, no)])
    ops = []
    need = [(a, b) for a in range(n) for b in range(n) if sub is not None and not sub[a][b]]
    for _ in range(nq):
        r = rnd.random()
        if r < 0.45 and route:
            i = rnd.randrange(len(route) - 1) if rnd.random() < 0.4 else 0
            src, tgt = route[i], route[rnd.randrange(i + 1, len(route)) if rnd.random() < 0.4 else -1]
        elif r < 0.8 and need:
            src, tgt = rnd.choice(need)
            if rnd.random() < 0.5:
                tgt = hub
        else:
            src, tgt = rnd.randrange(n), rnd.randrange(n)
        api = rnd.choice(["adapt"] * 4 + ["adapt_module"] * 3 + ["adapt_default"] * 5 + ["supports"] * 2 + ["inst0", "inst1", "inst1", "inst2", "inst2",
                         "Supports", "Supports", "AdaptsTo", "AdaptsTo", "either0", "either1", "either2"])
        ops.append([src, tgt, rnd.randint(0, 1), api])
        ctx.count("entry:" + api)
    # histories: after the first round of queries change the hierarchy (ABCMeta.register) or the registry
    # (register_offer) and ask again; the answer must follow the CURRENT state
    if sub is not None and rnd.random() < 0.35:
        first = list(ops)
        for _ in range(rnd.randint(1, 2)):
            abcs = [i for i, t in enumerate(types) if t["abc"]]
            if abcs and rnd.random() < 0.6:
                a = rnd.choice(abcs)
                b = rnd.randrange(n)
                if a != b:
                    ops.append(["register", a, b])
            elif rnd.random() < 0.4:
                ops.append(["reset_global"])        # somebody else resets the global manager ...
                if rnd.random() < 0.5:
                    ops.extend(rnd.sample(first, min(len(first), 3)))
                    ops.append(["set_global"])      # ... and later the user's manager is installed again
            elif len(offers) + sum(1 for o in ops if o[0] == "offer") < max_offers:
                ops.append(["offer", rnd.randrange(n), hub if rnd.random() < 0.5 else rnd.randrange(n), ["A"]])
            ops.extend(rnd.sample(first, min(len(first), 4)))
        ctx.count("shape:history-with-changes")
    if rnd.random() < 0.3:
        for t in types:
            t["name"] = "P"            # all classes share one __name__ (they live in different modules)
        ctx.count("shape:same-class-names")
    provides = []
    abcs = [i for i, t in enumerate(types) if t.get("abc")]
    plain = [i for i, t in enumerate(types) if not t.get("abc") and not t.get("builtin")]
    if len(abcs) >= 2 and plain and sub is not None and rnd.random() < 0.5:
        ps = rnd.sample(abcs, 2)
        cls = rnd.choice(plain)
        if python_accepts(types, regs + [[p_, cls] for p_ in ps]) is not None:
            provides = [[cls, ps]]
            ctx.count("hierarchy:@provides with two protocols")
    lazy = rnd.random() < 0.25         # offers registered in the lazy-loading form ('module.Name' strings)
    ctx.count("offers-given-as:" + ("strings" if lazy else "objects"))
    ctx.count("types:%d" % n)
    ctx.count("offers:%d" % no)
    ctx.count("abc-types:%d" % sum(1 for t in types if t["abc"]))
    ctx.count("registrations:%d" % len(regs))
    ctx.count("multiple-inheritance:%d" % int(any(len(t["bases"]) > 1 for t in types)))
    for o in offers:
        ctx.count("factory:" + o[2][0])
    return dict(types=types, regs=regs, offers=offers, ops=ops, lazy=lazy, provides=provides)


def corpus():
    """Triggers of the listed finding and hand-made shapes (run first on every run)."""
    cs = []
    # F21: T0=X, T1=A, T2=C(A), T3=B, T4=S(X, C, B), T5=target; offers A->T, B->T, C->T in this order
    types = [{"bases": []}, {"bases": []}, {"bases": [1]}, {"bases": []}, {"bases": [0, 2, 3]}, {"bases": []}]
    cs.append(dict(types=types, regs=[], offers=[[1, 5, ["A"]], [3, 5, ["A"]], [2, 5, ["A"]]],
                   ops=[[4, 5, 0, a] for a in ("adapt", "adapt_default", "Supports", "AdaptsTo", "inst1")]))
    # second shape of F21: issubclass cycles through ABC registration (T2(T0, T1) real, T2.register(T3), T3.register(T1):
    # T1 < T3 < T2 < T1): the comparator answers -1 both ways, the offer from T3 is applied although T1 is strictly
    # more specific than T3
    cs.append(dict(types=[{"bases": [], "abc": False}, {"bases": [], "abc": False}, {"bases": [0, 1], "abc": True},
                          {"bases": [], "abc": True}], regs=[[2, 3], [3, 1]],
                   offers=[[1, 0, ["A"]], [2, 3, ["A"]], [3, 2, ["A"]], [3, 1, ["A"]], [0, 3, ["A"]]],
                   ops=[[1, 0, 0, "adapt"], [1, 0, 0, "inst2"]]))
    # the same without the incomparable offer: the specific offer wins
    cs.append(dict(types=types, regs=[], offers=[[1, 5, ["A"]], [2, 5, ["A"]]],
                   ops=[[4, 5, 0, a] for a in ("adapt", "Supports")]))
    # history: the adaptation fails, then ABCMeta.register makes the type provide the from-protocol, then it succeeds;
    # and: no offer, fails, register_offer, succeeds
    cs.append(dict(types=[{"bases": [], "abc": True}, {"bases": []}, {"bases": []}], regs=[], offers=[[0, 2, ["A"]]],
                   ops=[[1, 2, 0, "adapt_default"], [1, 0, 0, "supports"], ["register", 0, 1], [1, 2, 0, "adapt_default"],
                        [1, 2, 0, "Supports"], [1, 0, 0, "supports"], [1, 0, 0, "adapt"]]))
    cs.append(dict(types=[{"bases": []}, {"bases": []}, {"bases": []}], regs=[], offers=[[0, 1, ["A"]]],
                   ops=[[0, 2, 0, "adapt_default"], ["offer", 1, 2, ["A"]], [0, 2, 0, "adapt_default"], [0, 2, 0, "AdaptsTo"],
                        ["offer", 0, 2, ["A"]], [0, 2, 0, "adapt"]]))
    # @provides(IBase, IDerived) with IDerived(IBase), in both orders: the class provides both; an offer from IDerived applies
    for ps in ([0, 1], [1, 0]):
        cs.append(dict(types=[{"bases": [], "abc": True}, {"bases": [0], "abc": True}, {"bases": []}, {"bases": []}], regs=[],
                       provides=[[2, ps]], offers=[[1, 3, ["A"]]],
                       ops=[[2, 1, 0, "adapt"], [2, 0, 0, "adapt"], [2, 3, 0, "adapt"], [2, 3, 0, "Supports"], [2, 1, 0, "Supports"]]))
    # parallel offers between the same pair of protocols (identical weight), the first-registered one conditional and
    # failing, the target one step further: the second parallel offer must still be tried
    for fac in (["N"], ["F"], ["D", 0]):
        cs.append(dict(types=[{"bases": []}] * 4, regs=[], offers=[[0, 1, fac], [0, 1, ["A"]], [1, 2, ["A"]], [2, 3, ["A"]]],
                       ops=[[0, 2, 0, "adapt"], [0, 3, 0, "adapt_default"], [0, 2, 0, "Supports"], [0, 2, 0, "either0"]]))
    # chains of five and six adapters (no artificial limit on the chain length), also with lazily loaded offers
    line = [{"bases": []}] * 7
    for lazy in (False, True):
        cs.append(dict(types=line, regs=[], lazy=lazy, offers=[[i, i + 1, ["A"]] for i in range(6)],
                       ops=[[0, 5, 0, "adapt"], [0, 6, 0, "adapt_default"], [0, 5, 0, "Supports"], [1, 6, 0, "AdaptsTo"],
                            [0, 6, 0, "supports"], [0, 4, 0, "adapt_module"], [0, 5, 0, "adapt"], [0, 5, 0, "Supports"]]))
    # lazily loaded offers used twice, in chains of two, with a builtin protocol and with same-named classes
    cs.append(dict(types=[{"bases": [], "name": "P"}, {"bases": [], "name": "P"}, {"bases": [], "builtin": "dict"}, {"bases": [0]}],
                   regs=[], lazy=True, offers=[[0, 1, ["A"]], [1, 2, ["A"]], [2, 0, ["D", 1]]],
                   ops=[[0, 1, 0, "adapt"], [0, 1, 0, "adapt"], [0, 2, 0, "adapt_default"], [3, 2, 0, "Supports"], [3, 2, 0, "Supports"],
                        [2, 1, 0, "adapt_module"], [2, 1, 0, "AdaptsTo"], ["offer", 3, 2, ["A"]], [3, 2, 0, "adapt"], [3, 2, 0, "adapt"]]))
    # the global manager is reset by somebody else: the user's manager keeps its offers (manager.adapt still answers), the
    # module-level route sees a new empty manager until the user's one is installed again
    cs.append(dict(types=[{"bases": []}, {"bases": []}, {"bases": []}], regs=[], offers=[[0, 1, ["A"]], [1, 2, ["A"]]],
                   ops=[[0, 2, 0, "adapt"], [0, 2, 0, "adapt_module"], ["reset_global"], [0, 2, 0, "adapt"], [0, 2, 0, "adapt_module"],
                        [0, 2, 0, "adapt_default"], [0, 2, 0, "Supports"], [0, 2, 0, "supports"], ["set_global"], [0, 2, 0, "adapt_module"],
                        [0, 2, 0, "Supports"], [0, 1, 0, "supports"], ["offer", 0, 2, ["A"]], [0, 2, 0, "adapt_module"]]))
    # the documented public function without default, when no chain exists / when one exists / when the type provides
    cs.append(dict(types=[{"bases": []}, {"bases": [0]}, {"bases": []}], regs=[], offers=[[0, 2, ["N"]]],
                   ops=[[0, 2, 0, "adapt_module"], [1, 2, 0, "adapt_module"], [1, 0, 0, "adapt_module"], [2, 0, 0, "adapt_module"]]))
    # the protocol is a builtin value type with an adapter registered to it
    for b in ("dict", "float", "list"):
        cs.append(dict(types=[{"bases": []}, {"bases": [], "builtin": b}, {"bases": [0]}, {"bases": []}], regs=[],
                       offers=[[0, 1, ["A"]], [1, 3, ["A"]]],
                       ops=[[s_, 1, 0, a] for s_ in (0, 2) for a in APIS] + [[1, 3, 0, "adapt"], [1, 3, 0, "Supports"],
                                                                              [3, 1, 0, "Supports"], [3, 1, 0, "inst2"], [1, 1, 0, "Supports"]]))
    # two unrelated classes with the same __name__ in different modules, each with its own offer
    cs.append(dict(types=[{"bases": [], "name": "Doc"}, {"bases": [], "name": "Doc"}, {"bases": [], "name": "Out"},
                          {"bases": [], "name": "Out"}], regs=[],
                   offers=[[0, 2, ["A"]], [1, 3, ["A"]]],
                   ops=[[0, 2, 0, "adapt"], [1, 3, 0, "adapt_default"], [1, 2, 0, "adapt_default"], [0, 3, 0, "adapt_default"],
                        [1, 3, 0, "Supports"]]))
    # MRO distance counts only the LEADING providers: T2(T0, T1) is at distance 1 from T0 and 0 from T1
    mi = [{"bases": []}, {"bases": []}, {"bases": [0, 1]}, {"bases": []}]
    for offs in ([[0, 3, ["A"]], [1, 3, ["A"]]], [[1, 3, ["A"]], [0, 3, ["A"]]]):
        cs.append(dict(types=mi, regs=[], offers=offs, ops=[[2, 3, 0, "adapt"], [2, 3, 0, "AdaptsTo"]]))
    # a chain that must pass through the same protocol twice via DISTINCT offers: Source(0)->Draft(1), Draft->Review(2),
    # Review->Draft, Draft->Published(3) whose factory succeeds only after the review offer (two encodings)
    for pub in (["K", 1], ["X", 0]):
        cs.append(dict(types=[{"bases": []}] * 4, regs=[],
                       offers=[[0, 1, ["A"]], [1, 2, ["A"]], [2, 1, ["A"]], [1, 3, pub]],
                       ops=[[0, 3, 0, a] for a in ("adapt", "adapt_default", "supports", "Supports", "either0")]))
    # self-loop needed: T0->T0 then T0->T1 only after the loop
    cs.append(dict(types=[{"bases": []}] * 2, regs=[], offers=[[0, 1, ["K", 1]], [0, 0, ["A"]]],
                   ops=[[0, 1, 0, "adapt"], [0, 1, 0, "AdaptsTo"]]))
    # cycle + failing conditional factory + longer detour
    cs.append(dict(types=[{"bases": []}] * 4, regs=[],
                   offers=[[0, 1, ["A"]], [1, 0, ["A"]], [1, 3, ["N"]], [1, 2, ["A"]], [2, 3, ["D", 1]], [2, 3, ["X", 3]],
                           [0, 2, ["F"]]],
                   ops=[[0, 3, f, a] for f in (0, 1) for a in APIS]))
    # ABC registration under a plain base (issubclass not transitive)
    cs.append(dict(types=[{"bases": []}, {"bases": [0], "abc": True}, {"bases": []}, {"bases": []}], regs=[[1, 2]],
                   offers=[[0, 3, ["A"]], [1, 3, ["A"]], [2, 3, ["N"]]],
                   ops=[[2, 3, 0, a] for a in APIS] + [[1, 3, 0, "adapt"], [2, 0, 0, "adapt"], [2, 1, 0, "adapt"]]))
    return cs


def exhaustive(ctx, max_types, max_offers, facs, with_regs=True):
    """Every hierarchy with <= max_types types (every base tuple among earlier types up to order, ABC flag on at most
    one type with one registration), every offer sequence of length <= max_offers over (from, to, factory in facs),
    every (source, target) pair."""
    cases = []
    for n in range(1, max_types + 1):
        base_choices = []
        for i in range(n):
            opts = [()]
            for k in range(1, i + 1):
                opts += list(itertools.permutations(range(i), k))
            base_choices.append(opts)
        hiers = []
        for bases in itertools.product(*base_choices):
            hiers.append(([{"bases": list(b), "abc": False} for b in bases], []))
            for a in range(n if with_regs else 0):
                for b in range(n):
                    if a != b:
                        ts = [{"bases": list(bs), "abc": i == a} for i, bs in enumerate(bases)]
                        hiers.append((ts, [[a, b]]))
        edges = [[f, t, fc] for f in range(n) for t in range(n) for fc in facs]
        for types, regs in hiers:
            for no in range(0, max_offers + 1):
                for offs in itertools.product(edges, repeat=no):
                    ops = [[s, t, 0, "adapt_default"] for s in range(n) for t in range(n) if s != t]
                    if ops:
                        cases.append(dict(types=types, regs=regs, offers=[list(o) for o in offs], ops=ops))
    return cases


def run(ctx):
    ok, log = ctx.proofs(PROPS)
    ctx.cov["trusted_base"] += [
        "tools/drivers/c17_driver.py (builds the classes, instrumented factories, classification of results) and "
        "tools/props/c17.py (generators, term writer)",
        "modelled, not verified: issubclass and inspect.getmro (their results on the generated hierarchy are read from the "
        "interpreter and handed to the model as tables), heapq (pop_min on distinct keys), list.sort for < 64 elements "
        "(count_run + binarysort of CPython 3.12, C17/Model.v py_sort), dict insertion order of the offer registry",
    ]
    ctx.cov["rule"] = ("one case = type hierarchy (single/multiple inheritance, ABCs with registrations) x offer sequence with "
                       "factory kinds (always, never, flag of the original adaptee, depth limit, not-after-offer) x queries "
                       "(source type, target, flag, entry point: adapt / adapt with default / supports_protocol / Instance "
                       "adapt=no,yes,default / Supports / AdaptsTo); evaluation = one query; a case is non-trivial if some "
                       "query yields an adapter, a default or an error; distinct = distinct (hierarchy, offers, queries)")
    rnd = random.Random(ctx.seed)
    _CTX[0] = ctx
    if ctx.replay:
        cases = [json.load(open(ctx.replay))["replay"]["case"]]
    elif ctx.tier == "quick":
        grid = exhaustive(ctx, 2, 2, [["A"], ["N"]])       # every 2-type hierarchy x every offer sequence of length <= 2
        ctx.count("grid:<=2 types x <=2 offers x {always,never} (exhaustive)", len(grid))
        ctx.cov["exhaustive"] = True
        cases = corpus() + grid + [gen_case(rnd, ctx, 5, 5, 8) for _ in range(700)]
    else:
        grid = exhaustive(ctx, 3, 2, [["A"], ["N"]])
        seen = set(json.dumps(c, sort_keys=True) for c in grid)
        more = [c for c in exhaustive(ctx, 2, 3, [["A"], ["N"]]) if json.dumps(c, sort_keys=True) not in seen]
        # larger grids (3 types x 3 offers, 4 types x 2 offers, factories always succeeding): seeded sample
        big = [c for c in exhaustive(ctx, 3, 3, [["A"]]) if len(c["offers"]) == 3]
        big += [c for c in exhaustive(ctx, 4, 2, [["A"]], with_regs=False) if len(c["types"]) == 4]
        sample = rnd.sample(big, min(len(big), 6000))
        ctx.count("grid:<=3 types x <=2 offers x {always,never} (exhaustive)", len(grid))
        ctx.count("grid:2 types x 3 offers x {always,never} (exhaustive)", len(more))
        ctx.count("grid:3 types x 3 offers / 4 types x <=2 offers, always (sample of %d)" % len(big), len(sample))
        cases = corpus() + grid + more + sample + [gen_case(rnd, ctx, 6, 6, 10) for _ in range(9000)]
        ctx.cov["exhaustive"] = True
    for c in cases[:2] + cases[-2:]:
        ctx.sample(c)
    n = hist.run(ctx, DRIVER, cases, to_term, HEADER, CASE_T, key_fn, describe, nontrivial,
                 relation="C17.Corr.corr_codes (Model.run_api = implementation on every query)")
    ctx.cov["evaluations"] = sum(1 for c in cases for op in c["ops"] if is_query(op)) if n else 0
    proof_gate(ctx, ok, log, PROPS)
