"""C08 — observe() handlers track exactly the objects currently reachable along the expression."""
import json
import random

from vlib import coqrun, hist
from vlib.ctx import proof_gate
from vlib.term import C, Nat, Some

HEADER = ("From Coq Require Import ZArith List.\n"
          "From TV Require Import Common.Harness Common.ObsCore C08.Model C08.Law C08.Corr.")
CASE_T = "C08.Corr.case"
PROPS = ["C08/Props.v"]
CLAUSE = {1: "missing-call", 2: "call-for-unreachable", 3: "called-twice", 4: "event-identity",
          5: "quiet-link-called", 6: "mutation-raised", 7: "call-without-change"}
FIELD = {0: "value", 1: "f", 2: "g", 3: "kids", 4: "m", 5: "s", 6: "list_items", 7: "dict_items", 8: "set_items",
         10: "trait_added", 11: "trait_modified", 12: "x1", 13: "x2", 14: "groups", 17: "groups_items",
         15: "kidsI", 18: "kidsI_items", 16: "cdef"}
# FilteredTraitObserver nodes (DESIGN 6 C08: "filters are modelled as a set of matching names supplied by the
# harness"): the model node carries the list of trait names the filter matches on class N; the dynamic traits
# 12, 13 exist on an object only after add_trait (the model gates every name by trait existence)
FILTERS = {"anytrait": [0, 1, 2, 3, 4, 5, 10, 11, 12, 13, 14, 15, 16],   # expression.anytrait(): leaf only (mixed value types)
           "tag": [1, 2, 13],                        # expression.metadata("tag"): f, g (and the dynamic x2) carry tag=True
           "tagc": [3],                              # expression.metadata("tagc"): the List trait kids carries tagc=True
           "match_fg": [1, 2],                       # expression.match(lambda name, trait: name in ("f", "g"))
           "match_vk": [0, 3]}                       # expression.match(...) on value and kids: leaf only
LEAF_FILTERS = ("anytrait", "match_vk")
DRIVER = "c08_driver.py"


# ----------------------------------------------------------------------------------------
# terms
def nats(l):
    return [Nat(x) for x in l]


def canon(g):
    """ObserverGraph equality ignores the order of children (_observer_graph.py l.76-85): the model
    receives every graph with its children in one canonical order, so that the model's structural
    graph equality coincides with the implementation's (the implementation gets the drawn order)."""
    f, notify, optional, children = g
    cs = sorted((canon(c) for c in children), key=lambda c: json.dumps(c))
    return [f, bool(notify), bool(optional), cs]


def expand(g, dyn=False):
    """the model's graph for one implementation graph: [fields, notify, extra, children]; a named trait has
    one field, a filter node the names it matches; extra = the node contributes the trait_added graph (not the
    item observers); optional = the observer's optional flag; children in one canonical order (ObserverGraph
    equality ignores child order)"""
    head, notify, _o, children = g
    if head == "|":                       # "a | b" at the top of an expression: several graphs, one observe() call
        return [x for c in children for x in expand(c)]
    cs = sorted((x for c in children for x in expand(c)), key=lambda c: json.dumps(c))
    names = FILTERS[head] if isinstance(head, str) else [head]
    extra = isinstance(head, str) or head not in (6, 7, 8, 17, 18)
    optional = True if isinstance(head, str) else bool(_o)       # a filter never complains about a missing trait
    return [[list(names), bool(notify), extra, optional, cs]]


def canon_nopt(g):
    """canonical form without the optional flags (the model's graphs do not carry them: on the typed heaps
    used here every named trait / container exists, so the flag has no effect on behaviour)"""
    f, notify, _o, children = g
    return [f, bool(notify), sorted((canon_nopt(c) for c in children), key=lambda c: json.dumps(c))]


def mterm(m):
    fs, notify, extra, optional, children = m
    return C("G", nats(fs), bool(notify), bool(extra), bool(optional), [mterm(c) for c in children])


def gterm(g):
    ms = expand(g)
    assert len(ms) == 1
    return mterm(ms[0])


def op_term(op, dyn=False):
    k = op[0]
    if k in ("Observe", "Unobserve"):
        ms = expand(op[3], dyn)
        if len(ms) == 1:
            return C(k, Nat(op[1]), Nat(op[2]), mterm(ms[0]))
        return C(k + "All", Nat(op[1]), Nat(op[2]), [mterm(m) for m in ms])
    if k == "SetRef":
        return C("SetRef", Nat(op[1]), Nat(op[2]), [] if op[3] is None else [Nat(op[3])])
    if k == "SetCont" and op[-1] == "del":
        return C("DelCont", Nat(op[1]), Nat(op[2]))
    if k == "SetCont":
        items = [a[1] for a in op[3]] if op[2] == 4 else list(op[3])
        return C("SetCont", Nat(op[1]), Nat(op[2]), nats(items), bool(op[4]))
    if k == "Touch":
        return C("Touch", Nat(op[1]), Nat(op[2]))
    if k == "TouchItems":
        items = [a[1] for a in op[3]] if op[2] == 4 else list(op[3])
        return C("TouchItems", Nat(op[1]), Nat(op[2]), nats(items))
    if k == "Cop":
        i, n, vs = op[5]
        return C("Splice", Nat(op[1]), Nat(op[2]), Nat(i), Nat(n), nats(vs))
    if k == "Probe":
        return C("Probe", Nat(op[1]))
    if k == "CopNew":
        return C("SpliceCont", Nat(op[1]), Nat(op[2]), Nat(6), Nat(op[5][0]), Nat(op[5][1]), nats(op[4][1]))
    if k == "AddTrait":
        return C("AddTrait", Nat(op[1]), Nat(op[2]))
    raise ValueError(op)


def atom(x):
    return Nat(999 if x is None else x)


def slot(key):
    a, b = key.split(",")
    return int(a), int(b)


def undelta(obs):
    """The drivers send a dump only when it differs from the one after the previous operation (None = same)."""
    heap, hooks = {}, {}
    for ob in obs:
        if ob.get("heap") is None:
            ob["heap"] = heap
        heap = ob["heap"]
        if "hooks" in ob:
            if ob["hooks"] is None:
                ob["hooks"] = hooks
            hooks = ob["hooks"]
    return obs


def obs_term(ob, prev_heap, expect_valueerror=False):
    # ValueError out of an assignment / registration is the documented response when the rest of a NON-optional
    # expression cannot be hooked (model: Model.walkable; law: Law.unhookable decides where it is allowed)
    o = ob["out"]
    out = C("Ok") if o == "Ok" else C("Raise", C(o))
    calls = [((Nat(c[0]), Nat(c[1])), atom(c[2]), Nat(c[3]), nats(c[4]), nats(c[5])) for c in ob["calls"]]
    delta = []
    for key in sorted(set(ob["heap"]) | set(prev_heap), key=slot):
        v = ob["heap"].get(key, [])
        if v != prev_heap.get(key, []):
            x, f = slot(key)
            delta.append((Nat(x), Nat(f), nats(v)))
    return C("mkObs", out, calls, delta)


def to_term(case, obs):
    h = []
    undelta(obs)
    prev_heap, prev_hooks = {}, None
    for op, ob in zip(case["ops"], obs):
        obt = obs_term(ob, prev_heap, op[-1] == "raises")
        prev_heap = ob["heap"]
        if ob["hooks"] == prev_hooks:
            hs = None
        else:
            ent = []
            for key in sorted(ob["hooks"], key=slot):
                x, f = slot(key)
                nm, users = ob["hooks"][key]
                ent.append((Nat(x), Nat(f), Nat(nm), [(Nat(u[0]), Nat(u[1]), Nat(u[2])) for u in users]))
            hs = Some(ent)
            prev_hooks = ob["hooks"]
        h.append((op_term(op), obt, hs))
    return (Nat(case["npool"]), h)


def opkind(op):
    if op[0] == "SetRef" and op[-1] == "raises":
        return "SetRef.%s.unhookable" % FIELD[op[2]]
    if op[0] in ("SetRef", "SetCont") and op[-1] == "del":
        return "del.%s" % FIELD[op[2]]
    if op[0] == "AddTrait":
        return "AddTrait." + FIELD[op[2]]
    if op[0] in ("Cop", "CopNew"):
        return "%s.%s" % (FIELD[op[2]], op[3])
    if op[0] in ("SetRef", "SetCont", "Touch", "TouchItems"):
        return "%s.%s" % (op[0], FIELD[op[2]])
    return op[0]


def key_fn(case, obs, step, clause):
    base = "%s/%s" % (CLAUSE.get(clause, clause), opkind(case["ops"][step]))
    if case.get("name"):
        return "%s/%s" % (case["name"], base)
    return base


def show_graph(g):
    f, notify, optional, ch = g
    if f == "|":
        return " | ".join(show_graph(c) for c in ch)
    s = (f if isinstance(f, str) else FIELD[f]) + ("" if notify else "(quiet)")
    if ch:
        s += (".%s" % show_graph(ch[0])) if len(ch) == 1 else ".[%s]" % " | ".join(show_graph(c) for c in ch)
    return s


def describe(case, obs, step, clause):
    regs = ["handler %d on object %d: %s" % (o[1], o[2], show_graph(o[3])) for o in case["ops"][:step + 1]
            if o[0] == "Observe"]
    return "observe: clause %s fails at step %d, op %r (%s heap); calls observed %r; registrations: %s" % (
        CLAUSE.get(clause, clause), step, case["ops"][step][:5], case.get("shape", "?"), obs[step]["calls"],
        "; ".join(regs))


def nontrivial(case, obs):
    sig = repr((case["npool"], [o[:5] for o in case["ops"]]))
    nt = any(o["calls"] for o in obs)
    return sig, nt


# ----------------------------------------------------------------------------------------
# shadow heap used by the generator (a generation aid and the source of the positional
# meaning of container operations; never an oracle)
class Shadow:
    def __init__(self, npool):
        self.npool = npool
        self.ref = {(o, f): None for o in range(npool) for f in (1, 2)}
        self.cont = {(o, f): None for o in range(npool) for f in (3, 4, 5, 14, 15)}
        self.items = {}      # cid -> list of oid (list, set) / list of (key, oid) (dict)
        self.kind = {}
        self.owner = {}      # cid -> owner object (None when detached)
        self.next = npool

    def succ(self, x):
        out = [v for (o, f), v in self.ref.items() if o == x and v is not None]
        for (o, f), c in self.cont.items():
            if o == x and c is not None:
                out += self.values(c)
        return out

    def values(self, c):
        if self.kind[c] == 17:          # a dict of lists: the objects in the stored lists
            return [x for a in self.items[c] for x in self.items[a[1]]]
        return [a[1] for a in self.items[c]] if self.kind[c] == 7 else list(self.items[c])

    def reaches(self, a, b):
        seen, st = set(), [a]
        while st:
            x = st.pop()
            if x == b:
                return True
            if x in seen:
                continue
            seen.add(x)
            st += self.succ(x)
        return False

    def new_cont(self, o, f, items):
        c = self.next
        self.next += 1
        old = self.cont[(o, f)]
        if old is not None:
            self.owner[old] = None
        self.cont[(o, f)] = c
        self.items[c] = list(items)
        self.kind[c] = f + 3
        self.owner[c] = o
        return c


def gen_graph(rnd, depth, ctx=None):
    """Well-typed observer graph below a HasTraits object: [field, notify, optional, children]."""
    notify = rnd.random() < 0.72
    optional = rnd.random() < 0.3
    if depth <= 1:
        if rnd.random() < 0.12:
            return [rnd.choice(list(FILTERS)), notify, False, []]
        f = rnd.choice([0, 0, 0, 1, 3, 4, 5, 15])
        if f in (3, 4, 5, 15) and rnd.random() < 0.6:
            return [f, notify, optional, [[f + 3, rnd.random() < 0.8, rnd.random() < 0.3, []]]]
        return [f, notify, optional, []]
    if rnd.random() < 0.08:
        return [rnd.choice(LEAF_FILTERS), notify, False, []]
    f = rnd.choice([1, 1, 2, 3, 3, 4, 5, 0, 15])
    if f == 0:
        return [0, notify, optional, []]
    if f in (1, 2) and rnd.random() < 0.3:
        f = rnd.choice(["tag", "match_fg"])

    def subs():
        n = rnd.choice([1, 1, 1, 2, 2, 3])
        cs = [gen_graph(rnd, depth - 1) for _ in range(n)]
        out = []                                       # ObserverGraph requires distinct children
        for c in cs:
            if all(canon_nopt(c) != canon_nopt(d) for d in out):
                out.append(c)
        return out
    if f in (1, 2, "tag", "match_fg"):
        return [f, notify, optional, subs()]
    if f == 3 and rnd.random() < 0.35:
        # a filtered link to a container, followed by further links ("+tagc:items:value")
        inner = [6, rnd.random() < 0.75, False, subs() if rnd.random() < 0.85 else []]
        return ["tagc", notify, False, [inner]]
    inner = [f + 3, rnd.random() < 0.75, rnd.random() < 0.3, subs() if rnd.random() < 0.85 else []]
    return [f, notify, optional, [inner]]


def parse_named(text):
    """'f.kids:items.value' style shorthand -> graph ('.' notify, ':' quiet; items after kids/m/s)."""
    import re
    toks = re.findall(r"([a-z]+)([.:]?)", text)
    toks = [(n, s) for n, s in toks if n]
    names = {v: k for k, v in FIELD.items()}
    cur_kind = None
    nodes = []
    for n, s in toks:
        if n == "items":
            f = cur_kind + 3
        else:
            f = names[n]
        cur_kind = f if f in (3, 4, 5) else None
        nodes.append((f, s != ":"))
    nodes[-1] = (nodes[-1][0], True)
    g = None
    for f, notify in reversed(nodes):
        g = [f, notify, False, [g] if g else []]
    return g


NAMED = ["value", "f.value", "f:value", "f.f.value", "f.g.value", "kids.items.value", "kids:items:value",
         "kids.items", "f.kids.items.value", "m.items.value", "s.items.value", "kids.items.f.value",
         "f.f.f.value", "kids.items.kids.items.value", "f:kids.items:value", "m:items.f.value", "s.items.kids.items"]


def gen_case(rnd, ctx, maxmut, cyclic=False):
    npool = rnd.choice([3, 4, 4, 5]) if not cyclic else rnd.choice([2, 2, 3])
    sh = Shadow(npool)
    if cyclic:
        sh.reaches = lambda a, b: False          # search mode for F14 triggers: cycles allowed
    ops = []
    regs = []

    def add(op):
        ops.append(op)
        ctx.count("op:" + opkind(op))

    follow = []               # container on which a slice just changed the multiplicity of an object
    want_groups = [False]     # an expression over the dict of lists has been registered

    def mutation():
        """One acyclic mutation (None if the drawn one would close a cycle or is impossible)."""
        if follow:
            c = follow.pop()
            cur = sh.items[c]
            if cur and sh.kind[c] == 6:     # take the occurrences away one at a time
                if rnd.random() < 0.5:
                    x = rnd.choice(cur)
                    i = cur.index(x)
                    sh.items[c] = cur[:i] + cur[i + 1:]
                    return ["Cop", c, 6, "remove", [x], [i, 1, []]]
                i = rnd.randrange(len(cur))
                sh.items[c] = cur[:i] + cur[i + 1:]
                return ["Cop", c, 6, "pop", [i], [i, 1, []]]
        o = rnd.randrange(npool)
        r = rnd.random()
        if rnd.random() < 0.04:
            return ["AddTrait", o, rnd.choice([0, 1, 1, 2])]     # add_trait of an existing (class) trait
        if rnd.random() < (0.3 if want_groups[0] else 0.08):
            # nested containers: o.groups is a dict of lists
            c = sh.cont[(o, 14)]
            if c is None:
                sh.new_cont(o, 14, [])
                return ["SetCont", o, 14, [], True]
            cur = sh.items[c]
            keys = [a[0] for a in cur]
            if cur and rnd.random() < 0.3:
                i = rnd.randrange(len(cur))
                sh.owner[cur[i][1]] = None
                key = keys[i]
                del cur[i]
                return ["Cop", c, 17, "delitem", [key], [i, 1, []]]
            key = rnd.choice(["a", "b", "c"])
            vs = [rnd.randrange(npool) for _ in range(rnd.randint(1, 2))]
            if any(sh.reaches(v, o) for v in vs):
                return None
            cid = sh.next
            sh.next += 1
            sh.items[cid], sh.kind[cid], sh.owner[cid] = list(vs), 6, o
            if key in keys:
                i = keys.index(key)
                sh.owner[cur[i][1]] = None
                cur[i] = [key, cid]
                sp = [i, 1]
            else:
                sp = [len(cur), 0]
                cur.append([key, cid])
            return ["CopNew", c, 17, "setitem", [key, vs], sp]
        if r < 0.27:
            f = rnd.choice([1, 2])
            v = rnd.choice(list(range(npool)) + [None, None])
            if v is not None and sh.reaches(v, o):
                return None
            was = sh.ref[(o, f)]
            sh.ref[(o, f)] = v
            if v is None and was is not None and rnd.random() < 0.4:
                return ["SetRef", o, f, None, "del"]            # del o.f
            return ["SetRef", o, f, v]
        if r < 0.42:
            f = rnd.choice([3, 3, 4, 5, 15])      # 15: a List in identity comparison mode
            if rnd.random() < 0.25 and sh.cont[(o, f)] is not None:
                cur = sh.items[sh.cont[(o, f)]]
                items = list(cur)                       # an equal container is re-assigned
            elif f == 4:
                keys = rnd.sample(["a", "b", "c"], rnd.randint(0, 3))
                items = [[k, rnd.randrange(npool)] for k in keys]
            elif f in (3, 15):
                items = [rnd.randrange(npool) for _ in range(rnd.randint(0, 3))]
                if items and rnd.random() < 0.3:
                    items.append(items[0])              # the same object twice
            else:
                items = rnd.sample(range(npool), rnd.randint(0, min(3, npool)))
            vals = [a[1] for a in items] if f == 4 else items
            if any(sh.reaches(v, o) for v in vals):
                return None
            old = sh.cont[(o, f)]
            if old is None:
                de = (len(items) == 0)
            elif f == 4:
                de = dict((a[0], a[1]) for a in sh.items[old]) == dict((a[0], a[1]) for a in items)
            else:
                de = False
            sh.new_cont(o, f, [list(a) for a in items] if f == 4 else items)
            # (del o.kids is not drawn at random: it is a finding, see the corpus trigger del-container)
            return ["SetCont", o, f, items, de]
        if r < 0.50:
            f = rnd.choice([3, 4, 5])
            if sh.cont[(o, f)] is not None:
                return None
            if rnd.random() < 0.5:
                # the default has content (a _name_default method): it is hooked when it materialises
                vals = [y for y in range(npool) if not sh.reaches(y, o)]
                if vals:
                    vs = [rnd.choice(vals) for _ in range(rnd.randint(1, 2))]
                    if f == 5:
                        vs = sorted(set(vs))
                    items = [[key, v] for key, v in zip(["a", "b"], vs)] if f == 4 else vs
                    sh.new_cont(o, f, [list(a) for a in items] if f == 4 else list(items))
                    return ["TouchItems", o, f, items]
            sh.new_cont(o, f, [])
            return ["Touch", o, f]
        # in-place container operation, on an attached container or (sometimes) a detached one
        cands = [c for c in sh.items if sh.owner[c] is not None and sh.kind[c] != 17]
        det = [c for c in sh.items if sh.owner[c] is None and sh.kind[c] != 17]
        if det and rnd.random() < 0.15:
            c = rnd.choice(det)
        elif cands:
            c = rnd.choice(cands)
        else:
            return None
        kind, cur, own = sh.kind[c], sh.items[c], sh.owner[c]
        v = rnd.randrange(npool)
        if cur and rnd.random() < 0.3:
            v = sh.values(c)[0]                         # an object that is already inside
        ok_v = own is None or not sh.reaches(v, own)
        n = len(cur)
        if kind in (6, 18):
            meth = rnd.choice(["append", "append", "insert", "pop", "setitem", "delitem", "clear", "extend",
                               "remove", "setslice", "setslice", "delslice", "iadd", "reverse", "sort", "imul"])
            if meth in ("append",):
                if not ok_v:
                    return None
                sp = [n, 0, [v]]
                args = [v]
            elif meth == "insert":
                if not ok_v:
                    return None
                i = rnd.randint(0, n)
                sp = [i, 0, [v]]
                args = [i, v]
            elif meth in ("pop", "delitem"):
                if not n:
                    return None
                i = rnd.randrange(n)
                sp = [i, 1, []]
                args = [i if rnd.random() < 0.6 else i - n]
            elif meth == "setitem":
                if not n or not ok_v:
                    return None
                i = rnd.randrange(n)
                if rnd.random() < 0.2:
                    v = cur[i]                          # l[i] = l[i]
                sp = [i, 1, [v]]
                args = [i, v]
            elif meth == "clear":
                sp = [0, n, []]
                args = []
            elif meth in ("extend", "iadd"):
                vs = [rnd.randrange(npool) for _ in range(rnd.randint(0, 2))]
                if own is not None and any(sh.reaches(x, own) for x in vs):
                    return None
                sp = [n, 0, vs]
                args = [vs]
            elif meth == "remove":
                if not n:
                    return None
                x = rnd.choice(cur)
                sp = [cur.index(x), 1, []]
                args = [x]
            elif meth == "setslice":
                i = rnd.randint(0, n)
                j = rnd.randint(i, n)
                if cur[i:j] and rnd.random() < 0.5:
                    # the removed objects come back with another multiplicity / order ([a, a] -> [a], [a] -> [a, a, b])
                    seg = cur[i:j]
                    vs = [rnd.choice(seg) for _ in range(rnd.randint(1, len(seg) + 1))]
                    if rnd.random() < 0.3:
                        vs.append(rnd.randrange(npool))
                else:
                    vs = [rnd.randrange(npool) for _ in range(rnd.randint(0, 2))]
                if own is not None and any(sh.reaches(x, own) for x in vs):
                    return None
                sp = [i, j - i, vs]
                args = [i, j, vs]
                if set(vs) & set(cur[i:j]):
                    follow.extend([c, c])
            elif meth == "imul":
                if not n or n > 3:
                    return None
                sp = [n, 0, list(cur)]          # xs *= 2: every object once more
                args = [2]
            elif meth == "reverse":
                if n < 2:
                    return None
                sp = [0, n, cur[::-1]]
                args = []
            elif meth == "sort":
                if n < 2 or sorted(cur) == cur:
                    return None
                sp = [0, n, sorted(cur)]
                args = []
            else:
                i = rnd.randint(0, n)
                j = rnd.randint(i, n)
                sp = [i, j - i, []]
                args = [i, j]
            i, k, vs = sp
            sh.items[c] = cur[:i] + list(vs) + cur[i + k:]
        elif kind == 7:
            meth = rnd.choice(["setitem", "setitem", "delitem", "pop", "clear", "setdefault", "update", "update2"])
            keys = [a[0] for a in cur]
            if meth == "update2":
                # one update() that replaces the value of the last key and adds a new key
                free = [k for k in ("a", "b", "c", "d") if k not in keys]
                v2 = rnd.randrange(npool)
                if not n or not free or not ok_v or (own is not None and sh.reaches(v2, own)):
                    return None
                sp = [n - 1, 1, [v, v2]]
                args = [keys[-1], v, free[0], v2]
                cur[-1] = [keys[-1], v]
                cur.append([free[0], v2])
                return ["Cop", c, kind, meth, args, sp]
            if meth in ("setitem", "update", "setdefault"):
                if not ok_v:
                    return None
                key = rnd.choice(["a", "b", "c"])
                if key in keys:
                    i = keys.index(key)
                    if meth == "setdefault":
                        sp = [0, 0, []]                 # present: nothing happens
                    else:
                        sp = [i, 1, [v]]
                        cur[i] = [key, v]
                else:
                    sp = [n, 0, [v]]
                    cur.append([key, v])
                args = [key, v]
            elif meth in ("delitem", "pop"):
                if not n:
                    return None
                i = rnd.randrange(n)
                sp = [i, 1, []]
                args = [keys[i]]
                del cur[i]
            else:
                sp = [0, n, []]
                args = []
                del cur[:]
        else:
            meth = rnd.choice(["add", "add", "discard", "remove", "clear", "symdiff", "symdiff", "intersect2"])
            if meth == "intersect2":
                # s.intersection_update(a, b): the members missing from ANY of the iterables go, in one event
                if not n:
                    return None
                i = rnd.randrange(n)
                k = rnd.randint(1, min(3, n - i))
                gone = cur[i:i + k]
                cut = rnd.randint(1, k)                     # gone[:cut] is missing from a only, the rest from b only
                extra = [x for x in range(npool) if x not in cur and rnd.random() < 0.3]
                a_it = [x for x in cur if x not in gone[:cut]] + extra
                b_it = [x for x in cur if x not in gone[cut:]]
                sh.items[c] = cur[:i] + cur[i + k:]
                return ["Cop", c, kind, meth, [a_it, b_it], [i, k, []]]
            if meth == "symdiff":
                # s ^= other / symmetric_difference_update: ONE event that both removes and adds members
                i = rnd.randrange(n) if n else 0
                k = rnd.randint(1, n - i) if n else 0
                gone = cur[i:i + k]
                vs = sorted(set(x for x in (rnd.randrange(npool) for _ in range(rnd.randint(1, 2))) if x not in cur))
                if not gone or not vs or (own is not None and any(sh.reaches(x, own) for x in vs)):
                    return None
                sp = [i, k, vs]
                args = [gone + vs, rnd.random() < 0.5]
                sh.items[c] = cur[:i] + vs + cur[i + k:]
                return ["Cop", c, kind, meth, args, sp]
            if meth == "add":
                if not ok_v:
                    return None
                if v in cur:
                    sp = [0, 0, []]
                else:
                    sp = [n, 0, [v]]
                    cur.append(v)
                args = [v]
            elif meth == "discard":
                if v in cur:
                    sp = [cur.index(v), 1, []]
                    cur.remove(v)
                else:
                    sp = [0, 0, []]
                args = [v]
            elif meth == "remove":
                if not n:
                    return None
                x = rnd.choice(cur)
                sp = [cur.index(x), 1, []]
                cur.remove(x)
                args = [x]
            else:
                sp = [0, n, []]
                args = []
                del cur[:]
        return ["Cop", c, kind, meth, args, sp]

    def build_path(g, x, budget):
        """mutations that make the heap follow graph g from object x (so that handlers get called)"""
        if budget[0] <= 0:
            return
        head, _n, _o, children = g
        if head == "|":
            for c in children:
                build_path(c, x, budget)
            return
        names = FILTERS[head] if isinstance(head, str) else [head]
        for f in names:
            if f in (1, 2):
                v = sh.ref[(x, f)]
                if v is None:
                    cand = [y for y in range(npool) if not sh.reaches(y, x)]
                    if not cand:
                        continue
                    v = rnd.choice(cand)
                    sh.ref[(x, f)] = v
                    add(["SetRef", x, f, v])
                    budget[0] -= 1
                for c in children:
                    build_path(c, v, budget)
            elif f in (3, 4, 5, 15):
                c_id = sh.cont[(x, f)]
                if c_id is None or not sh.items[c_id]:
                    cand = [y for y in range(npool) if not sh.reaches(y, x)]
                    if not cand:
                        continue
                    vs = [rnd.choice(cand) for _ in range(rnd.randint(1, 2))]
                    if f == 5:
                        vs = sorted(set(vs))
                    items = [[key, v] for key, v in zip(["a", "b"], vs)] if f == 4 else vs
                    de = False
                    sh.new_cont(x, f, [list(a) for a in items] if f == 4 else list(items))
                    add(["SetCont", x, f, items, de])
                    budget[0] -= 1
                    c_id = sh.cont[(x, f)]
                for inner in children:
                    if isinstance(inner[0], int) and inner[0] == f + 3:
                        for y in sh.values(c_id)[:2]:
                            for c in inner[3]:
                                build_path(c, y, budget)

    def observe():
        k = rnd.choice([0, 0, 1])
        r = rnd.choice([0, 0, 0, 1, 2])
        if r >= npool:
            r = 0
        if regs and rnd.random() < 0.12:
            k, r, g = rnd.choice(regs)                 # the same registration once more
            ctx.count("expr:registered-again")
        elif rnd.random() < 0.07:
            n1, n2, n3 = (rnd.random() < 0.6 for _ in range(3))
            g = [14, n1, False, [[17, n2, False, [[6, n3, False, [[0, True, False, []]]]]]]]   # groups.items.items.value
            want_groups[0] = True
            ctx.count("expr:nested-containers")
        elif rnd.random() < 0.4:
            text = rnd.choice(NAMED)
            g = parse_named(text)
            ctx.count("expr:" + text)
        else:
            g = gen_graph(rnd, rnd.choice([1, 2, 2, 3, 3, 4]))
            if rnd.random() < 0.12:
                g2 = gen_graph(rnd, rnd.choice([1, 2, 3]))
                if expand(g2) != expand(g):
                    g = ["|", True, False, [g, g2]]
                    ctx.count("expr:parallel-at-top")
            ctx.count("expr:random-depth")
            txt = json.dumps(g)
            for name in FILTERS:
                if '"%s"' % name in txt:
                    ctx.count("expr:filter-" + name)
            if isinstance(g[0], str) and g[0] != "|":
                ctx.count("expr:filter-at-root")
        if rnd.random() < 0.7:
            build_path(g, r, [rnd.randint(1, 5)])
        regs.append((k, r, g))
        add(["Observe", k, r, g])
        if rnd.random() < 0.3:
            build_path(g, r, [rnd.randint(1, 3)])

    def probes():
        for o in range(npool):
            ops.append(["Probe", o])
        ctx.count("op:Probe", npool)

    for _ in range(rnd.randint(0, 6)):
        m = mutation()
        if m:
            add(m)
    observe()
    probes()
    for _ in range(rnd.randint(1, maxmut)):
        r = rnd.random()
        if r < 0.08:
            observe()
            probes()
            continue
        if r < 0.12 and regs:
            k, rr, g = regs.pop(rnd.randrange(len(regs)))
            add(["Unobserve", k, rr, g])
            probes()
            continue
        m = None
        for _ in range(6):
            m = mutation()
            if m:
                break
        if m:
            add(m)
            probes()
    ctx.count("pool:%d" % npool)
    ctx.count("history-length:%03d" % (10 * (len(ops) // 10)))
    falsy = rnd.random() < 0.15          # pool objects with __len__: falsy while their kids list is empty
    if falsy:
        ctx.count("pool:falsy-objects")
    return dict(npool=npool, shape="cyclic" if cyclic else "acyclic", ops=ops, falsy=falsy)


def probes_for(n):
    return [["Probe", o] for o in range(n)]


def corpus():
    """Fixed cases run first on every run: the readings of DESIGN 6a and the triggers of finding F14."""
    cs = []
    V = [0, True, False, []]
    kiv = parse_named("kids.items.value")
    # the same object twice in a list, removed once: still hooked (reference count 2 -> 1)
    cs.append(dict(npool=3, shape="acyclic", ops=[
        ["SetCont", 0, 3, [1, 2, 1], False], ["Observe", 0, 0, kiv]] + probes_for(3) + [
        ["Cop", 3, 6, "remove", [1], [0, 1, []]]] + probes_for(3) + [
        ["Cop", 3, 6, "remove", [1], [1, 1, []]]] + probes_for(3)))
    # equal list re-assigned: no call, but the new list is hooked and the old one is not
    cs.append(dict(npool=3, shape="acyclic", ops=[
        ["SetCont", 0, 3, [1, 2], False], ["Observe", 0, 0, kiv], ["SetCont", 0, 3, [1, 2], False]] + probes_for(3) + [
        ["Cop", 3, 6, "append", [1], [2, 0, [1]]], ["Cop", 4, 6, "append", [2], [2, 0, [2]]]] + probes_for(3)))
    # default materialised after registration
    cs.append(dict(npool=3, shape="acyclic", ops=[
        ["Observe", 0, 0, kiv], ["Touch", 0, 3], ["Cop", 3, 6, "append", [1], [0, 0, [1]]]] + probes_for(3)))
    cs.append(dict(npool=3, shape="acyclic", ops=[
        ["Observe", 0, 0, kiv], ["SetCont", 0, 3, [1], False]] + probes_for(3) + [
        ["SetCont", 0, 3, [], False]] + probes_for(3)))
    # one slice assignment that removes and adds the same object with another multiplicity, then one
    # occurrence removed: [a, a] -> xs[:] = [a] -> remove(a) (a detached); [a] -> xs[0:1] = [a, a] -> pop (a stays)
    cs.append(dict(npool=3, shape="acyclic", ops=[
        ["SetCont", 0, 3, [1, 1], False], ["Observe", 0, 0, kiv],
        ["Cop", 3, 6, "setslice", [0, 2, [1]], [0, 2, [1]]]] + probes_for(3) + [
        ["Cop", 3, 6, "remove", [1], [0, 1, []]]] + probes_for(3)))
    cs.append(dict(npool=3, shape="acyclic", ops=[
        ["SetCont", 0, 3, [1], False], ["Observe", 0, 0, kiv],
        ["Cop", 3, 6, "setslice", [0, 1, [1, 1, 2]], [0, 1, [1, 1, 2]]]] + probes_for(3) + [
        ["Cop", 3, 6, "pop", [0], [0, 1, []]]] + probes_for(3) + [
        ["Cop", 3, 6, "reverse", [], [0, 2, [2, 1]]], ["Cop", 3, 6, "pop", [0], [0, 1, []]]] + probes_for(3)))
    # an equal (not identical) list re-assigned under a FILTERED link followed by further links: the new
    # list must be followed, the old one dropped
    tkv = ["tagc", False, False, [[6, False, False, [[0, True, False, []]]]]]
    cs.append(dict(npool=4, shape="acyclic", ops=[
        ["SetCont", 0, 3, [1], False], ["Observe", 0, 0, tkv], ["SetCont", 0, 3, [1], False]] + probes_for(4) + [
        ["Cop", 5, 6, "append", [2], [1, 0, [2]]], ["Cop", 4, 6, "append", [3], [1, 0, [3]]]] + probes_for(4) + [
        ["SetCont", 0, 3, [3], False]] + probes_for(4)))
    # add_trait of a name that already exists (class trait f, observed): the observers stay on the trait
    fv = parse_named("f.value")
    cs.append(dict(npool=3, shape="acyclic", ops=[
        ["SetRef", 0, 1, 1], ["Observe", 0, 0, fv], ["AddTrait", 0, 1]] + probes_for(3) + [
        ["SetRef", 0, 1, 2]] + probes_for(3) + [["AddTrait", 0, 1], ["AddTrait", 0, 0], ["SetRef", 0, 1, 1]] + probes_for(3)))
    # nested containers: a list stored in a dict under a NEW key must be followed, and the dict event must
    # carry the list object that is stored
    ggv = [14, False, False, [[17, True, False, [[6, False, False, [[0, True, False, []]]]]]]]
    cs.append(dict(npool=4, shape="acyclic", ops=[
        ["SetCont", 0, 14, [], True], ["CopNew", 4, 17, "setitem", ["a", [1]], [0, 0]], ["Observe", 0, 0, ggv],
        ["CopNew", 4, 17, "setitem", ["b", [2]], [1, 0]]] + probes_for(4) + [
        ["Cop", 6, 6, "append", [3], [1, 0, [3]]]] + probes_for(4) + [
        ["CopNew", 4, 17, "setitem", ["a", [3]], [0, 1]]] + probes_for(4) + [
        ["Cop", 4, 17, "delitem", ["b"], [1, 1, []]]] + probes_for(4)))
    # a filtered link that is not the last one, a populated matching trait, then add_trait of another matching
    # (tagged) trait: the existing value must not be hooked a second time
    tv = ["tag", False, False, [[0, True, False, []]]]
    cs.append(dict(npool=3, shape="acyclic", ops=[
        ["SetRef", 0, 1, 1], ["Observe", 0, 0, tv], ["AddTrait", 0, 13], ["SetRef", 0, 13, 2]] + probes_for(3) + [
        ["SetRef", 0, 1, None]] + probes_for(3) + [["SetRef", 0, 13, None]] + probes_for(3)))
    # an instance trait (add_trait) matching the filter is added AND populated before observe(): its value is walked
    # at registration, re-hooked on reassignment, and cleaned up on un-observe
    cs.append(dict(npool=4, shape="acyclic", ops=[
        ["AddTrait", 0, 13], ["SetRef", 0, 13, 1], ["Observe", 0, 0, tv]] + probes_for(4) + [
        ["SetRef", 0, 13, 2]] + probes_for(4) + [["Unobserve", 0, 0, tv]] + probes_for(4)))
    # ONE set event that both removes and adds members (s ^= other / symmetric_difference_update): the removed member
    # is un-hooked and the added one hooked by the same maintainer call
    siv = parse_named("s.items.value")
    # intersection_update with two iterables: 2 is missing from the first only, 3 from the second only
    cs.append(dict(npool=5, shape="acyclic", ops=[
        ["SetCont", 0, 5, [1, 2, 3], False], ["Observe", 0, 0, siv],
        ["Cop", 5, 8, "intersect2", [[1, 3, 4], [1, 2]], [1, 2, []]]] + probes_for(5) + [
        ["Cop", 5, 8, "intersect2", [[1], [4]], [0, 1, []]]] + probes_for(5)))
    # a link whose default is a CONSTANT observable object, first read after observe(): the default (number 3) is hooked
    cv = [16, True, False, [[0, True, False, []]]]
    for style in (0, 1):
        cs.append(dict(npool=3, shape="acyclic", cdef=[0, style], ops=[
            ["Observe", 0, 0, cv], ["Touch", 0, 16], ["Probe", 3], ["SetRef", 0, 16, 1], ["Probe", 3], ["Probe", 1]]))
    # a GENUINE trait whose name ends in '_items', added after observe() and matched by an optional named observer
    xiv = [13, True, True, [[0, True, False, []]]]
    cs.append(dict(npool=3, shape="acyclic", itemsname=True, ops=[
        ["Observe", 0, 0, xiv], ["AddTrait", 0, 13], ["SetRef", 0, 13, 1]] + probes_for(3) + [
        ["SetRef", 0, 13, 2]] + probes_for(3) + [["Unobserve", 0, 0, xiv]] + probes_for(3)))
    cs.append(dict(npool=5, shape="acyclic", ops=[
        ["SetCont", 0, 5, [1, 2], False], ["Observe", 0, 0, siv],
        ["Cop", 5, 8, "symdiff", [[2, 3], True], [1, 1, [3]]]] + probes_for(5) + [
        ["Cop", 5, 8, "symdiff", [[1, 4], False], [0, 1, [4]]]] + probes_for(5)))
    # a container default WITH content materialised after registration: its items are hooked, nobody is called
    cs.append(dict(npool=3, shape="acyclic", ops=[
        ["Observe", 0, 0, kiv], ["TouchItems", 0, 3, [1, 2]]] + probes_for(3) + [
        ["Cop", 3, 6, "pop", [0], [0, 1, []]]] + probes_for(3) + [
        ["Observe", 1, 0, parse_named("m.items.value")], ["TouchItems", 0, 4, [["a", 2]]]] + probes_for(3)))
    # error path (theorem failing_maintainer_exact_effect): two handlers observe through the same trait; the first
    # one's maintainer cannot hook the new value (ValueError), so the second one's maintainer never runs: the old
    # value keeps calling the second handler and the new value does not
    cs.append(dict(npool=4, shape="strict", name="failing-maintainer", ops=[
        ["AddTrait", 1, 12], ["SetRef", 0, 1, 1],
        ["Observe", 0, 0, [1, True, False, [[12, True, False, []]]]],
        ["Observe", 1, 0, [1, True, False, [[0, True, False, []]]]]] + probes_for(3) + [
        ["SetRef", 0, 1, 2]] + probes_for(3)))
    # a List trait in identity comparison mode: re-assigning an equal (distinct) list IS a change and is reported
    kiI = [15, True, False, [[18, True, False, [[0, True, False, []]]]]]
    cs.append(dict(npool=3, shape="acyclic", ops=[
        ["SetCont", 0, 15, [1], False], ["Observe", 0, 0, kiI], ["SetCont", 0, 15, [1], False]] + probes_for(3) + [
        ["SetCont", 0, 15, [], False], ["SetCont", 0, 15, [], False],
        ["Cop", 6, 18, "append", [2], [0, 0, [2]]]] + probes_for(3)))
    # finding: del o.kids notifies twice, the new default list is hooked twice; once replaced it keeps calling
    ki = parse_named("kids.items")
    cs.append(dict(npool=3, shape="acyclic-del", name="del-container", ops=[
        ["SetCont", 0, 3, [1], False], ["Observe", 0, 0, ki], ["SetCont", 0, 3, [], False, "del"]] + probes_for(3) + [
        ["SetCont", 0, 3, [2], False], ["Cop", 4, 6, "append", [1], [0, 0, [1]]]] + probes_for(3)))
    # F14, first form: a cycle through the root leaves a stale maintainer
    ffv = parse_named("f.f.value")
    cs.append(dict(npool=2, shape="cyclic", name="f14-cycle-through-root", ops=[
        ["SetRef", 0, 1, 0], ["Observe", 0, 0, ffv], ["SetRef", 0, 1, 1], ["SetRef", 1, 1, 0]] + probes_for(2)))
    # F14, second form: a list that comes to contain its own owner; the mutation raises NotifierNotFound
    kikiv = parse_named("kids.items.kids.items.value")
    cs.append(dict(npool=2, shape="cyclic", name="f14-list-contains-owner", ops=[
        ["SetCont", 0, 3, [], True], ["SetCont", 1, 3, [], True], ["Observe", 0, 0, kikiv],
        ["Cop", 2, 6, "append", [1], [0, 0, [1]]], ["Cop", 2, 6, "setitem", [0, 0], [0, 1, [0]]]] + probes_for(2) + [
        ["Cop", 2, 6, "append", [1], [1, 0, [1]]]] + probes_for(2)))
    return cs


def gen_strict_case(rnd, ctx):
    """An intermediate trait is re-assigned to an object on which the rest of a NON-optional expression cannot be
    hooked (it lacks the dynamic trait x1): the assignment is stored and raises ValueError; the old value must be
    unhooked all the same (the model skips a named observer on an object without the trait, which is the hook
    state the implementation is left with after undoing the failed walk)."""
    n1, n2 = rnd.random() < 0.6, rnd.random() < 0.7
    V = [0, True, False, []]
    g = rnd.choice([[1, n1, False, [[12, n2, False, [V]]]], [1, n1, False, [[12, True, False, []]]]])
    ops = [["AddTrait", 1, 12], ["SetRef", 0, 1, 1]]
    if rnd.random() < 0.6:
        ops.append(["SetRef", 1, 12, 3])
    if rnd.random() < 0.4:
        # a registration that fails (object 2 has no x1): ValueError, nothing may change
        bad = g if rnd.random() < 0.5 else ["|", True, False, [[0, True, False, []], g]]   # "value | f.x1...": the
        ops += [["SetRef", 0, 1, 2], ["Observe", 0, 0, bad]] + probes_for(4) + [["SetRef", 0, 1, 1]]  # first graph is undone
    ops.append(["Observe", 0, 0, g])
    ops += probes_for(4)
    ops.append(["SetRef", 0, 1, 2, "raises"])          # object 2 has no x1
    ops += probes_for(4)
    if rnd.random() < 0.5:
        ops.append(["SetRef", 1, 12, None if rnd.random() < 0.5 else 2])
        ops += probes_for(4)
    ops.append(["SetRef", 0, 1, 1])                     # back to an object that can be hooked
    ops += probes_for(4)
    if rnd.random() < 0.5:
        ops.append(["SetRef", 0, 1, 2, "raises"])
        ops += probes_for(4)
        ops.append(["SetRef", 0, 1, None])
        ops += probes_for(4)
    ctx.count("strict-expr:" + show_graph(g))
    return dict(npool=4, shape="strict", ops=ops)


def gen_dyn_case(rnd, ctx):
    """A history with add_trait: optional named observers of traits that do not exist yet, anytrait observers,
    the trait_added maintainers.  Links only go from lower to higher object numbers (acyclic)."""
    npool = 4
    d = rnd.choice([12, 12, 13])
    n = rnd.random() < 0.7
    V = [0, True, False, []]
    shapes = [["tag", n, False, [V]], ["tag", n, False, [V]], [1, n, False, [["tag", n, False, [V]]]],
              ["tag", n, False, [["tag", n, False, [V]]]],
              [d, True, True, []], [d, n, True, [V]], [1, n, False, [[d, n, True, [V]]]],
              ["anytrait", True, False, []], [1, n, False, [["anytrait", True, False, []]]],
              [3, n, False, [[6, n, False, [[d, True, True, []]]]]], [d, n, True, [[d, n, True, [V]]]],
              [1, True, False, [[d, True, True, []], V]]]
    g = rnd.choice(shapes)
    if '"tag"' in json.dumps(g):
        d = 13                # the dynamic trait that carries tag=True

    def strictify(x):
        # x1 (12) is always observed with optional=False, x2 (13) with optional=True (Model.required)
        if x[0] == 12:
            x[2] = False
        for c in x[3]:
            strictify(c)
    g = json.loads(json.dumps(g))
    strictify(g)
    ops = []
    have = set()          # (object, dynamic field) added so far
    ref = {}

    def add(op):
        ops.append(op)
        ctx.count("dyn-op:" + opkind(op))

    def probes():
        for o in range(npool):
            ops.append(["Probe", o])

    def mutation():
        o = rnd.randrange(npool) if rnd.random() < 0.5 else rnd.choice([0, 0, 1])
        r = rnd.random()
        if r < 0.3:
            f = rnd.choice([12, 13, d, d])
            if (o, f) in have:
                return ["AddTrait", o, f] if rnd.random() < 0.5 else None     # added once more
            have.add((o, f))
            return ["AddTrait", o, f]
        if r < 0.6:
            fs = [f for (x, f) in have if x == o]
            if not fs or o == npool - 1:
                return None
            f = rnd.choice(fs)
            v = rnd.choice(list(range(o + 1, npool)) + [None])
            if ref.get((o, f)) == v:
                return None
            ref[(o, f)] = v
            return ["SetRef", o, f, v]
        if r < 0.85:
            if o == npool - 1:
                return None
            f = rnd.choice([1, 2])
            v = rnd.choice(list(range(o + 1, npool)) + [None])
            if ref.get((o, f)) == v:
                return None
            ref[(o, f)] = v
            return ["SetRef", o, f, v]
        if o == npool - 1:
            return None
        items = [rnd.randrange(o + 1, npool) for _ in range(rnd.randint(1, 2))]
        return ["SetCont", o, 3, items, False]

    if d == 12:
        # a non-optional observer: every object gets the trait first (the failing side is gen_strict_case)
        for o in range(npool):
            have.add((o, 12))
            add(["AddTrait", o, 12])
    for _ in range(rnd.randint(0, 4)):
        m = mutation()
        if m:
            add(m)
    if rnd.random() < 0.4:
        # the dynamic trait exists and holds a value BEFORE observe() (walked at registration, not by a maintainer)
        for o in ([0, 1] if g[0] == 1 else [0]):
            if (o, d) not in have:
                have.add((o, d))
                add(["AddTrait", o, d])
            v = rnd.randrange(o + 1, npool)
            if ref.get((o, d)) != v:
                ref[(o, d)] = v
                add(["SetRef", o, d, v])
        ctx.count("dyn-populated-before-observe")
    add(["Observe", 0, 0, g])
    probes()
    for _ in range(rnd.randint(2, 9)):
        m = mutation()
        if m:
            add(m)
            probes()
    if rnd.random() < 0.3:
        add(["Unobserve", 0, 0, g])
        probes()
        m = mutation()
        if m:
            add(m)
            probes()
    ctx.count("dyn-expr:" + show_graph(g))
    # named observers only: in half of these histories the dynamic traits are genuine traits named '*_items'
    itemsname = not any(w in json.dumps(g) for w in ('"tag"', '"anytrait"')) and rnd.random() < 0.5
    if itemsname:
        ctx.count("dyn-names-ending-in-_items")
    return dict(npool=npool, shape="acyclic", ops=ops, itemsname=itemsname)


def gen_const_case(rnd, ctx):
    """A link whose default is a CONSTANT observable object (`cdef = Any(D)`, or an inherited Instance default
    overridden by `cdef = D`): the default enters the heap when the trait is first read (model: Touch; the new
    object gets the next free number), before or after observe(); then it is probed, replaced, probed again."""
    npool = 4
    o = rnd.choice([0, 0, 1])
    n1, n2 = rnd.random() < 0.7, rnd.random() < 0.7
    V = [0, True, False, []]
    tail = rnd.choice([[V], [V], [[1, n2, False, [V]], V], [[16, n2, False, [V]]]])
    g = [16, n1, False, tail]
    if o == 1:
        g = [1, n2, False, [g]]
    ops = []
    if o == 1:
        ops.append(["SetRef", 0, 1, 1])
    D = npool                      # the number the default object gets when it is read (no container before it)
    early = rnd.random() < 0.3
    if early:
        ops.append(["Touch", o, 16])
    ops.append(["Observe", 0, 0, g])
    ops += probes_for(npool) + ([["Probe", D]] if early else [])
    if not early:
        ops.append(["Touch", o, 16])
    live = list(range(npool)) + [D]
    cur = D
    ops += [["Probe", x] for x in live]
    for _ in range(rnd.randint(1, 4)):
        r = rnd.random()
        if r < 0.35:
            ops.append(["SetRef", D, 1, rnd.choice([2, 3, None])])       # a link of the default object itself
        elif r < 0.7:
            cur = rnd.choice([2, 3, None])
            ops.append(["SetRef", o, 16, cur])                           # the default is replaced
        elif r < 0.85:
            if cur is None:        # (the model cannot tell "set to None" from "never read")
                continue
            ops.append(["Touch", o, 16])                                  # a later read changes nothing
        else:
            ops.append(["Unobserve", 0, 0, g])
            ops += [["Probe", x] for x in live]
            break
        ops += [["Probe", x] for x in live]
    ctx.count("const-default:%s" % ("read-before-observe" if early else "read-after-observe"))
    return dict(npool=npool, shape="acyclic", ops=ops, cdef=[o, rnd.randrange(2)])


def truncate_replays(ctx):
    """Replay files keep only the history up to the failing step (container numbering depends on the
    prefix, so operations are never deleted from the middle)."""
    for _key, path, _no_input in ctx.violations:
        try:
            d = json.load(open(path))
            r = d.get("replay", {})
            if isinstance(r.get("case"), dict) and isinstance(r.get("step"), int) and isinstance(r.get("impl_obs"), list):
                r["case"]["ops"] = r["case"]["ops"][:r["step"] + 1]
                r["impl_obs"] = r["impl_obs"][:r["step"] + 1]
                with open(path, "w") as f:
                    json.dump(d, f, indent=1)
        except Exception:
            pass


def check_hyps(ctx, cases):
    """Evaluate the hypotheses of the theorems (Model.hyps) on the model run of every case."""
    terms = [(Nat(c["npool"]), [op_term(o) for o in c["ops"]]) for c in cases]
    name = ("hypotheses of hooks_are_expected / called_once_iff_reachable (Model.hyps: every operation edge-acyclic, "
            "new containers fresh, only live registrations removed) hold on every generated acyclic history")
    try:
        (res,) = coqrun.eval_cases(ctx.scratch, "hyps", HEADER, "(nat * list C08.Model.op)%type", terms, ["hyp_codes"])
    except coqrun.CoqError as e:
        ctx.obligation(name, False, str(e)[-300:])
        return
    bad = set(i for i, _ in res)
    acyc_bad = sorted(i for i in bad if cases[i].get("shape") == "acyclic")
    cyc = [i for i, c in enumerate(cases) if c.get("shape") != "acyclic"]
    ctx.obligation(name, not acyc_bad, "hyps = true on %d of %d acyclic histories; false on %d of %d histories outside the hypotheses (finding triggers, failing walks)" % (
        len(cases) - len(cyc) - len(acyc_bad), len(cases) - len(cyc), sum(1 for i in cyc if i in bad), len(cyc)))
    if acyc_bad:
        ctx.notes.append("hyps false on acyclic case %d: %r" % (acyc_bad[0], cases[acyc_bad[0]]["ops"]))


def run(ctx):
    ok, log = ctx.proofs(PROPS)
    ctx.cov["trusted_base"] += [
        "tools/drivers/c08_driver.py (object <-> atom mapping, recording handlers, dumps of links and notifier "
        "lists) and tools/props/c08.py (generator; its shadow heap supplies the positional meaning (i, n, items) of "
        "each list/dict/set mutator, checked against the implementation's contents after every step; the trait "
        "names matched by the filter nodes)",
        "modelled, not verified: TraitList/TraitDict/TraitSet mutators as splices with a faithful delta (C05-C07); "
        "Python equality of containers; graph equality modulo child order (canonical order handed to the model); "
        "the optional flag, weak references and dispatch='ui' are outside the model",
    ]
    ctx.cov["rule"] = ("histories over a pool of 3-5 interlinked HasTraits objects (Instance, List, Dict, Set of "
                       "instances): mutations before and after observe(), expressions from a typed random graph "
                       "generator (series, parallel, quiet links, optional flags, metadata / match / anytrait filter "
                       "nodes, 'a | b' at the top, depth <= 4) and named shapes, 1-3 registrations with 2 handlers and "
                       "several roots, repeated registration, removal, equal containers re-assigned, objects inserted "
                       "twice, defaults materialised late, operations on detached containers; a second family with "
                       "add_trait (optional observers of traits added later, anytrait); after every mutation every "
                       "pool object's value is probed; generated heaps are acyclic, the two F14 triggers are fixed "
                       "corpus cases; non-trivial = some handler call observed; distinct = distinct operation list")
    rnd = random.Random(ctx.seed)
    n, maxmut = (500, 8) if ctx.tier == "quick" else (7500, 14)
    if ctx.replay:
        cases = [json.load(open(ctx.replay))["replay"]["case"]]
    else:
        cases = corpus() + [gen_case(rnd, ctx, maxmut) for _ in range(n)]
        cases += [gen_dyn_case(rnd, ctx) for _ in range(n // 4)]       # histories with add_trait
        cases += [gen_const_case(rnd, ctx) for _ in range(max(20, n // 25))]   # constant observable defaults
        cases += [gen_strict_case(rnd, ctx) for _ in range(max(20, n // 50))]  # non-optional observers that fail
        import os
        for i in range(int(os.environ.get("VERIF_C08_CYCLE_SEARCH", "0"))):   # development aid: look for F14 triggers
            c = gen_case(rnd, ctx, 5, cyclic=True)
            c["name"] = "search%d" % i
            cases.append(c)
    for c in cases[:2] + cases[-2:]:
        ctx.sample(c)
    hist.run(ctx, DRIVER, cases, to_term, HEADER, CASE_T, key_fn, describe, nontrivial,
             relation="C08.Corr.corr_codes (Model.step = observe machinery on every step)", do_shrink=False)
    truncate_replays(ctx)
    if not ctx.replay:
        check_hyps(ctx, cases)
    proof_gate(ctx, ok, log, PROPS)
