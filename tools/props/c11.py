"""C11 — deferred traits (DelegatesTo / PrototypedFrom) mirror their target."""
import json
import random

from vlib import hist
from vlib.ctx import proof_gate
from vlib.term import C, Nat, Some, opt

HEADER = ("From Coq Require Import ZArith List.\n"
          "From TV Require Import Common.Harness C11.Model C11.Law C11.Corr.")
CASE_T = "C11.Corr.case"
PROPS = ["C11/Props.v"]
CLAUSE = {1: "read-not-mirrored", 2: "local-value", 3: "write-not-at-target", 4: "other-stored-changed",
          5: "outcome", 6: "failed-op-effect", 7: "forwarding"}
X, Y, A, B, R, ITEMS, P_, PRE_, Q_, PARENT = 0, 1, 2, 3, 4, 5, 10, 11, 12, 20
REF = 22      # a delegate reference that is itself a deferring attribute (sixth wave)
BASES = [X, Y, A, B, R]
PREFIXES = [P_, PRE_, Q_]


# ---------------------------------------------------------------- terms
def name(t):
    return [Nat(x) for x in t]


def value(v):
    if v is None:
        return C("VNone")
    if v == "bad":
        return C("VBad")
    if isinstance(v, dict):
        return C("VObj", Nat(v["obj"]))
    return C("VInt", v)


def rule(r):
    return C({"Same": "RSame", "Class": "RClass"}[r[0]]) if len(r) == 1 else \
        C({"Explicit": "RExplicit", "Prefix": "RPrefix"}[r[0]], name(r[1]))


def trait(t):
    if t[0] == "Normal":
        return C("Normal", C(t[1]), value(t[2]))
    if t[0] == "Link":
        return C("Link")
    return C("Deleg", name(t[1]), rule(t[2]), bool(t[3]))


def op_term(op):
    if op[0] == "Set":
        return C("Set_", Nat(op[1]), name(op[2]), value(op[3]))
    return C("Del", Nat(op[1]), name(op[2]))


def obs_term(ob):
    out = C("Done") if ob["out"] == "Done" else C("Raised", C(ob["out"]))
    evs = [((Nat(e[0]), name(e[1])), value(e[2])) for e in ob["events"]]
    reads = [[C("RV", value(r["v"])) if "v" in r else C("RE", C(r["err"])) for r in rr] for rr in ob["reads"]]
    return C("mkObs", out, evs, reads, [[bool(b) for b in ll] for ll in ob["local"]])


def to_term(case, obs):
    cs = [C("mkC", name(c["prefix"]), [(name(tn), trait(t)) for tn, t in c["traits"]],
            [name(u) for u in c.get("unlisten", [])]) for c in case["classes"]]
    os_ = [C("mkO", Nat(o["cls"]), [(name(tn), value(v)) for tn, v in o["dict"]]) for o in case["objs"]]
    return (cs, os_, obs_term(obs[0]), [(op_term(op), obs_term(ob)) for op, ob in zip(case["ops"], obs[1:])])


# ---------------------------------------------------------------- classification of a step (keys only)
def trait_of(case, o, n):
    for tn, t in case["classes"][case["objs"][o]["cls"]]["traits"]:
        if tn == n:
            return t
    return None


def obs_read(case, ob, o, n):
    names = [tn for tn, _ in case["classes"][case["objs"][o]["cls"]]["traits"]]
    k = names.index(n)
    return ob["reads"][o][k], ob["local"][o][k]


def attr_name(case, r, o, n):
    if r[0] == "Same":
        return n
    if r[0] == "Explicit":
        return r[1]
    if r[0] == "Prefix":
        return r[1] + n
    return case["classes"][case["objs"][o]["cls"]]["prefix"] + n


def chain_tags(case, before, o, n, is_del=False):
    """Walks the whole chain from (o, n) on the observation before the step: which of the two recorded
    defect triggers it contains."""
    tags = set()
    if is_del and n in case["classes"][case["objs"][o]["cls"]].get("unlisten", []):
        tags.add("not-listenable")        # the (repaired) defect F20/F29 concerned deletion only
    origin_prefix = case["classes"][case["objs"][o]["cls"]]["prefix"]
    hop = 0
    for _ in range(8):
        t = trait_of(case, o, n)
        if t is None or t[0] != "Deleg":
            break
        hop += 1
        if hop >= 2:
            if obs_read(case, before, o, n)[1]:
                tags.add("through-local")
            if t[2][0] == "Class" and case["classes"][case["objs"][o]["cls"]]["prefix"] != origin_prefix:
                tags.add("class-prefix-at-later-hop")
        d = obs_read(case, before, o, t[1])[0]
        if "v" not in d or not isinstance(d["v"], dict):
            tags.add("no-delegate")
            break
        o, n = d["v"]["obj"], attr_name(case, t[2], o, n)
    return "+".join(sorted(tags)) or "plain"


def op_kind(case, op):
    t = trait_of(case, op[1], op[2])
    if op[0] == "Del":
        return "Del"
    if t is None:
        return "SetUnknown"
    if t[0] == "Deleg":
        return "SetDelegatesTo" if t[3] else "SetPrototypedFrom"
    return "SetReference" if t[0] == "Link" else "SetPlain"


def key_fn(case, obs, step, clause):
    if step >= len(case["ops"]):
        return "%s/init" % CLAUSE.get(clause, clause)
    op = case["ops"][step]
    tags = chain_tags(case, obs[step], op[1], op[2], op[0] == "Del") if trait_of(case, op[1], op[2]) else "plain"
    return "%s/%s/%s" % (CLAUSE.get(clause, clause), op_kind(case, op), tags)


def describe(case, obs, step, clause):
    if step >= len(case["ops"]):
        return "deferred traits: clause %s fails on the initial observation" % CLAUSE.get(clause, clause)
    op = case["ops"][step]
    return "deferred traits: clause %s fails at step %d op %r (%s, chain %s): before %r after %r" % (
        CLAUSE.get(clause, clause), step, op, op_kind(case, op),
        chain_tags(case, obs[step], op[1], op[2], op[0] == "Del") if trait_of(case, op[1], op[2]) else "plain",
        obs[step]["reads"], {k: obs[step + 1][k] for k in ("out", "events", "reads", "local")})


def nontrivial(case, obs):
    sig = json.dumps(case, sort_keys=True)
    nt = any(ob["events"] or ob["out"] != "Done" for ob in obs[1:])
    return sig, nt


# ---------------------------------------------------------------- generator
def gen_config(rnd, ctx, depth=None):
    depth = depth or rnd.choice([1, 1, 2, 2, 3])
    classes, level_names = [], []
    # level 0: plain traits
    # plain attributes whose own name ends in "_items" are ordinary targets too (x_items, p_y_items, ...)
    names0 = [[X], [Y], [R]] + [[p, b] for p in PREFIXES for b in (X, Y)] + \
        [[X, ITEMS], [R, ITEMS]] + [[p, Y, ITEMS] for p in PREFIXES]
    rnd.shuffle(names0)
    names0 = sorted(names0[:rnd.randint(5, 10)])
    traits = [[PARENT], ["Link"]]
    t0 = [[[PARENT], ["Link"]]]
    for n in names0:
        k = rnd.choice(["KInt", "KInt", "KRange", "KAny"])
        t0.append([n, ["Normal", k, rnd.randint(0, 50)]])
    classes.append(dict(prefix=[rnd.choice(PREFIXES)], traits=t0))
    level_names.append(names0)
    for lvl in range(1, depth + 1):
        below = level_names[-1]
        prefix = rnd.choice(PREFIXES)
        ts, used = [[[PARENT], ["Link"]]], set()
        for _ in range(rnd.randint(2, 5)):
            style = rnd.choice(["Same", "Same", "Explicit", "Prefix", "Class", "Class"])
            modify = rnd.random() < 0.5
            tgt = rnd.choice(below)
            if style == "Same":
                n, r = tgt, ["Same"]
            elif style == "Explicit":
                n, r = [rnd.choice(BASES)], ["Explicit", tgt]
            else:
                cands = [t for t in below if len(t) >= 2 and t[0] in PREFIXES and (style == "Prefix" or t[0] == prefix)]
                if not cands:
                    cands2 = [t for t in below if len(t) >= 2 and t[0] in PREFIXES]
                    if style == "Class" and cands2 and lvl == depth and not used:
                        pass
                    if not cands:
                        continue
                tgt = rnd.choice(cands)
                n, r = list(tgt[1:]), (["Prefix", [tgt[0]]] if style == "Prefix" else ["Class"])
            if tuple(n) in used or n == [PARENT]:
                continue
            used.add(tuple(n))
            ts.append([n, ["Deleg", [PARENT], r, modify]])
            ctx.count("style:%s:%s" % (style, "DelegatesTo" if modify else "PrototypedFrom"))
        if len(ts) == 1:
            tgt = rnd.choice(below)
            ts.append([tgt, ["Deleg", [PARENT], ["Same"], rnd.random() < 0.5]])
            used.add(tuple(tgt))
        # one or two plain traits so that chains may end here and prefixed targets exist for the level above
        for _ in range(rnd.randint(0, 2)):
            n = rnd.choice([[p, b] for p in PREFIXES for b in (X, Y)] + [[A], [B], [B, ITEMS], [P_, A, ITEMS]])
            if tuple(n) not in used:
                used.add(tuple(n))
                ts.append([n, ["Normal", rnd.choice(["KInt", "KRange", "KAny"]), rnd.randint(0, 50)]])
        unlisten = [t[0] for t in ts[1:] if t[1][0] == "Deleg" and rnd.random() < 0.12]
        for _ in unlisten:
            ctx.count("style:listenable=False")
        classes.append(dict(prefix=[prefix], traits=ts, unlisten=unlisten))
        level_names.append([t[0] for t in ts[1:]])
    # inheritance: a subclass that RE-DECLARES one inherited deferring attribute with another target.  The model
    # sees the flattened table (class_traits of the subclass); the driver builds a real subclass with only the
    # re-declared trait in its namespace (the metaclass merges the listener tables of the bases).
    sub_of = {}
    for lvl in range(1, depth + 1):
        base = classes[lvl]
        defs = [j for j, t in enumerate(base["traits"]) if t[1][0] == "Deleg"]
        if not defs or rnd.random() > 0.4:
            continue
        j = rnd.choice(defs)
        tn, spec = base["traits"][j]
        cur = {"Same": tn, "Explicit": spec[2][1] if len(spec[2]) > 1 else tn,
               "Prefix": (spec[2][1] if len(spec[2]) > 1 else []) + tn, "Class": base["prefix"] + tn}[spec[2][0]]
        others = [t for t in level_names[lvl - 1] if t != cur]
        if not others:
            continue
        ts2 = [list(t) for t in base["traits"]]
        ts2[j] = [tn, ["Deleg", [PARENT], ["Explicit", rnd.choice(others)], rnd.random() < 0.5]]
        unl = [u for u in base.get("unlisten", []) if u != tn]
        sub_of[lvl] = len(classes)
        # half of the subclasses also set another __prefix__: inherited '*'-style attributes (whose trait objects are
        # shared with the base class) must then resolve through the prefix of the class of the object at hand
        pre2 = list(base["prefix"])
        if rnd.random() < 0.5:
            pre2 = [rnd.choice([q for q in PREFIXES if [q] != list(base["prefix"])])]
            ctx.count("inheritance:subclass-with-other-__prefix__")
            # the targets of the inherited '*'-style attributes under the new prefix exist on the level below
            for tn2, spec2 in ts2:
                if spec2[0] == "Deleg" and spec2[2][0] == "Class" and pre2 + tn2 not in level_names[lvl - 1]:
                    extra = [pre2 + tn2, ["Normal", "KInt", rnd.randint(0, 50)]]
                    classes[lvl - 1]["traits"].append(extra)
                    if lvl - 1 in sub_of:
                        classes[sub_of[lvl - 1]]["traits"].append([list(extra[0]), list(extra[1])])
                    level_names[lvl - 1].append(pre2 + tn2)
        classes.append(dict(prefix=pre2, traits=ts2, unlisten=unl, base=lvl, own=[tn]))
        ctx.count("inheritance:redeclared-deferring-attribute")
    objs, by_level = [], []
    for lvl in range(depth + 1):
        ids = []
        for _ in range(2 if lvl < depth else rnd.randint(1, 2)):
            d = []
            if lvl > 0:
                d.append([[PARENT], {"obj": rnd.choice(by_level[lvl - 1])}])
            ids.append(len(objs))
            ci = sub_of[lvl] if lvl in sub_of and rnd.random() < 0.6 else lvl
            ob = dict(cls=ci, dict=d)
            protos = [t[0] for t in classes[ci]["traits"] if t[1][0] == "Deleg" and not t[1][3]]
            if lvl == depth and lvl > 0 and rnd.random() < 0.15:
                ob["link_default"] = True      # delegate supplied by _parent_default; first operation precedes any read
                ctx.count("construction:delegate-from-default-initialiser")
            elif lvl > 0 and protos and rnd.random() < 0.2:
                # a local value supplied as a constructor keyword (always valid: 0..50 suits Int, Range(0,50), Any)
                ob["dict"] = d + [[rnd.choice(protos), rnd.randint(0, 50)]]
                ob["ctor"] = True
                ctx.count("construction:local-value-as-keyword")
            objs.append(ob)
        by_level.append(ids)
    ctx.count("chain-depth:%d" % depth)
    # sixth wave: the attribute that REFERENCES the delegate is not a plain stored trait
    top = [depth] + ([sub_of[depth]] if depth in sub_of else [])
    rr = rnd.random()
    if rr < 0.15:
        # (b) a Property returning the delegate (computed reference over private storage); any deferring level
        lvl = rnd.randint(1, depth)
        for ci in [lvl] + ([sub_of[lvl]] if lvl in sub_of else []):
            classes[ci]["propref"] = True
        ctx.count("reference:property")
    elif rr < 0.35 and not any(objs[o].get("link_default") for o in by_level[depth]):
        # (a) the reference is itself a DelegatesTo attribute: top-level objects reach their delegate through
        # ref = DelegatesTo('parent') onto an inner object whose `ref` holds it; every deferring attribute names `ref`
        inn = len(classes)
        classes.append(dict(prefix=[rnd.choice(PREFIXES)], traits=[[[PARENT], ["Link"]], [[REF], ["Link"]]]))
        for ci in top:
            ts = classes[ci]["traits"]
            for t in ts:
                if t[1][0] == "Deleg":
                    t[1] = ["Deleg", [REF]] + list(t[1][2:])
            ts.insert(1, [[REF], ["Deleg", [PARENT], ["Same"], True]])
        tops = [objs[o] for o in by_level[depth]]
        del objs[by_level[depth][0]:]
        inner = {}
        for ob in tops:
            objs.append(dict(cls=inn, dict=[[[REF], ob["dict"][0][1]]]))
            ob["dict"][0] = [[PARENT], {"obj": len(objs) - 1}]
            ob["via_default"] = True
        by_level[depth] = []
        for k, ob in enumerate(tops):
            inner[len(objs)] = len(objs) - len(tops) - k + k    # placeholder, fixed below
            by_level[depth].append(len(objs))
            objs.append(ob)
        n_top = len(tops)
        inner = {o: o - n_top for o in by_level[depth]}
        ctx.count("reference:DelegatesTo")
        return classes, objs, by_level, inner
    return classes, objs, by_level, {}


def gen_case(rnd, ctx, maxlen):
    classes, objs, by_level, inner = gen_config(rnd, ctx)
    level_of = {o: l for l, ids in enumerate(by_level) for o in ids}
    level_of.update({i: 0 for i in inner.values()})      # inner objects only hold the reference
    case = dict(classes=classes, objs=objs, ops=[])
    local = {(i, tuple(e[0])) for i, ob in enumerate(objs) if ob.get("ctor") for e in ob["dict"][1:]}
    lazy = [i for i, ob in enumerate(objs) if ob.get("link_default")]
    for step_no in range(rnd.randint(1, maxlen)):
        if step_no == 0 and lazy:
            # change a target on the delegate before the link or a deferring attribute has ever been read
            par = objs[lazy[0]]["dict"][0][1]["obj"]
            tn, t = rnd.choice(classes[objs[par]["cls"]]["traits"][1:])
            case["ops"].append(["Set", par, tn, rnd.randint(0, 50)])
            ctx.count("op:target-change-before-first-read")
            if t[0] == "Deleg" and not t[3]:
                local.add((par, tuple(tn)))
            continue
        o = rnd.randrange(len(objs))
        if rnd.random() < 0.6:          # prefer deferring objects
            o = rnd.choice([q for q in range(len(objs)) if level_of[q] > 0])
        ts = classes[objs[o]["cls"]]["traits"]
        r = rnd.random()
        if r < 0.12 and level_of[o] > 0:
            tgt = rnd.choice(by_level[level_of[o] - 1])
            if level_of[o] == len(by_level) - 1 and rnd.random() < 0.08:
                tgt = None          # only on top-level objects: nobody defers to them
            op = ["Set", o, [PARENT], {"obj": tgt} if tgt is not None else None]
            if o in inner:
                # the delegate is swapped through either end of the deferring reference
                tgt = tgt if tgt is not None else rnd.choice(by_level[level_of[o] - 1])
                op = ["Set", o if rnd.random() < 0.5 else inner[o], [REF], {"obj": tgt}]
            ctx.count("op:swap-delegate" if tgt is not None else "op:delegate-none")
        elif r < 0.27 and local:
            oo, nn = rnd.choice(sorted(local))
            op = ["Del", oo, list(nn)]
            local.discard((oo, nn))
            ctx.count("op:delete-local")
        elif r < 0.31:
            protos = [(o2, tn) for o2 in range(len(objs)) for tn, t in classes[objs[o2]["cls"]]["traits"]
                      if t[0] == "Deleg" and not t[3]]
            if not protos:
                continue
            oo, nn = rnd.choice(protos)
            op = ["Del", oo, nn]
            local.discard((oo, tuple(nn)))
            ctx.count("op:delete-without-local")
        else:
            tn, t = rnd.choice(ts[1:])
            v = rnd.choice([rnd.randint(0, 50), rnd.randint(0, 50), rnd.randint(51, 60), "bad"]) \
                if rnd.random() < 0.35 else rnd.randint(0, 50)
            op = ["Set", o, tn, v]
            if t[0] == "Deleg":
                ctx.count("op:assign-via-" + ("DelegatesTo" if t[3] else "PrototypedFrom"))
                if not t[3]:
                    local.add((o, tuple(tn)))
            else:
                ctx.count("op:assign-on-candidate-delegate")
            if v == "bad" or (isinstance(v, int) and v > 50):
                ctx.count("value:possibly-invalid")
        case["ops"].append(op)
    if not case["ops"]:
        case["ops"].append(["Set", 0, classes[0]["traits"][1][0], 5])
    ctx.count("history-length:%02d" % len(case["ops"]))
    if rnd.random() < 0.3 and not inner:
        # (not together with a deferring reference: its own handlers observe object VALUES, and whether a swap between
        #  equal objects notifies them is the comparison mode's business, C02)
        # the classes of this case define a value-style __eq__ (equal class and equal stored plain values): swapping
        # the delegate for a DISTINCT object that compares EQUAL must still move the forwarder to the new delegate
        case["eq"] = True
        ctx.count("classes:value-style-eq")
    return case


def corpus():
    """Triggers of the listed findings and of the repaired F16 (wildcard styles must forward): every run."""
    par = dict(prefix=[Q_], traits=[[[PARENT], ["Link"]], [[X], ["Normal", "KInt", 1]], [[P_, X], ["Normal", "KInt", 3]],
                                    [[PRE_, X], ["Normal", "KInt", 4]], [[Q_, B], ["Normal", "KInt", 5]],
                                    [[PRE_, B], ["Normal", "KRange", 6]], [[R], ["Normal", "KRange", 7]]])
    cs = []
    # F16: 'p_*' and '*' styles forward notifications, for both kinds of deferral
    ch = dict(prefix=[PRE_], traits=[[[PARENT], ["Link"]],
                                     [[X], ["Deleg", [PARENT], ["Prefix", [P_]], False]],
                                     [[Y], ["Deleg", [PARENT], ["Explicit", [X]], True]],
                                     [[A], ["Deleg", [PARENT], ["Same"], False]],
                                     [[R], ["Deleg", [PARENT], ["Same"], True]]])
    ch2 = dict(prefix=[PRE_], traits=[[[PARENT], ["Link"]], [[X], ["Deleg", [PARENT], ["Class"], False]],
                                      [[B], ["Deleg", [PARENT], ["Class"], True]]])
    objs = [dict(cls=0, dict=[]), dict(cls=0, dict=[]), dict(cls=1, dict=[[[PARENT], {"obj": 0}]])]
    par_a = dict(par, traits=par["traits"] + [[[A], ["Normal", "KInt", 9]]])
    cs.append(dict(classes=[par_a, ch], objs=objs,
                   ops=[["Set", 0, [P_, X], 30], ["Set", 2, [X], 8], ["Set", 0, [P_, X], 31], ["Del", 2, [X]],
                        ["Set", 0, [P_, X], 32], ["Set", 2, [PARENT], {"obj": 1}], ["Set", 0, [P_, X], 33],
                        ["Set", 1, [P_, X], 34], ["Set", 2, [Y], 12], ["Set", 2, [R], 99], ["Set", 2, [X], "bad"]]))
    cs.append(dict(classes=[par, ch2], objs=objs,
                   ops=[["Set", 0, [PRE_, X], 40], ["Set", 2, [X], 8], ["Set", 0, [PRE_, X], 41], ["Del", 2, [X]],
                        ["Set", 0, [PRE_, X], 42], ["Set", 2, [B], 20], ["Set", 0, [PRE_, B], 21], ["Set", 2, [B], 77]]))
    # targets / deferring attributes whose own name ends in "_items" (plain Int, not containers): forwarded like any other
    par_i = dict(prefix=[Q_], traits=[[[PARENT], ["Link"]], [[X, ITEMS], ["Normal", "KInt", 1]],
                                      [[P_, Y, ITEMS], ["Normal", "KInt", 2]], [[PRE_, R, ITEMS], ["Normal", "KInt", 3]]])
    ch_i = dict(prefix=[PRE_], traits=[[[PARENT], ["Link"]], [[X, ITEMS], ["Deleg", [PARENT], ["Same"], True]],
                                       [[A], ["Deleg", [PARENT], ["Explicit", [X, ITEMS]], False]],
                                       [[Y, ITEMS], ["Deleg", [PARENT], ["Prefix", [P_]], False]],
                                       [[R, ITEMS], ["Deleg", [PARENT], ["Class"], True]]])
    cs.append(dict(classes=[par_i, ch_i], objs=objs,
                   ops=[["Set", 0, [X, ITEMS], 11], ["Set", 0, [P_, Y, ITEMS], 12], ["Set", 0, [PRE_, R, ITEMS], 13],
                        ["Set", 2, [X, ITEMS], 14], ["Set", 2, [A], 15], ["Set", 0, [X, ITEMS], 16], ["Del", 2, [A]],
                        ["Set", 0, [X, ITEMS], 17], ["Set", 2, [PARENT], {"obj": 1}], ["Set", 1, [X, ITEMS], 18],
                        ["Set", 2, [R, ITEMS], 19]]))
    # fifth wave (re-run of C11-u1): two classes with different __prefix__ share an inherited '*'-style attribute
    ch_b = dict(prefix=[P_], traits=[[[PARENT], ["Link"]], [[X], ["Deleg", [PARENT], ["Class"], True]],
                                     [[B], ["Deleg", [PARENT], ["Class"], False]]])
    par_b = dict(par, traits=par["traits"] + [[[P_, B], ["Normal", "KInt", 8]]])
    ch_s = dict(ch_b, prefix=[PRE_], base=1, own=[])
    objs_b = [dict(cls=0, dict=[]), dict(cls=1, dict=[[[PARENT], {"obj": 0}]]), dict(cls=2, dict=[[[PARENT], {"obj": 0}]])]
    cs.append(dict(classes=[par_b, ch_b, ch_s], objs=objs_b,
                   ops=[["Set", 0, [P_, X], 10], ["Set", 0, [PRE_, X], 20], ["Set", 2, [X], 21], ["Set", 1, [X], 11],
                        ["Set", 2, [B], 22], ["Set", 0, [PRE_, B], 23], ["Set", 0, [P_, B], 24], ["Del", 2, [B]]]))
    # sixth wave (rev-F33, C11-w2): the attribute that REFERENCES the prototype is itself a DelegatesTo attribute
    # (ref = DelegatesTo('parent') onto an inner object whose `ref` holds the prototype): local assignment breaks the
    # link (prototype changes no longer notify), del restores it (exactly one notification), swaps through either end
    inn = dict(prefix=[P_], traits=[[[PARENT], ["Link"]], [[REF], ["Link"]]])
    top_r = dict(prefix=[PRE_], traits=[[[PARENT], ["Link"]], [[REF], ["Deleg", [PARENT], ["Same"], True]],
                                        [[X], ["Deleg", [REF], ["Same"], False]],
                                        [[Y], ["Deleg", [REF], ["Explicit", [X]], True]],
                                        [[R], ["Deleg", [REF], ["Same"], False]]])
    objs_r = [dict(cls=0, dict=[]), dict(cls=0, dict=[]), dict(cls=1, dict=[[[REF], {"obj": 0}]]),
              dict(cls=2, dict=[[[PARENT], {"obj": 2}]], via_default=True)]
    cs.append(dict(classes=[par, inn, top_r], objs=objs_r,
                   ops=[["Set", 0, [X], 5], ["Set", 3, [X], 9], ["Set", 0, [X], 6], ["Del", 3, [X]], ["Set", 0, [X], 7],
                        ["Set", 2, [REF], {"obj": 1}], ["Set", 1, [X], 8], ["Set", 3, [REF], {"obj": 0}], ["Set", 0, [X], 11],
                        ["Set", 3, [R], 20], ["Set", 0, [R], 21], ["Del", 3, [R]], ["Set", 0, [R], 22], ["Set", 3, [Y], 12]]))
    # sixth wave (C11-w2): the reference is a PROPERTY (computed, never in __dict__ under its own name)
    cs.append(dict(classes=[par_a, dict(ch, propref=True)], objs=objs,
                   ops=[["Set", 0, [P_, X], 5], ["Set", 2, [X], 9], ["Set", 0, [P_, X], 6], ["Del", 2, [X]],
                        ["Set", 0, [P_, X], 7], ["Set", 2, [PARENT], {"obj": 1}], ["Set", 1, [P_, X], 8],
                        ["Set", 0, [P_, X], 10], ["Set", 2, [A], 3], ["Set", 1, [A], 4], ["Del", 2, [A]], ["Set", 1, [A], 6],
                        ["Set", 2, [PARENT], 7]]))
    # fifth wave: delegate swapped for a distinct object that compares equal (value-style __eq__ on the classes): the
    # forwarder follows the current delegate, the previous one is no longer listened to
    cs.append(dict(classes=[par_a, ch], objs=objs, eq=True,
                   ops=[["Set", 0, [P_, X], 30], ["Set", 1, [P_, X], 30], ["Set", 2, [PARENT], {"obj": 1}],
                        ["Set", 1, [P_, X], 31], ["Set", 0, [P_, X], 32], ["Set", 1, [A], 5], ["Set", 0, [A], 6],
                        ["Set", 2, [Y], 12], ["Set", 1, [X], 13], ["Set", 0, [X], 14]]))
    # F20/F29 (repaired by fcaa594): del of a PrototypedFrom(..., listenable=False) attribute raised KeyError (with and
    # without a local value); it is an ordinary delete
    ch_nl = dict(prefix=[PRE_], unlisten=[[X], [Y]],
                 traits=[[[PARENT], ["Link"]], [[X], ["Deleg", [PARENT], ["Same"], False]],
                         [[Y], ["Deleg", [PARENT], ["Explicit", [X]], True]], [[A], ["Deleg", [PARENT], ["Explicit", [X]], False]]])
    cs.append(dict(classes=[par_a, ch_nl], objs=objs,
                   ops=[["Set", 0, [X], 5], ["Set", 2, [X], 9], ["Set", 0, [X], 6], ["Del", 2, [X]], ["Del", 2, [X]],
                        ["Set", 2, [Y], 7], ["Set", 2, [A], 3], ["Del", 2, [A]], ["Set", 0, [X], 8]]))
    # F17/F28 (repaired by 2e526b5): the class-prefix rule at the second hop was applied with the ORIGIN's class prefix
    # when writing
    mid = dict(prefix=[Q_], traits=[[[PARENT], ["Link"]], [[B], ["Deleg", [PARENT], ["Class"], True]],
                                    [[R], ["Deleg", [PARENT], ["Same"], False]]])
    top = dict(prefix=[PRE_], traits=[[[PARENT], ["Link"]], [[A], ["Deleg", [PARENT], ["Explicit", [B]], True]],
                                      [[Y], ["Deleg", [PARENT], ["Explicit", [R]], True]]])
    objs3 = [dict(cls=0, dict=[]), dict(cls=1, dict=[[[PARENT], {"obj": 0}]]), dict(cls=2, dict=[[[PARENT], {"obj": 1}]])]
    cs.append(dict(classes=[par, mid, top], objs=objs3,
                   ops=[["Set", 2, [A], 44], ["Set", 1, [B], 45], ["Set", 0, [Q_, B], 46]]))
    # finding: DelegatesTo over a PrototypedFrom attribute that has a local value writes past it
    cs.append(dict(classes=[par, mid, top], objs=objs3,
                   ops=[["Set", 1, [R], 30], ["Set", 2, [Y], 12], ["Del", 1, [R]], ["Set", 2, [Y], 13]]))
    return cs


def run(ctx):
    ok, log = ctx.proofs(PROPS)
    ctx.cov["trusted_base"] += [
        "tools/drivers/c11_driver.py (builds the classes of each configuration with type(), object pool, recording "
        "handlers on every non-reference trait, getattr snapshot, __dict__ membership) and tools/props/c11.py (generator)",
        "modelled, not verified: the forwarding listeners are legacy on_trait_change machinery, modelled at "
        "specification level (table of attached forwarders, Model.ltab / depends_on) and tied by correspondence only; "
        "validators are the three kinds Int / Range(0,50) / Any",
    ]
    ctx.cov["rule"] = ("random configurations: chains of 1-3 deferring classes over a plain class, 2-5 deferring traits per "
                       "class in the four prefix styles (same name, explicit name, 'prefix*', '*' with __prefix__), "
                       "DelegatesTo and PrototypedFrom mixed, about one in eight declared listenable=False, 2 candidate delegates per level; histories of assignments "
                       "through deferring attributes and on any candidate delegate (valid, out of range, wrong type), "
                       "re-pointing the delegate (top-level objects also to None), deleting local values (present or not); a case is "
                       "non-trivial if some step notified a handler or raised; distinct = distinct configuration+history")
    rnd = random.Random(ctx.seed)
    n, maxlen = (1200, 10) if ctx.tier == "quick" else (12000, 20)
    if ctx.replay:
        cases = [json.load(open(ctx.replay))["replay"]["case"]]
    else:
        cases = corpus() + [gen_case(rnd, ctx, maxlen) for _ in range(n)]
    for c in cases[:2] + cases[-2:]:
        ctx.sample(c)
    hist.run(ctx, "c11_driver.py", cases, to_term, HEADER, CASE_T, key_fn, describe, nontrivial,
             relation="C11.Corr.corr_codes (Model.step = deferred-trait machinery on every step)", shard=100)
    proof_gate(ctx, ok, log, PROPS)
