"""C16 — legacy on_trait_change extended names agree with observe on unshared (tree-shaped) graphs."""
import json
import random

from vlib import coqrun, hist
from vlib.ctx import proof_gate
from vlib.term import C, Nat

from props import c08

HEADER = ("From Coq Require Import ZArith List.\n"
          "From TV Require Import Common.Harness Common.ObsCore C08.Model C08.Law C16.Model C16.Law C16.Corr.")
CASE_T = "C16.Corr.case"
PROPS = ["C16/Props.v"]
CLAUSE = {1: "final-attribute-counts-differ", 2: "final-attribute-not-once-iff-reachable",
          3: "legacy-intermediate-report", 4: "observe-intermediate-report", 5: "call-while-unregistered",
          6: "event-identity", 7: "call-without-change"}
DRIVER = "c16_driver.py"
NAME = c08.FIELD


# ----------------------------------------------------------------------------------------
def link(f, n, cs):
    return [f, n, False, [[f + 3, n, False, cs]]] if 3 <= f <= 5 else [f, n, False, cs]


def l2g(items):
    """Python twin of C16.Model.legacy_to_graph (checked against it inside Coq, corr code 9).  An item may carry
    the legacy '?' suffix (optional): it becomes optional=True on the observe side and the optional flag of the
    specification graph (C16.Model.ename carries it)."""
    names, s = items[0][0], items[0][1]
    opt = len(items[0]) > 2 and bool(items[0][2])
    if len(items) == 1:
        return [[f, True, opt, []] for f in names]
    cs = l2g(items[1:])
    out = [link(f, s == ".", cs) for f in names]
    for g in out:
        g[2] = opt
    return out


META = {(0,): "mv", (1,): "mf", (0, 1): "mvf", (0, 2): "mvg", (1, 2): "mfg"}   # metadata name -> the traits carrying it


def legacy_text(items):
    out = ""
    for i, it in enumerate(items):
        names, s = it[0], it[1]
        if len(it) > 3 and it[3]:
            out += "+" + META[tuple(sorted(names))]      # '+metadata': every trait that has this metadata
            continue
        out += NAME[names[0]] if len(names) == 1 else "[%s]" % ",".join(NAME[f] for f in names)
        if len(it) > 2 and it[2]:
            out += "?"
        if i + 1 < len(items):
            out += s
    return out


def graw(g):
    f, notify, _o, children = g
    return C("G", [Nat(f)], bool(notify), not 6 <= f <= 8, bool(_o), [graw(c) for c in children])


def to_term(case, obs):
    h = []
    c08.undelta(obs)
    prev = {}
    for op, ob in zip(case["ops"], obs):
        out = C("Ok") if ob["out"] == "Ok" else C("Raise", C(ob["out"]))
        delta = []
        for key in sorted(ob["heap"], key=c08.slot):
            v = ob["heap"][key]
            if v != prev.get(key, []):
                x, f = c08.slot(key)
                delta.append((Nat(x), Nat(f), c08.nats(v)))
        prev = ob["heap"]
        if op[0] == "RegLazy":
            vals = [a[1] for a in op[3]] if op[2] == 4 else list(op[3])
            o = C("RegLazy", Nat(op[1]), Nat(op[2]), c08.nats(vals))
        else:
            o = C("Reg") if op[0] == "Reg" else C("Unreg") if op[0] == "Unreg" else C("Mut", c08.op_term(op))
        h.append((o, C("mkObs16", out, [(Nat(a), Nat(b)) for a, b in ob["ocalls"]],
                       [(Nat(a), Nat(b)) for a, b in ob["lcalls"]], delta)))
    en = [(c08.nats(it[0]), C("Dot" if it[1] == "." else "Colon"), len(it) > 2 and bool(it[2]))
          for it in case["items"]]
    return (Nat(case["npool"]), Nat(case["root"]), en, [graw(g) for g in case["graphs"]], h)


def opkind(op):
    return op[0] if op[0] in ("Reg", "Unreg", "RegLazy") else c08.opkind(op)


def key_fn(case, obs, step, clause):
    base = "%s/%s" % (CLAUSE.get(clause, clause), opkind(case["ops"][step]))
    return "%s/%s" % (case["name"], base) if case.get("name") else base


def describe(case, obs, step, clause):
    return ("legacy name %r vs observe: clause %s fails at step %d, op %r: observe calls %r, on_trait_change calls %r"
            % (case["legacy"], CLAUSE.get(clause, clause), step, case["ops"][step][:5], obs[step]["ocalls"],
               obs[step]["lcalls"]))


def nontrivial(case, obs):
    sig = repr((case["legacy"], [o[:5] for o in case["ops"]]))
    return sig, any(o["ocalls"] or o["lcalls"] for o in obs)


# ----------------------------------------------------------------------------------------
def gen_name(rnd, ctx):
    n = rnd.choice([1, 2, 2, 3, 3, 4])
    items = []
    for i in range(n - 1):
        if rnd.random() < 0.2:
            names = rnd.sample([1, 2, 3, 4, 5], 2)
        else:
            names = [rnd.choice([1, 1, 2, 3, 3, 4, 5])]
        item = [names, rnd.choice([".", ".", ":"])]
        if len(names) == 1 and rnd.random() < 0.3:
            item.append(True)           # the '?' suffix: child?.value / child?:value
        items.append(item)
    last = rnd.choice([[0], [0], [0], [0], [1], [2], [0, 1], [1, 2], [2, 0]])      # final attribute(s): Int / Instance
    if tuple(sorted(last)) in META and rnd.random() < 0.3:
        # the final component is written '+metadata': the traits carrying that metadata (some with the value False)
        items.append([last, ".", False, True])
        ctx.count("name:final-metadata-wildcard")
    else:
        items.append([last, "."])
    return items


def gen_case(rnd, ctx, maxmut):
    npool = 18
    items = gen_name(rnd, ctx)
    eqcls = rnd.random() < 0.25         # record-like objects: value-based __eq__; list items replaced by equal fresh ones
    dictkind = sorted(o for o in range(1, npool) if o % 3 == 1) if rnd.random() < 0.3 else []
    #                                     heterogeneous paths: on these holders the `kids` link is a Dict, not a List
    deferred = rnd.random() < 0.25      # on_trait_change(..., deferred=True): registered before anything is populated
    sh = c08.Shadow(npool)
    used = [0]
    attached = {0}
    ops = []

    def fresh():
        if len(used) >= npool:
            return None
        o = len(used)
        used.append(o)
        return o

    def add(op):
        ops.append(op)
        ctx.count("op:" + opkind(op))

    def subtree(o):
        out, st = [], [o]
        while st:
            x = st.pop()
            out.append(x)
            st += sh.succ(x)
        return out

    first_owner = {}      # container -> the object it was first stored on (Shadow.owner forgets it on detachment)

    def refresh():
        attached.clear()
        attached.update(subtree(0))
        for c, w in sh.owner.items():
            if w is not None:
                first_owner.setdefault(c, w)

    named = sorted(set(f for it in items[:-1] for f in it[0]) | (set(items[-1][0]) - {0}))

    # links that only occur with the quiet separator ':' (and not in the final item): replacing their value by an EQUAL
    # object is reported by neither API (both filter user notifications by equality), but must move the listeners
    quiet_links = set(f for it in items[:-1] for f in it[0] if f in (1, 2)) - set(items[-1][0]) - set(
        f for it in items[:-1] if it[1] != ":" for f in it[0])

    def prebuilt():
        """an object that ARRIVES with an already populated container: the container is filled while the object is
        detached, then the object is attached (by assignment or inside a new container)"""
        o = rnd.choice(sorted(attached))
        v = fresh()
        if v is None:
            return None
        out = []
        plan = [(f2, [fresh() for _ in range(rnd.randint(1, 2))])
                for f2 in sorted(set([pick([3, 4, 5])] + ([pick([3, 4, 5])] if rnd.random() < 0.3 else [])))]
        if any(None in vs for _f2, vs in plan):
            return None          # (the pool is used up: nothing has been recorded in the shadow heap yet)
        for f2, vs in plan:
            its = [[key, x] for key, x in zip(["a", "b"], vs)] if f2 == 4 else vs
            sh.new_cont(v, f2, [list(a) for a in its] if f2 == 4 else its)
            out.append(["SetCont", v, f2, its, False])
        if rnd.random() < 0.5:
            f1 = pick([1, 2])
            sh.ref[(o, f1)] = v
            out.append(["SetRef", o, f1, v])
        else:
            f1 = pick([3, 4, 5])
            its = [["a", v]] if f1 == 4 else [v]
            sh.new_cont(o, f1, [list(a) for a in its] if f1 == 4 else its)
            out.append(["SetCont", o, f1, its, False])
        ctx.count("op:prebuilt-subtree-attached")
        return out

    def pick(fields):
        pref = [f for f in fields if f in named]
        return rnd.choice(pref) if pref and rnd.random() < 0.75 else rnd.choice(fields)

    def mutation():
        pool = sorted(attached) if rnd.random() < 0.9 else list(used)
        o = rnd.choice(pool)
        r = rnd.random()
        want_ref = any(f in (1, 2) for f in named)
        want_cont = any(f in (3, 4, 5) for f in named)
        if r < (0.35 if want_ref else 0.12):
            if eqcls and quiet_links and rnd.random() < 0.5:
                cands = [(x, g) for x in pool for g in sorted(quiet_links) if sh.ref[(x, g)] is not None]
                v = fresh() if cands else None
                if v is not None:
                    o, f = rnd.choice(cands)
                    sh.ref[(o, f)] = v
                    ctx.count("op:SetRef-equal-fresh-object")
                    return ["SetRef", o, f, v, "eq"]
                if cands:
                    return None
            f = pick([1, 2])
            v = fresh() if rnd.random() < 0.75 else None
            if v is None and sh.ref[(o, f)] is None and rnd.random() < 0.7:
                return None
            was = sh.ref[(o, f)]
            sh.ref[(o, f)] = v
            if v is None and was is not None and rnd.random() < 0.35:
                return ["SetRef", o, f, None, "del"]            # del o.f: back to None, with notification
            if eqcls and v is not None and was is not None and f in quiet_links and rnd.random() < 0.7:
                ctx.count("op:SetRef-equal-fresh-object")
                return ["SetRef", o, f, v, "eq"]                # the fresh object compares EQUAL to the one it replaces
            return ["SetRef", o, f, v]
        if r < (0.35 if want_ref else 0.12) + (0.2 if want_cont else 0.06):
            f = pick([3, 4, 5])
            k = rnd.randint(1, 2)
            vs = [fresh() for _ in range(k)]
            if None in vs:
                return None
            items = [[key, v] for key, v in zip(["a", "b"], vs)] if f == 4 else vs
            sh.new_cont(o, f, [list(a) for a in items] if f == 4 else items)
            return ["SetCont", o, f, items, False]
        stale = [c for c in sh.items if sh.owner[c] is None and sh.kind[c] == 6 and c in first_owner
                 and first_owner[c] not in dictkind]
        if stale and rnd.random() < 0.25:
            # a list that has been REPLACED on its owner (a kept reference) gets a fresh object: nobody may follow it
            c = rnd.choice(stale)
            cur = sh.items[c]
            n = len(cur)
            v = fresh()
            if v is None:
                return None
            meth = rnd.choice(["append", "insert"] + (["setitem", "setitem"] if n else []))
            if meth == "append":
                sp, args = [n, 0, [v]], [v]
            elif meth == "insert":
                i = rnd.randint(0, n)
                sp, args = [i, 0, [v]], [i, v]
            else:
                i = rnd.randrange(n)
                sp, args = [i, 1, [v]], [i, v]
            i, k, vs = sp
            sh.items[c] = cur[:i] + list(vs) + cur[i + k:]
            ctx.count("op:insert-into-replaced-list")
            return ["Cop", c, 6, meth, args, sp]
        conts = [c for c in sh.items if sh.owner[c] is not None and sh.owner[c] in pool]
        if not conts:
            return None
        pref = [c for c in conts if sh.kind[c] - 3 in named]
        c = rnd.choice(pref) if pref and rnd.random() < 0.75 else rnd.choice(conts)
        kind, cur = sh.kind[c], sh.items[c]
        n = len(cur)
        if kind == 6:
            meth = rnd.choice(["append", "insert", "pop", "setitem", "delitem", "clear", "extend", "remove",
                               "reverse", "sort", "permute"])
            if sh.owner[c] in dictkind and meth in ("reverse", "sort", "permute"):
                meth = "append"          # this `kids` container is a dict: no reordering
            if eqcls and meth == "setitem" and sh.owner[c] not in dictkind and rnd.random() < 0.7:
                meth = "setitem_eq"      # kids[i] = a fresh object that compares equal to kids[i]
            if meth in ("reverse", "sort", "permute"):
                # in-place reorder: the same objects are removed and added by one mutation
                if n < 2:
                    return None
                if meth == "reverse":
                    new, args = cur[::-1], []
                elif meth == "sort":
                    new, args = sorted(cur), []
                    if new == cur:
                        return None
                else:
                    new = list(cur)
                    rnd.shuffle(new)
                    args = [0, n, new]
                    meth = "setslice"
                sp = [0, n, new]
            elif meth in ("append", "insert", "setitem", "setitem_eq", "extend"):
                v = fresh()
                if v is None:
                    return None
                if meth == "append":
                    sp, args = [n, 0, [v]], [v]
                elif meth == "insert":
                    i = rnd.randint(0, n)
                    sp, args = [i, 0, [v]], [i, v]
                elif meth == "extend":
                    sp, args = [n, 0, [v]], [[v]]
                else:
                    if not n:
                        used.pop()
                        return None
                    i = rnd.randrange(n)
                    sp, args = [i, 1, [v]], [i, v]
            elif meth in ("pop", "delitem"):
                if not n:
                    return None
                i = rnd.randrange(n)
                sp, args = [i, 1, []], [i]
            elif meth == "clear":
                if not n:
                    return None
                sp, args = [0, n, []], []
            else:
                if not n:
                    return None
                x = rnd.choice(cur)
                sp, args = [cur.index(x), 1, []], [x]
            i, k, vs = sp
            sh.items[c] = cur[:i] + list(vs) + cur[i + k:]
        elif kind == 7:
            meth = rnd.choice(["setitem", "setitem", "delitem", "clear", "update2"])
            keys = [a[0] for a in cur]
            if meth == "update2":
                # one update() that replaces the value of the last key and adds a new key
                free = [k for k in ("a", "b", "c", "d") if k not in keys]
                if not n or not free:
                    return None
                v, v2 = fresh(), fresh()
                if v is None or v2 is None:
                    return None
                sp = [n - 1, 1, [v, v2]]
                args = [keys[-1], v, free[0], v2]
                cur[-1] = [keys[-1], v]
                cur.append([free[0], v2])
            elif meth == "setitem":
                v = fresh()
                if v is None:
                    return None
                key = rnd.choice(["a", "b", "c"])
                if key in keys:
                    i = keys.index(key)
                    sp = [i, 1, [v]]
                    cur[i] = [key, v]
                else:
                    sp = [n, 0, [v]]
                    cur.append([key, v])
                args = [key, v]
            elif meth == "delitem":
                if not n:
                    return None
                i = rnd.randrange(n)
                sp, args = [i, 1, []], [keys[i]]
                del cur[i]
            else:
                if not n:
                    return None
                sp, args = [0, n, []], []
                del cur[:]
        else:
            meth = rnd.choice(["add", "add", "remove", "discard", "clear"])
            if meth == "add":
                v = fresh()
                if v is None:
                    return None
                sp, args = [n, 0, [v]], [v]
                cur.append(v)
            elif meth in ("remove", "discard"):
                if not n:
                    return None
                x = rnd.choice(cur)
                sp, args = [cur.index(x), 1, []], [x]
                cur.remove(x)
            else:
                if not n:
                    return None
                sp, args = [0, n, []], []
                del cur[:]
        return ["Cop", c, kind, meth, args, sp]

    def probes():
        for o in used:
            ops.append(["Probe", o])
        ctx.count("op:Probe", len(used))

    ctor = 0
    first = items[0]
    lazy = (not deferred and len(items) >= 2 and len(first[0]) == 1 and first[0][0] in (3, 4, 5)
            and not any(f in (3, 4, 5) for it in items[1:] for f in it[0]) and rnd.random() < 0.6)
    if lazy:
        # the first link is a container whose default (a _name_default method) has content and has not been read
        # when the handlers are registered: the legacy registration reads (materialises) it
        f0 = first[0][0]
        vs = [fresh() for _ in range(rnd.randint(1, 2))]
        its = [[key, v] for key, v in zip(["a", "b"], vs)] if f0 == 4 else vs
        sh.new_cont(0, f0, [list(a) for a in its] if f0 == 4 else list(its))
        add(["RegLazy", 0, f0, its])
        if rnd.random() < 0.4:
            # the handlers are decorated methods (the decorator registers the legacy one with deferred=True) and the
            # default is first read inside construction, in traits_init; 1 / 2: @observe(post_init=False / True)
            ctor = rnd.choice([1, 2])
            ctx.count("registration:decorators-default-read-in-traits_init")
        refresh()
        probes()
        add(["TouchItems", 0, f0, its])       # reading the trait now changes nothing
        probes()
        ctx.count("registration:lazy-default")
    if deferred:
        add(["Reg"])
        if (len(items) >= 2 and len(first[0]) == 1 and first[0][0] in (3, 4, 5)     # Dict links too (finding deferred-lazy-dict-default, fixed in 9ec28e7)
                and not any(f in (3, 4, 5) for it in items[1:] for f in it[0]) and rnd.random() < 0.5):
            # deferred registration, then the first (container) link's default WITH content is created by the first
            # read: the notification old = Uninitialized must hook the items
            lazy = True
            f0 = first[0][0]
            vs = [fresh() for _ in range(rnd.randint(1, 2))]
            its = [[key, v] for key, v in zip(["a", "b"], vs)] if f0 == 4 else vs
            probes()
            sh.new_cont(0, f0, [list(a) for a in its] if f0 == 4 else list(its))
            add(["TouchItems", 0, f0, its])
            refresh()
            probes()
            ctx.count("registration:deferred-then-lazy-default")
    # a path along the name (most of the time), so that the walk reaches the final attribute
    if not lazy and rnd.random() < 0.75:
        frontier = [0]
        for names in (it[0] for it in items[:-1]):
            nxt = []
            for o in frontier[:2]:
                for f in names:
                    if rnd.random() < 0.15:
                        continue
                    if f in (1, 2):
                        v = fresh()
                        if v is None:
                            continue
                        sh.ref[(o, f)] = v
                        add(["SetRef", o, f, v])
                        nxt.append(v)
                    else:
                        vs = [fresh() for _ in range(rnd.randint(1, 2))]
                        if None in vs:
                            continue
                        its = [[key, v] for key, v in zip(["a", "b"], vs)] if f == 4 else vs
                        sh.new_cont(o, f, [list(a) for a in its] if f == 4 else its)
                        add(["SetCont", o, f, its, False])
                        nxt += vs
            frontier = nxt
        refresh()
    # grow a tree that the name can walk into: prefer the fields the name mentions
    for _ in range(rnd.randint(0, 5)):
        m = mutation()
        if m:
            add(m)
            refresh()
    if not deferred and not lazy:
        add(["Reg"])
    probes()
    registered = True
    for _ in range(rnd.randint(1, maxmut)):
        if registered and rnd.random() < (0.15 if deferred else 0.06):
            add(["Unreg"])
            registered = False
            probes()
            continue
        if len(items) >= 3 and rnd.random() < (0.35 if deferred else 0.12):
            ms = prebuilt()
            if ms:
                for m in ms:
                    add(m)
                refresh()
                probes()
                continue
        m = None
        for _ in range(5):
            m = mutation()
            if m:
                break
        if m:
            add(m)
            refresh()
            probes()
    ctx.count("name:%d-items%s" % (len(items), "/bracket" if any(len(it[0]) > 1 for it in items) else ""))
    if any(len(it) > 2 and it[2] for it in items):
        ctx.count("name:with-optional-suffix")
    ctx.count("name-final:" + ",".join(NAME[f] for f in items[-1][0]))
    ctx.count("history-length:%03d" % (10 * (len(ops) // 10)))
    if deferred:
        ctx.count("registration:deferred")
    reentrant = None
    if not ctor and rnd.random() < 0.3:
        # a second legacy registration for the same name, removed by the first handler while a notification
        # round for the final attribute is in progress (armed at these Probe steps, fires at the first call)
        reg_at = next(i for i, o in enumerate(ops) if o[0] in ("Reg", "RegLazy"))
        probes_at = [i for i, o in enumerate(ops) if o[0] == "Probe" and i > reg_at]
        if probes_at:
            start = rnd.randrange(len(probes_at))
            reentrant = probes_at[start:]
            ctx.count("registration:reentrant-removal")
    falsy = rnd.random() < 0.3           # pool objects with __len__: falsy while their kids list is empty
    if falsy:
        ctx.count("pool:falsy-objects")
    if eqcls:
        ctx.count("pool:value-equality")
    if dictkind:
        ctx.count("pool:heterogeneous-kids")
    return dict(npool=npool, root=0, items=items, legacy=legacy_text(items), graphs=l2g(items), ops=ops,
                deferred=deferred, falsy=falsy, reentrant=reentrant, eqcls=eqcls, dictkind=dictkind, ctor=ctor)


def corpus():
    cs = []
    for text_items in ([[[1], "."], [[0], "."]], [[[1], ":"], [[0], "."]], [[[3], "."], [[0], "."]],
                       [[[3], ":"], [[0], "."]], [[[1, 2], "."], [[0], "."]], [[[4], "."], [[1], ":"], [[0], "."]],
                       [[[5], "."], [[0], "."]]):
        ops = [["SetRef", 0, 1, 1], ["SetRef", 0, 2, 2], ["SetCont", 0, 3, [3, 4], False],
               ["SetCont", 0, 4, [["a", 5]], False], ["SetCont", 0, 5, [6], False], ["SetRef", 5, 1, 7], ["Reg"]]
        ops += [["Probe", o] for o in range(8)]
        ops += [["SetRef", 0, 1, 8]] + [["Probe", o] for o in range(9)]
        ops += [["SetCont", 0, 3, [9], False]] + [["Probe", o] for o in range(10)]
        ops += [["Cop", 19, 7, "setitem", ["a", 10], [0, 1, [10]]]] + [["Probe", o] for o in range(11)]
        ops += [["Unreg"]] + [["Probe", o] for o in range(11)] + [["SetRef", 0, 1, 11], ["Probe", 11]]
        cs.append(dict(npool=18, root=0, items=text_items, legacy=legacy_text(text_items), graphs=l2g(text_items),
                       ops=ops))
    # former finding (fixed in /repo 9ec28e7; the case keeps its name, so a regression is reported under the old keys):
    # a DEFERRED registration through a Dict link whose default (a _name_default method) has content and is created
    # by a later read; ListenerItem._register_dict used to install its re-hooking handlers with dispatch=self.dispatch,
    # whose wrapper drops notifications with old = Uninitialized, so the values of the new dict were never hooked
    it = [[[4], "."], [[0], "."]]
    cs.append(dict(npool=18, root=0, items=it, legacy=legacy_text(it), graphs=l2g(it), deferred=True,
                   name="deferred-lazy-dict-default",
                   ops=[["Reg"], ["Probe", 1], ["TouchItems", 0, 4, [["a", 1]]], ["Probe", 1]]))
    # fourth wave, pinned: a DEFERRED registration through a List / Set link whose default has content and is
    # created by a later read (List, Dict and Set alike)
    for f in (3, 4, 5):
        it = [[[f], "."], [[0], "."]]
        cs.append(dict(npool=18, root=0, items=it, legacy=legacy_text(it), graphs=l2g(it), deferred=True,
                       ops=[["Reg"], ["Probe", 1], ["TouchItems", 0, f, [["a", 1], ["b", 2]] if f == 4 else [1, 2]],
                            ["Probe", 1], ["Probe", 2],
                            ["Unreg"], ["Probe", 1], ["Probe", 2]]))
    # record-like objects with a value-based __eq__: kids[0] = a fresh object EQUAL to the one it replaces
    it = [[[3], "."], [[0], "."]]
    cs.append(dict(npool=18, root=0, items=it, legacy=legacy_text(it), graphs=l2g(it), eqcls=True,
                   ops=[["SetCont", 0, 3, [1, 2], False], ["Reg"], ["Probe", 1], ["Probe", 2],
                        ["Cop", 18, 6, "setitem_eq", [0, 3], [0, 1, [3]]], ["Probe", 1], ["Probe", 2], ["Probe", 3],
                        ["Unreg"], ["Probe", 2], ["Probe", 3]]))
    # heterogeneous path: the holder at f is first one whose kids is a List, then one whose kids is a Dict
    it = [[[1], "."], [[3], "."], [[0], "."]]
    cs.append(dict(npool=18, root=0, items=it, legacy=legacy_text(it), graphs=l2g(it), dictkind=[1, 4],
                   ops=[["SetCont", 2, 3, [3], False], ["SetCont", 1, 3, [5], False], ["SetRef", 0, 1, 2], ["Reg"],
                        ["Probe", 3], ["Probe", 5], ["SetRef", 0, 1, 1], ["Probe", 3], ["Probe", 5],
                        ["Cop", 19, 6, "append", [6], [1, 0, [6]]], ["Probe", 5], ["Probe", 6],
                        ["SetRef", 0, 1, 2], ["Probe", 3], ["Probe", 5], ["Probe", 6]]))
    # fifth wave, pinned: a DEFERRED registration (what the decorator uses) with a container link below the first
    # link; the intermediate object arrives with its container already populated
    for it in ([[[3], ":"], [[3], ":"], [[0], "."]], [[[1], "."], [[3], "."], [[0], "."]],
               [[[3], "."], [[4], "."], [[0], "."]], [[[1], ":"], [[5], ":"], [[0], "."]]):
        f1, f2 = it[0][0][0], it[1][0][0]
        inner = [["a", 2], ["b", 3]] if f2 == 4 else [2, 3]
        attach = ["SetRef", 0, 1, 1] if f1 == 1 else ["SetCont", 0, f1, [1], False]
        cs.append(dict(npool=18, root=0, items=it, legacy=legacy_text(it), graphs=l2g(it), deferred=True,
                       ops=[["Reg"], ["SetCont", 1, f2, inner, False], attach, ["Probe", 1], ["Probe", 2], ["Probe", 3],
                            ["Unreg"], ["Probe", 2], ["Probe", 3]]))
    # link objects with a value-based __eq__: the (quiet) link is replaced by an EQUAL fresh object
    for it in ([[[1], ":"], [[0], "."]], [[[1], ":"], [[2], ":"], [[0], "."]]):
        cs.append(dict(npool=18, root=0, items=it, legacy=legacy_text(it), graphs=l2g(it), eqcls=True,
                       ops=[["SetRef", 0, 1, 1], ["SetRef", 1, 2, 2], ["Reg"], ["Probe", 1], ["Probe", 2],
                            ["SetRef", 0, 1, 3, "eq"], ["SetRef", 3, 2, 4], ["Probe", 1], ["Probe", 2], ["Probe", 3],
                            ["Probe", 4], ["SetRef", 3, 2, 5, "eq"], ["Probe", 4], ["Probe", 5],
                            ["Unreg"], ["Probe", 3], ["Probe", 5]]))
    # sixth wave, pinned: decorated handlers (deferred) and a container default with content first read INSIDE
    # construction (traits_init); both handlers must follow the default's items
    for f, ctor in ((3, 1), (4, 2), (5, 2)):
        it = [[[f], "."], [[0], "."]]
        its = [["a", 1], ["b", 2]] if f == 4 else [1, 2]
        cs.append(dict(npool=18, root=0, items=it, legacy=legacy_text(it), graphs=l2g(it), ctor=ctor,
                       ops=[["RegLazy", 0, f, its], ["Probe", 1], ["Probe", 2], ["TouchItems", 0, f, its], ["Probe", 1],
                            ["Unreg"], ["Probe", 1], ["Probe", 2]]))
    # a '+metadata' final component whose matching traits carry the value False (value) and True (g)
    for it in ([[[1], ":"], [[0], ".", False, True]], [[[3], "."], [[0, 2], ".", False, True]]):
        attach = ["SetRef", 0, 1, 1] if it[0][0] == [1] else ["SetCont", 0, 3, [1], False]
        cs.append(dict(npool=18, root=0, items=it, legacy=legacy_text(it), graphs=l2g(it),
                       ops=[attach, ["Reg"], ["Probe", 1], ["SetRef", 1, 2, 2], ["Probe", 1], ["Probe", 2],
                            ["Unreg"], ["Probe", 1]]))
    # seventh wave, pinned: the list of a List link is replaced, then the REPLACED list (a kept reference) is mutated;
    # the objects inserted into it are not reachable along the name
    for it in ([[[3], "."], [[0], "."]], [[[1], ":"], [[3], "."], [[0], "."]]):
        o = 0 if len(it) == 2 else 1
        pre = [] if o == 0 else [["SetRef", 0, 1, 1]]
        cs.append(dict(npool=18, root=0, items=it, legacy=legacy_text(it), graphs=l2g(it),
                       ops=pre + [["SetCont", o, 3, [2], False], ["Reg"], ["Probe", 2], ["SetCont", o, 3, [3], False],
                                  ["Probe", 2], ["Probe", 3], ["Cop", 18, 6, "append", [4], [1, 0, [4]]], ["Probe", 4],
                                  ["Probe", 3], ["Cop", 18, 6, "setitem", [0, 5], [0, 1, [5]]], ["Probe", 5], ["Probe", 2],
                                  ["Unreg"], ["Probe", 3], ["Probe", 4]]))
    return cs


def check_hyps(ctx, cases):
    """The hypotheses of the C08 theorems (Model.hyps) on the model run of every tree-shaped history."""
    terms = []
    for c in cases:
        ops = []
        for op in c["ops"]:
            if op[0] == "RegLazy":
                vals = [a[1] for a in op[3]] if op[2] == 4 else list(op[3])
                ops.append(C("TouchItems", Nat(op[1]), Nat(op[2]), c08.nats(vals)))
            if op[0] in ("Reg", "Unreg", "RegLazy"):
                ops += [C("Unobserve" if op[0] == "Unreg" else "Observe", Nat(0), Nat(c["root"]), graw(g))
                        for g in c["graphs"]]
            else:
                ops.append(c08.op_term(op))
        terms.append((Nat(c["npool"]), ops))
    name = ("hypotheses of the C08 theorems (Model.hyps: edge-acyclic, fresh containers, live registrations) hold on "
            "every generated tree-shaped history, as tree_shaped_edge_acyclic predicts")
    try:
        (res,) = coqrun.eval_cases(ctx.scratch, "hyps", c08.HEADER, "(nat * list C08.Model.op)%type", terms, ["hyp_codes"])
    except coqrun.CoqError as e:
        ctx.obligation(name, False, str(e)[-300:])
        return
    bad = sorted(set(i for i, _ in res))
    ctx.obligation(name, not bad, "hyps = true on %d of %d histories" % (len(cases) - len(bad), len(cases)))
    if bad:
        ctx.notes.append("hyps false on case %d: %r" % (bad[0], cases[bad[0]]["ops"]))


def check_reentrant(ctx, cases):
    """Re-entrant removal (C16.Law.reent_codes): a handler removed during a notification round is not called in
    that round nor later; until then both legacy registrations are called alike."""
    sub = [c for c in cases if c.get("reentrant")]
    name = "re-entrant removal of a second legacy registration (C16.Law.reent_codes) on %d histories" % len(sub)
    if not sub:
        return
    rc, obs, err = ctx.run_driver(DRIVER, sub)
    if rc != 0 or obs is None or len(obs) != len(sub):
        ctx.obligation(name, False, "driver failed: " + err[-300:])
        ctx.fail("harness/reentrant", "re-entrant histories could not be run: " + err[-300:], dict(error=err[-1500:]),
                 no_input=True)
        return
    terms = [[(bool(o["second"][0]), Nat(o["second"][1]), Nat(o["second"][2])) for o in ob] for ob in obs]
    try:
        (res,) = coqrun.eval_cases(ctx.scratch, "reent", HEADER, "list (bool * nat * nat)", terms, ["reent_codes"])
    except coqrun.CoqError as e:
        ctx.obligation(name, False, str(e)[-300:])
        ctx.fail("harness/reentrant", "re-entrant histories could not be evaluated: %s" % e, dict(error=e.log[-1500:]),
                 no_input=True)
        return
    seen = set()
    fired = sum(1 for ob in obs if any(o["second"][0] and o["second"][2] for o in ob))
    for i, code in sorted(res):
        step, clause = code // 100, code % 100
        key = "reentrant/%s/%s" % ({8: "called-after-removal", 9: "registrations-differ"}.get(clause, clause),
                                    opkind(sub[i]["ops"][step]))
        if key in seen:
            continue
        seen.add(key)
        case = dict(sub[i])
        case["ops"] = case["ops"][:step + 1]
        ctx.fail(key, "legacy name %r: second handler removed by the first during a notification: step %d op %r: "
                      "(removed, calls of the second, calls of the first) = %r" % (
                          sub[i]["legacy"], step, sub[i]["ops"][step][:4], obs[i][step]["second"]),
                 dict(kind="law-failure-on-implementation", clause=clause, step=step, case=case,
                      impl_obs=obs[i][:step + 1]))
    ctx.obligation(name, not res, "%d histories, removal fired in %d, %d failures" % (len(sub), fired, len(set(i for i, _ in res))))


def run(ctx):
    ok, log = ctx.proofs(PROPS)
    ctx.cov["trusted_base"] += [
        "tools/drivers/c16_driver.py + c08_driver.py (both registrations on the same objects, recording handlers, "
        "atom mapping) and tools/props/c16.py (generator of names and tree-shaped histories; the Python twin of "
        "legacy_to_graph is checked against the Coq definition inside Coq for every case)",
        "modelled, not verified: the legacy listener algorithm of traits_listener.py is tied by correspondence only "
        "(there is no step model of it); the theorems are about the specification legacy_to_graph + reachability "
        "and its agreement with the C08 observe model",
    ]
    ctx.cov["rule"] = ("extended names of the common fragment (1-4 items, '.'/':' separators, [a,b] groups, list / dict / "
                       "set links, final attribute an Int or Instance trait) x histories on tree-shaped object graphs "
                       "(a fresh object at every insertion; re-assignment of intermediate traits and whole containers, "
                       "all list/dict/set mutators, removal of the registration, operations on detached subtrees); both "
                       "APIs registered on the same root with identical histories, every object ever used is probed "
                       "after every mutation; non-trivial = some call observed through either API")
    rnd = random.Random(ctx.seed)
    n, maxmut = (300, 7) if ctx.tier == "quick" else (6000, 12)
    if ctx.replay:
        cases = [json.load(open(ctx.replay))["replay"]["case"]]
    else:
        cases = corpus() + [gen_case(rnd, ctx, maxmut) for _ in range(n)]
    for c in cases[:2] + cases[-2:]:
        ctx.sample(c)
    hist.run(ctx, DRIVER, cases, to_term, HEADER, CASE_T, key_fn, describe, nontrivial,
             relation="C16.Corr.corr_codes (legacy_to_graph twin; C08 model = observe() calls on every step)",
             do_shrink=False)
    c08.truncate_replays(ctx)
    if not ctx.replay:
        check_hyps(ctx, cases)
    check_reentrant(ctx, cases)
    proof_gate(ctx, ok, log, PROPS)
