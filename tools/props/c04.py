"""C04 — containers stored in List / Dict / Set traits never hold an invalid element or an illegal length."""
import json
import random

from vlib import coqrun, hist
from vlib.ctx import proof_gate
from vlib.term import C, Nat, Raw, opt

from props import c05

IMPORTS = ("From Coq Require Import ZArith List String.\n"
           "From TV Require Import Common.PySlice Common.PyList Common.LSet Common.LMap Common.Harness "
           "C05.Normalize C05.Model C05.Law C05.Corr C04.Model C04.Law C04.Corr C04.Deep.\n")
PROPS = ["C04/Props.v", "C04/DeepProps.v"]
DRIVER = "c04_driver.py"
CLAUSE = {1: "invalid-element-stored", 2: "illegal-length", 3: "trait-error-not-inert", 4: "builtin-error-not-inert",
          5: "rejected-value-not-refused", 6: "start-value-violates-invariant"}
KINDS = {
    "list": ("corr_list", "law_list", "C04.Corr.lcase"),
    "set": ("corr_set", "law_set", "C04.Corr.scase"),
    "dict": ("corr_dict", "law_dict", "C04.Corr.dcase"),
    "nested": ("corr_nested", "law_nested", "C04.Corr.ncase"),
    "ndict": ("corr_ndict", "law_ndict", "C04.Corr.ndcase"),
    "deep": ("corr_deep", "law_deep", "C04.Deep.dpcase"),
    "default": ("corr_default", "law_default", "C04.Corr.dfl"),
}
BOUNDS = [(0, None), (0, None), (0, 0), (0, 1), (0, 2), (0, 3), (1, None), (1, 1), (1, 2), (1, 3), (2, None), (2, 2),
          (2, 3), (3, None), (3, 3), (0, 5), (2, 6)]


def vp(x):
    """what a value is after a pickle round trip: the same values, new objects (identity atoms become value atoms)"""
    if isinstance(x, list):
        return [vp(y) for y in x]
    if isinstance(x, dict):
        return {"d": [[vp(k), vp(v)] for k, v in x["d"]]}
    return x % 1000 if isinstance(x, int) and x >= 1000 else x


REPICKLE = 0.05        # probability of "the owner object goes through pickle.dumps / pickle.loads" per operation


def gen_source(rnd):
    """how the assigned value is built: a plain container, or an ownerless trait container of the same trait"""
    return rnd.choice(["plain", "plain", "plain", "plain", "deepcopy", "deepcopy", "orphan", "copy", "pickle", "self"])


def header(kind):
    corr, law, _ = KINDS[kind]
    return IMPORTS + "Definition corr_codes := %s.\nDefinition law_codes := %s." % (corr, law)


def out_l(o):
    return C("Ok", Raw("tt")) if o == "Ok" else C("Raise", C(o if o in ("IndexError", "ValueError", "TraitError",
                                                                         "TypeError", "OverflowError") else "OtherError"))


def out_q(mod, o, names):
    return C(mod + ".Ok") if o == "Ok" else C(mod + ".Raise", C(mod + "." + (o if o in names else "OtherError")))


# ---------------------------------------------------------------- list
def list_term(case, obs):
    h = []
    prev = list(case["init"])
    for op, ob in zip(case["ops"], obs):
        if op[0] == "Assign":
            # source "self": the value assigned is the trait's own current value
            src = op[3] if len(op) > 3 else "plain"
            t = C("LAssign", bool(op[1]), list(prev if src == "self" else vp(prev) if src == "repickle" else op[2]))
        else:
            t = C("LOp", c05.op_term(op, prev))
        prev = list(ob["after"])
        h.append((t, c05.obs_term(dict(ob, out=ob["out"] if ob["out"] in ("Ok", "IndexError", "ValueError",
                                                                          "TraitError", "TypeError", "OverflowError") else "OtherError"))))
    return (C(case["vk"]), case["minlen"], opt(case["maxlen"]), list(case["init"]), h)


def gen_list(rnd, ctx, maxops, maxinit):
    bounds = rnd.choice(BOUNDS)
    case = c05.gen_case(rnd, ctx, maxops, maxinit, target="obj", bounds=bounds)
    # sprinkle whole-value assignments
    ops = []
    for op in case["ops"]:
        if rnd.random() < REPICKLE:
            ops.append(["Assign", True, None, "repickle"])
            ctx.count("op:list.Assign-repickle")
        if rnd.random() < 0.12:
            n = rnd.choice([0, 1, 2, 3, 4, bounds[0], (bounds[1] or 0) + 1])
            src = gen_source(rnd)
            a = ["Assign", src != "plain" or rnd.random() < 0.85, c05.gen_items(rnd, case["vk"], n, []), src]
            ops.append(a)
            ctx.count("op:list.Assign-" + src)
        ops.append(op)
    case.update(kind="list", ops=ops)
    if rnd.random() < 0.25:
        case["init_mode"] = "default"           # start from the declared default instead of an assigned value
        ctx.count("init:list.default")
    ctx.count("bounds:%s..%s" % bounds)
    return case


# ---------------------------------------------------------------- set
SEXN = ("KeyError", "TraitError", "TypeError", "AttributeError")


def sop_term(op, ob, prev=None):
    k = op[0]
    if k == "Assign":
        return C("SAssign", bool(op[1]), list(prev if (len(op) > 3 and op[3] in ("self", "repickle")) else op[2]))
    if k in ("Add", "Discard", "Remove"):
        t = C("S." + k, op[1])
    elif k == "Pop":
        t = C("S.Pop", opt(ob["ret"]))
    elif k == "Clear":
        t = C("S.Clear")
    elif k in ("Update", "DiffUpdate", "InterUpdate"):
        t = C("S." + k, [list(l) for l in op[1]])
    elif k in ("Ior", "Iand", "Isub", "Ixor"):
        t = C("S." + k, C("S.ASet" if op[1] in ("set", "frozenset") else "S.AList", list(op[2])))
    elif k == "SymDiffUpdate":
        t = C("S.SymDiffUpdate", list(op[1]))
    else:
        raise ValueError(op)
    return C("SOp", t)


def set_term(case, obs):
    h = []
    prev = list(case["init"])
    for op, ob in zip(case["ops"], obs):
        h.append((sop_term(op, ob, prev), (out_q("S", ob["out"], SEXN), list(ob["after"]), Nat(ob["nev"]), opt(ob["ret"]))))
        prev = list(ob["after"])
    return (C(case["vk"]), list(case["init"]), h)


def gen_set(rnd, ctx, maxops):
    vk = rnd.choice(["VAll", "VInt", "VCInt", "VCInt", "VInc"])
    valid = list(range(1, 7)) + ([101, 103, 200, 201] if vk == "VAll" else [])
    init = rnd.sample(valid, rnd.randint(0, min(5, len(valid))))
    universe = list(range(7)) + [100, 101, 102, 103, 104, 105, 200, 201, 202]

    def items(n=None):
        n = rnd.randint(0, 4) if n is None else n
        pool = universe[:7] if rnd.random() < 0.6 else universe
        return [rnd.choice(pool) for _ in range(n)]

    ops = []
    for _ in range(rnd.randint(1, maxops)):
        if rnd.random() < REPICKLE:
            ops.append(["Assign", True, None, "repickle"])
        k = rnd.choice(["Add", "Add", "Discard", "Remove", "Pop", "Clear", "Update", "Update", "Ior", "Iand", "Isub",
                        "Ixor", "Ixor", "DiffUpdate", "InterUpdate", "SymDiffUpdate", "SymDiffUpdate", "Assign"])
        if k in ("Add", "Discard", "Remove"):
            op = [k, items(1)[0]]
        elif k in ("Pop", "Clear"):
            op = [k]
        elif k in ("Update", "DiffUpdate", "InterUpdate"):
            op = [k, [items() for _ in range(rnd.randint(0 if k != "InterUpdate" else 1, 3))]]
            if k == "Update" and rnd.random() < 0.2:
                op.append("loose")
        elif k in ("Ior", "Iand", "Isub", "Ixor"):
            op = [k, rnd.choice(["set", "set", "set", "frozenset", "list"]), items()]
            if op[1] == "set" and rnd.random() < 0.2:
                op.append("loose")
        elif k == "SymDiffUpdate":
            op = [k, items()]
        else:
            src = gen_source(rnd)
            op = ["Assign", src != "plain" or rnd.random() < 0.85, items(), src]
        ops.append(op)
        ctx.count("op:set." + k)
    case = dict(kind="set", vk=vk, init=init, ops=ops)
    if rnd.random() < 0.25:
        case["init_mode"] = "default"
    return case


# ---------------------------------------------------------------- dict
DEXN = ("KeyError", "TraitError", "TypeError", "ValueError")


def dop_term(op, prev=None):
    k = op[0]
    ps = lambda l: [(a, b) for a, b in l]  # noqa
    if k == "Assign":
        return C("DAssign", bool(op[1]), ps(prev if (len(op) > 3 and op[3] in ("self", "repickle")) else op[2]))
    if k == "UpdateKw":
        return C("DUpdateKw", ps(op[1] or []), ps(op[2]))
    if k == "SetItem":
        t = C("D.SetItem", op[1], op[2])
    elif k == "DelItem":
        t = C("D.DelItem", op[1])
    elif k in ("Update", "Ior"):
        t = C("D." + k, bool(op[1]), ps(op[2]))
    elif k == "SetDefault":
        t = C("D.SetDefault", op[1], op[2])
    elif k == "Pop":
        t = C("D.Pop", op[1], opt(op[2]))
    elif k in ("PopItem", "Clear"):
        t = C("D." + k)
    else:
        raise ValueError(op)
    return C("DOp", t)


def dict_term(case, obs):
    h = []
    prev = [list(p) for p in case["init"]]
    for op, ob in zip(case["ops"], obs):
        h.append((dop_term(op, prev), (out_q("D", ob["out"], DEXN), [(a, b) for a, b in ob["after"]], Nat(ob["nev"]))))
        prev = [list(p) for p in ob["after"]]
    return (C(case["kk"]), C(case["vk"]), [(a, b) for a, b in case["init"]], h)


def gen_dict(rnd, ctx, maxops):
    kk = rnd.choice(["VAll", "VInt", "VCInt", "VCInt", "VInc"])
    vk = rnd.choice(["VAll", "VInt", "VCInt", "VInc"])
    keys = list(range(1, 6))
    init = [[k, rnd.randint(1, 9)] for k in rnd.sample(keys, rnd.randint(0, 4))]
    uni = list(range(6)) + [100, 101, 102, 103, 200, 201, 202]

    def key():
        return rnd.choice(uni[:6] if rnd.random() < 0.65 else uni)

    def value():
        return rnd.choice(list(range(10)) if rnd.random() < 0.7 else [100, 105, 109, 200, 201, 202])

    def pairs():
        return [[key(), value()] for _ in range(rnd.randint(0, 4))]

    ops = []
    for _ in range(rnd.randint(1, maxops)):
        if rnd.random() < REPICKLE:
            ops.append(["Assign", True, None, "repickle"])
        k = rnd.choice(["SetItem", "SetItem", "SetItem", "DelItem", "Update", "Update", "Ior", "SetDefault",
                        "SetDefault", "Pop", "Pop", "PopItem", "Clear", "Assign", "UpdateKw"])
        if k == "SetItem":
            op = [k, key(), value()]
        elif k == "DelItem":
            op = [k, key()]
        elif k == "UpdateKw":
            # the plain-dict idiom d.update(name=value): keyword names are the str atoms; TraitDict.update takes one
            # positional argument only, so this is a TypeError that must leave the dict alone
            kw = [[100 + j, value()] for j in rnd.sample(range(0, 6), rnd.randint(1, 2))]
            op = [k, None if rnd.random() < 0.6 else pairs(), kw]
        elif k in ("Update", "Ior"):
            op = [k, rnd.random() < 0.5, pairs()]
            if op[1] and rnd.random() < 0.25:
                op.append("loose")
        elif k == "SetDefault":
            op = [k, key(), value()]
        elif k == "Pop":
            d = None if rnd.random() < 0.5 else value()
            op = [k, key(), 200 if d == 202 else d]     # Undefined is pop()'s own "no default" sentinel
        elif k in ("PopItem", "Clear"):
            op = [k]
        else:
            src = gen_source(rnd)
            op = ["Assign", src != "plain" or rnd.random() < 0.85, pairs(), src]
        ops.append(op)
        ctx.count("op:dict." + k)
    case = dict(kind="dict", kk=kk, vk=vk, init=init, ops=ops)
    if rnd.random() < 0.25:
        case["init_mode"] = "default"
    return case


# ---------------------------------------------------------------- List(List(T))
def raw_term(r):
    if r is None or isinstance(r, str):       # not a list: an arbitrary object, a Cell instance, None
        return C("RBad")
    return C("RList", list(r["loose"] if isinstance(r, dict) else r))


def maybe_loose(rnd, v):
    """sometimes offer the list as an ownerless trait list of the inner trait instead of a plain list"""
    return {"loose": v} if (v is not None and rnd.random() < 0.2) else v


def nop_term(op, prev=None):
    k = op[0]
    if k == "NAssign" and op[-1] == "repickle":
        return C(k, opt([C("RList", list(r)) for r in vp(prev)]))
    if k in ("NAppend",):
        return C(k, raw_term(op[1]))
    if k == "NExtend":
        return C(k, [raw_term(r) for r in op[1]])
    if k in ("NInsert", "NSetInt"):
        return C(k, op[1], raw_term(op[2]))
    if k == "NSetSlice":
        return C(k, c05.sl_term(op[1]), [raw_term(r) for r in op[2]])
    if k == "NDelInt":
        return C(k, op[1])
    if k == "NDelSlice":
        return C(k, c05.sl_term(op[1]))
    if k == "NPop":
        return C(k, opt(op[1]))
    if k in ("NReverse", "NClear"):
        return C(k)
    if k == "NAssign":
        return C(k, opt(None if op[1] is None else [raw_term(r) for r in op[1]]))
    if k == "NInner":
        return C(k, Nat(op[1]), c05.op_term(op[2]))
    raise ValueError(op)


def nested_term(case, obs):
    h, prev = [], [list(i) for i in case["init"]]
    for op, ob in zip(case["ops"], obs):
        h.append((nop_term(op, prev), C("mkN", out_l(ob["out"]), [list(i) for i in ob["after"]], Nat(ob["nev"]))))
        prev = [list(i) for i in ob["after"]]
    return (C(case["vk"]), (case["ib"][0], opt(case["ib"][1])), (case["ob"][0], opt(case["ob"][1])),
            [list(i) for i in case["init"]], h)


def gen_nested(rnd, ctx, maxops):
    vk = rnd.choice(["VInt", "VCInt", "VCInt", "VAll", "VInc", "VInst", "VInst"])
    ib = rnd.choice([(0, None), (0, None), (0, 2), (1, 3), (1, None), (2, 2), (0, 3)])
    inst = vk == "VInst"          # List(List(Instance("Cell"))): items are a Cell (203) or None (200)
    ob = rnd.choice([(0, None), (0, None), (0, 2), (1, 3), (1, None), (0, 3)])

    def valid_inner():
        lo = ib[0]
        hi = ib[1] if ib[1] is not None else lo + 3
        return [rnd.choice([203, 203, 200]) if inst else rnd.randint(0, 9) for _ in range(rnd.randint(lo, hi))]

    def raw():
        r = rnd.random()
        if r < 0.6:
            return maybe_loose(rnd, valid_inner())
        if r < 0.7:
            # not a list: some object; for Instance items also what the INNERMOST trait would accept
            return rnd.choice(["cell", "nonevalue", None]) if inst else None
        if r < 0.85:
            v = valid_inner() or [1]
            v[rnd.randrange(len(v))] = rnd.choice([5, 105, 202] if inst else [200, 105, 201, 202])  # invalid / convertible
            return maybe_loose(rnd, v)
        return maybe_loose(rnd, [(203 if inst else rnd.randint(0, 9)) for _ in range(rnd.choice([0, 1, 2, 3, 4, 5]))])

    n0 = rnd.randint(ob[0], ob[1] if ob[1] is not None else ob[0] + 3)
    init = [[a if inst else max(a, 1) for a in valid_inner()] for _ in range(n0)]
    if inst:
        # the forward reference is resolved (and the traits fixed up) by the first validation of an item: start from
        # the declared default [] so that this happens inside the history
        ob, init, n0 = (0, ob[1]), [], 0
    n = n0
    ops = []
    for _ in range(rnd.randint(1, maxops)):
        if rnd.random() < REPICKLE:
            ops.append(["NAssign", "prev", "repickle"])
        k = rnd.choice(["NAppend", "NAppend", "NExtend", "NInsert", "NSetInt", "NSetInt", "NSetSlice", "NSetSlice",
                        "NDelInt", "NDelSlice", "NPop", "NReverse", "NClear", "NAssign", "NInner", "NInner", "NInner",
                        "NInner"])
        if k == "NAppend":
            op = [k, raw()]
        elif k == "NExtend":
            op = [k, [raw() for _ in range(rnd.randint(0, 3))]]
        elif k in ("NInsert", "NSetInt"):
            op = [k, c05.gen_index(rnd, n), raw()]
        elif k == "NSetSlice":
            s = c05.gen_slice(rnd, n)
            cnt = len(range(*slice(*s).indices(n))) if s[2] != 0 else 1
            op = [k, s, [raw() for _ in range(cnt if rnd.random() < 0.7 else rnd.randint(0, 3))]]
        elif k == "NDelInt":
            op = [k, c05.gen_index(rnd, n)]
        elif k == "NDelSlice":
            op = [k, c05.gen_slice(rnd, n)]
        elif k == "NPop":
            op = [k, None if rnd.random() < 0.4 else c05.gen_index(rnd, n)]
        elif k in ("NReverse", "NClear"):
            op = [k]
        elif k == "NAssign":
            op = [k, None if rnd.random() < 0.15 else [raw() for _ in range(rnd.randint(0, 4))],
                  gen_source(rnd).replace("self", "plain")]
        else:
            j = rnd.randint(0, max(n, 1))
            cur = [0, 1, 2]
            iop = c05.gen_op(rnd, vk, cur)
            while iop[0] in ("Imul",) and abs(iop[1]) > 3:
                iop = c05.gen_op(rnd, vk, cur)
            op = [k, j, iop]
        ops.append(op)
        ctx.count("op:nested." + (k if k != "NInner" else "NInner/" + c05.op_shape(op[2])))
        # crude length hint
        if k in ("NAppend", "NInsert"):
            n += 1
        elif k in ("NDelInt", "NPop") and n:
            n -= 1
        elif k == "NClear":
            n = 0
    case = dict(kind="nested", vk=vk, ib=list(ib), ob=list(ob), init=init, ops=ops)
    if inst:
        case["no_init"] = True
    return case


# ---------------------------------------------------------------- Dict(Str, List(Int)): law only
def ndop_term(op, prev=None):
    k = op[0]
    if k == "Assign" and op[-1] == "repickle":
        return C("NDAssign", [(a, C("RList", list(v))) for a, v in vp({"d": prev})["d"]])
    if k in ("SetItem", "SetDefault"):
        return C("ND" + k, op[1], raw_term(op[2]))
    if k in ("Update", "Assign"):
        return C("ND" + k, [(a, raw_term(r)) for a, r in op[1]])
    if k in ("DelItem", "Pop"):
        return C("ND" + k, op[1])
    if k == "Clear":
        return C("NDClear")
    if k == "Inner":
        return C("NDInner", op[1], c05.op_term(op[2]))
    raise ValueError(op)


def ndict_term(case, obs):
    h, prev = [], [[k, list(v)] for k, v in case["init"]]
    for op, ob in zip(case["ops"], obs):
        h.append((ndop_term(op, prev), C("mkND", out_l(ob["out"]), [(k, list(v)) for k, v in ob["after"]], Nat(ob["nev"]))))
        prev = [[k, list(v)] for k, v in ob["after"]]
    return (C(case.get("vk", "VInt")), (case["ib"][0], opt(case["ib"][1])), [(k, list(v)) for k, v in case["init"]], h)


def gen_ndict(rnd, ctx, maxops):
    ib = rnd.choice([(0, None), (0, 2), (1, 3), (1, None), (0, 3)])
    vk = rnd.choice(["VInt", "VInt", "VCInt", "VInc"])

    def valid_inner():
        hi = ib[1] if ib[1] is not None else ib[0] + 3
        return [rnd.randint(0, 9) for _ in range(rnd.randint(ib[0], hi))]

    def okey():
        return 100 + rnd.randint(0, 4)

    def raw_bad():
        """(raw list or None, is it rejectable)"""
        r = rnd.random()
        if r < 0.6:
            return maybe_loose(rnd, valid_inner()), False
        if r < 0.7:
            return None, True
        if r < 0.85:
            v = valid_inner() or [1]
            v[rnd.randrange(len(v))] = rnd.choice([200, 105, 201])
            return maybe_loose(rnd, v), True
        v = [rnd.randint(0, 9) for _ in range(rnd.choice([0, 1, 2, 3, 4, 5]))]
        return maybe_loose(rnd, v), not (ib[0] <= len(v) and (ib[1] is None or len(v) <= ib[1]))

    init = [[100 + j, [max(a, 1) for a in valid_inner()]] for j in rnd.sample(range(5), rnd.randint(0, 3))]
    present = [k for k, _ in init]
    ops = []
    for _ in range(rnd.randint(1, maxops)):
        if rnd.random() < REPICKLE:
            ops.append(["Assign", None, "repickle"])
        k = rnd.choice(["SetItem", "SetItem", "Update", "SetDefault", "DelItem", "Pop", "Clear", "Assign", "Inner",
                        "Inner", "Inner"])
        if k == "SetItem":
            key = okey() if rnd.random() < 0.8 else rnd.choice([3, 200])
            v, bad = raw_bad()
            op = [k, key, v, bad or key < 100 or key >= 200]
        elif k in ("Update", "Assign"):
            ps, bad = [], False
            for _j in range(rnd.randint(0, 3)):
                key = okey() if rnd.random() < 0.85 else rnd.choice([3, 200])
                v, b = raw_bad()
                if key in [q[0] for q in ps]:
                    continue
                ps.append([key, v])
                bad = bad or b or key < 100 or key >= 200
            op = [k, ps, gen_source(rnd).replace("self", "plain") if k == "Assign" else bad]
        elif k == "SetDefault":
            key = okey() if rnd.random() < 0.8 else rnd.choice([3, 200])
            v, bad = raw_bad()
            # a present raw key validates nothing; the generator cannot know the contents: ask for a raise only
            # when the key itself is rejectable (never present) -- value badness counts only for fresh keys
            op = [k, key, v, key < 100 or key >= 200]
        elif k in ("DelItem", "Pop"):
            op = [k, okey(), False]
        elif k == "Clear":
            op = [k, False]
        else:
            cur = [0, 1, 2]
            iop = c05.gen_op(rnd, vk, cur)
            while iop[0] == "Imul" and abs(iop[1]) > 3:
                iop = c05.gen_op(rnd, vk, cur)
            op = [k, okey(), iop, False]
        ops.append(op)
        ctx.count("op:ndict." + k)
    return dict(kind="ndict", vk=vk, ib=list(ib), init=init, ops=ops)


# ---------------------------------------------------------------- any nesting of List(...) and Dict(K, ...)
def item_term(r):
    if isinstance(r, dict):
        return C("Dct", [(k, item_term(v)) for k, v in r["d"]])
    return C("Lst", [item_term(x) for x in r]) if isinstance(r, list) else C("Atom", r)


def ttype_term(t):
    if t[0] == "A":
        return C("TAtom", C(t[1]))
    if t[0] == "L":
        return C("TList", ttype_term(t[1]), t[2], opt(t[3]))
    return C("TDict", C(t[1]), ttype_term(t[2]))


def ltype(vk, bounds):
    """List(List(...(vk))) with these bounds from the outermost level inwards"""
    t = ["A", vk]
    for mn, mx in reversed(bounds):
        t = ["L", t, mn, mx]
    return t


def gop_term(g):
    k = g[0]
    if k in ("GAppend", "GRemove"):
        return C(k, item_term(g[1]))
    if k == "GExtend":
        return C(k, [item_term(r) for r in g[1]])
    if k in ("GInsert", "GSetInt"):
        return C(k, g[1], item_term(g[2]))
    if k == "GSetSlice":
        return C(k, c05.sl_term(g[1]), [item_term(r) for r in g[2]])
    if k in ("GDelInt", "GImul"):
        return C(k, g[1])
    if k == "GDelSlice":
        return C(k, c05.sl_term(g[1]))
    if k == "GPop":
        return C(k, opt(g[1]))
    if k == "GSort":
        return C(k, bool(g[1]))
    if k in ("GReverse", "GClear"):
        return C(k)
    raise ValueError(g)


def dgop_term(g):
    k = g[0]
    if k in ("DgSetItem", "DgSetDefault"):
        return C(k, g[1], item_term(g[2]))
    if k == "DgUpdate":
        return C(k, [(a, item_term(r)) for a, r in g[1]])
    if k in ("DgDelItem", "DgPop"):
        return C(k, g[1])
    if k == "DgClear":
        return C(k)
    raise ValueError(g)


def deep_term(case, obs):
    h, prev = [], case["init"]
    for op, ob in zip(case["ops"], obs):
        if op[0] == "Assign" and op[-1] == "repickle":
            t = C("DPAssign", item_term(vp(prev)))
        elif op[0] == "Assign":
            t = C("DPAssign", item_term(op[1]))
        else:
            path = [C("PKey", e["k"]) if isinstance(e, dict) else C("PIdx", Nat(e)) for e in op[1]]
            kind, g = op[2]
            t = C("DPath", path, C("OnList", gop_term(g)) if kind == "L" else C("OnDict", dgop_term(g)))
        h.append((t, C("mkDP", out_l(ob["out"]), item_term(ob["after"]), Nat(ob["nev"]))))
        prev = ob["after"]
    return (ttype_term(case["type"]), item_term(case["init"]), h)


def gen_type(rnd, depth):
    """a container type: nesting of lists (with bounds) and dicts (int keys) over an atomic trait"""
    def go(d):
        if d == 0:
            return ["A", rnd.choice(["VInt", "VCInt", "VCInt", "VInc", "VInst"])]
        if rnd.random() < 0.65:
            mn, mx = rnd.choice([(0, None), (0, None), (0, 2), (1, 3), (1, None), (0, 3), (2, 2)])
            return ["L", go(d - 1), mn, mx]
        return ["D", rnd.choice(["VInt", "VCInt"]), go(d - 1)]
    return go(depth)


def gen_deep(rnd, ctx, maxops):
    depth = rnd.choice([2, 3, 3, 4])
    t = gen_type(rnd, depth)
    KEYS = [1, 2, 3, 4]

    def valid(t):
        if t[0] == "A":
            return rnd.choice([203, 203, 200]) if t[1] == "VInst" else rnd.randint(1, 9)
        if t[0] == "L":
            return [valid(t[1]) for _ in range(rnd.randint(t[2], t[3] if t[3] is not None else t[2] + 2))]
        return {"d": [[k, valid(t[2])] for k in rnd.sample(KEYS, rnd.randint(0, 3))]}

    def raw_key():
        return rnd.choice(KEYS) if rnd.random() < 0.8 else rnd.choice([101, 102, 200, 7])

    def raw(t):
        """a raw value offered where a value of type t is expected: mostly valid, else broken somewhere"""
        r = rnd.random()
        if r < 0.6:
            return valid(t)
        if r < 0.7:                                        # wrong kind (also what an innermost Instance trait accepts)
            return rnd.choice([5, 200, 105, 203, 203]) if t[0] != "A" else [1]
        if t[0] == "A":
            return rnd.choice([5, 105, 201, 202] if t[1] == "VInst" else [200, 105, 201, 103, 202])
        if t[0] == "L":
            v = valid(t)
            if r < 0.85 and v:
                v[rnd.randrange(len(v))] = raw(t[1])
                return v
            return [valid(t[1]) for _ in range(rnd.choice([0, 1, 2, 3, 4]))]     # possibly illegal length
        v = valid(t)
        v["d"].append([rnd.choice([5, 105, 200]), raw(t[2])])
        return v

    init = valid(t)
    fwd = "'VInst'" in repr(t)
    if fwd:      # start from the declared default (empty): the first validation of an item happens inside the history
        if t[0] == "L":
            t[2] = 0
        init = [] if t[0] == "L" else {"d": []}
    ops = []
    for _ in range(rnd.randint(1, maxops)):
        if rnd.random() < REPICKLE:
            ops.append(["Assign", None, "repickle"])
        if rnd.random() < 0.12:
            ops.append(["Assign", raw(t)])
            ctx.count("op:deep.Assign")
            continue
        node, path = t, []
        while node[0] != "A":
            nxt = node[1] if node[0] == "L" else node[2]
            if nxt[0] == "A" or rnd.random() < 0.45:
                break
            path.append(rnd.choice([0, 0, 1, 1, 2, 3]) if node[0] == "L" else {"k": rnd.choice(KEYS + [7])})
            node = nxt
        if node[0] == "L":
            it, n = node[1], 2
            kinds = ["GAppend", "GAppend", "GExtend", "GInsert", "GSetInt", "GSetInt", "GSetSlice", "GDelInt", "GDelSlice",
                     "GPop", "GReverse", "GClear", "GImul"]
            if "'D'" not in repr(it):       # == of dicts ignores their order and < raises: not modelled
                kinds += ["GRemove", "GRemove"]
                if "'VInst'" not in repr(it):   # Cell instances / None are not ordered (a failing sort may permute)
                    kinds += ["GSort", "GSort"]
            k = rnd.choice(kinds)
            if k in ("GAppend", "GRemove"):
                g = [k, raw(it) if k == "GAppend" or rnd.random() < 0.15 else valid(it)]
            elif k == "GExtend":
                g = [k, [raw(it) for _ in range(rnd.randint(0, 3))]]
            elif k in ("GInsert", "GSetInt"):
                g = [k, c05.gen_index(rnd, n), raw(it)]
            elif k == "GSetSlice":
                g = [k, c05.gen_slice(rnd, n), [raw(it) for _ in range(rnd.randint(0, 3))]]
            elif k == "GDelInt":
                g = [k, c05.gen_index(rnd, n)]
            elif k == "GDelSlice":
                g = [k, c05.gen_slice(rnd, n)]
            elif k == "GPop":
                g = [k, None if rnd.random() < 0.4 else c05.gen_index(rnd, n)]
            elif k == "GSort":
                g = [k, rnd.random() < 0.4]
            elif k == "GImul":
                # `*= n` with n >= 2 makes several positions hold the SAME container object: generated for lists of atoms only
                g = [k, rnd.choice([-1, 0, 1, 2, 2, 3]) if it[0] == "A" else rnd.choice([-1, 0, 1])]
            else:
                g = [k]
            op = ["Path", path, ["L", g]]
        else:
            vt = node[2]
            k = rnd.choice(["DgSetItem", "DgSetItem", "DgUpdate", "DgSetDefault", "DgDelItem", "DgPop", "DgClear"])
            if k in ("DgSetItem", "DgSetDefault"):
                g = [k, raw_key(), raw(vt)]
            elif k == "DgUpdate":
                ks = sorted(set(raw_key() for _ in range(rnd.randint(0, 3))))
                g = [k, [[a, raw(vt)] for a in ks]]
            elif k in ("DgDelItem", "DgPop"):
                g = [k, raw_key()]
            else:
                g = [k]
            op = ["Path", path, ["D", g]]
        ops.append(op)
        ctx.count("op:deep.depth%d.path%d.%s" % (depth, len(path), g[0]))
    ctx.count("deep-root:" + t[0])
    case = dict(kind="deep", type=t, init=init, ops=ops)
    if fwd:
        case["no_init"] = True
    return case


# ---------------------------------------------------------------- default values (first read)
def res_term(out, content):
    if out == "Ok":
        return C("Ok", content)
    return C("Raise", C(out if out in ("IndexError", "ValueError", "TraitError", "TypeError", "OverflowError") else "OtherError"))


def default_term(case, obs):
    ob = obs[0]
    if case["sub"] == "list":
        return C("DfList", C(case["vk"]), case["minlen"], opt(case["maxlen"]), list(case["d"]),
                 res_term(ob["out"], list(ob["after"] or [])))
    if case["sub"] == "set":
        return C("DfSet", C(case["vk"]), list(case["d"]), res_term(ob["out"], list(ob["after"] or [])))
    return C("DfDict", C(case["kk"]), C(case["vk"]), [(a, b) for a, b in case["d"]],
             res_term(ob["out"], [(a, b) for a, b in (ob["after"] or [])]))


def gen_default(rnd, ctx):
    """a declared default: valid, with a convertible / invalid item, below minlen, above maxlen, the implicit empty one"""
    sub = rnd.choice(["list", "list", "list", "set", "dict"])
    vk = rnd.choice(["VInt", "VCInt", "VCInt", "VInc", "VAll"])

    def item():
        r = rnd.random()
        # the float atom 303 (== 3) only in lists: the set / dict models have no Python-equality classes
        return rnd.randint(0, 9) if r < 0.75 else rnd.choice([103, 105, 200, 201] + ([303] if sub == "list" else []))
    ctx.count("default:" + sub)
    if sub == "list":
        mn, mx = rnd.choice(BOUNDS)
        n = rnd.choice([0, 0, 1, 2, 3, 4, mn, max(mn - 1, 0), (mx if mx is not None else mn) + 1])
        return dict(kind="default", sub=sub, vk=vk, minlen=mn, maxlen=mx, d=[item() for _ in range(n)], ops=[["Read"]])
    if sub == "set":
        return dict(kind="default", sub=sub, vk=vk, d=sorted(set(item() for _ in range(rnd.randint(0, 4)))), ops=[["Read"]])
    kk = rnd.choice(["VInt", "VCInt", "VInc"])
    keys = sorted(set(item() for _ in range(rnd.randint(0, 3))))
    return dict(kind="default", sub=sub, kk=kk, vk=vk, d=[[k, item()] for k in keys], ops=[["Read"]])


TERMS = {"list": list_term, "set": set_term, "dict": dict_term, "nested": nested_term, "ndict": ndict_term,
         "deep": deep_term, "default": default_term}


def op_name(kind, op):
    if op[0] in ("Assign", "NAssign"):
        src = [x for x in op[1:] if isinstance(x, str)]
        return op[0] + ("-" + src[0] if src and src[0] != "plain" else "")
    if kind == "list":
        return c05.op_shape(op)
    if kind == "nested" and op[0] == "NInner":
        return "NInner/" + c05.op_shape(op[2])
    if kind == "ndict" and op[0] == "Inner":
        return "Inner/" + c05.op_shape(op[2])
    if kind == "deep" and op[0] == "Path":
        return "Path/%s" % (op[2][1][0],)
    if kind == "default":
        return "Read"
    return op[0]


def key_fn(case, obs, step, clause):
    kind = case["kind"] + ("-" + case["sub"] if case["kind"] == "default" else "")
    return "%s/%s/%s" % (CLAUSE.get(clause, clause), kind, op_name(case["kind"], case["ops"][step]))


def describe(case, obs, step, clause):
    cfg = {k: v for k, v in case.items() if k not in ("ops", "init")}
    return "%s trait %r: clause %s fails at step %d op %r: observed %r" % (
        case["kind"], cfg, CLAUSE.get(clause, clause), step, case["ops"][step], obs[step])


def nontrivial(case, obs):
    sig = json.dumps(case, sort_keys=True)
    nt = any(o["out"] != "Ok" for o in obs)
    return sig, nt


def small_scope_cases(rnd, stride=1):
    """Exhaustive single-operation cases over small universes: every set state over {1,2,3} x every mutator x every
    argument over {1,2,3,"1",None}; every dict state over keys {1,2} / values {1,2} x every mutator x keys
    {1,2,3,"1",None} x values {1,2,"2",None} (update / |= with every list of at most two pairs)."""
    import itertools
    sets, dicts = [], []
    su = [1, 2, 3, 101, 200]
    subsets = [list(c) for r in range(0, 4) for c in itertools.combinations(su, r)]
    for vk in ("VInt", "VCInt", "VAll"):
        for st in ([list(c) for r in range(0, 4) for c in itertools.combinations([1, 2, 3], r)]):
            ops = [[k, x] for k in ("Add", "Discard", "Remove") for x in su] + [["Pop"], ["Clear"]]
            for a in subsets:
                ops += [["Update", [a]], ["Ior", "set", a], ["Iand", "set", a], ["Isub", "set", a], ["Ixor", "set", a],
                        ["DiffUpdate", [a]], ["InterUpdate", [a]], ["SymDiffUpdate", a], ["Assign", True, a, "plain"]]
            sets += [dict(kind="set", vk=vk, init=st, ops=[op]) for op in ops]
    ku, vu = [1, 2, 3, 101, 200], [1, 2, 102, 200]
    pairs = [[k, v] for k in ku for v in vu]
    plists = [[]] + [[p] for p in pairs] + [[p, q] for p in pairs for q in pairs]
    states = [[[k, v] for k, v in zip((1, 2), c) if v is not None] for c in itertools.product((None, 1, 2), repeat=2)]
    for kk, vk in (("VInt", "VInt"), ("VCInt", "VInt"), ("VCInt", "VCInt"), ("VAll", "VInt")):
        for st in states:
            ops = [["SetItem", k, v] for k, v in pairs] + [["DelItem", k] for k in ku] + [["SetDefault", k, v] for k, v in pairs]
            ops += [["Pop", k, d] for k in ku for d in (None, 1, 200)] + [["PopItem"], ["Clear"]]
            ops += [[m, asmap, pl] for m in ("Update", "Ior") for asmap in (True, False) for pl in plists[::7]]
            ops += [["Assign", True, pl, "plain"] for pl in plists[::11]]
            dicts += [dict(kind="dict", kk=kk, vk=vk, init=st, ops=[op]) for op in ops]
    if stride > 1:
        sets, dicts = sets[rnd.randrange(stride)::stride], dicts[rnd.randrange(stride)::stride]
    return sets, dicts


def corpus():
    cs = []
    # an extended-slice assignment whose third element is invalid on a list already at maxlen (the example of the
    # property text), and the other length-guarded mutators at both bounds
    cs.append(dict(kind="list", vk="VInt", minlen=1, maxlen=3, init=[1, 2, 3], ops=[
        ["SetSlice", [None, None, 1], [4, 5, 200]], ["SetSlice", [None, None, 2], [7, 200]], ["Append", 4],
        ["Extend", [4]], ["Iadd", [4, 5]], ["Insert", 0, 9], ["Imul", 2], ["SetSlice", [1, 1, None], [8]],
        ["SetSlice", [0, 2, None], [8]], ["DelSlice", [None, None, None]], ["DelSlice", [None, None, 2]], ["Clear"],
        ["Pop", None], ["Pop", None], ["Pop", None], ["Remove", 1], ["DelInt", 0], ["Imul", 0], ["Imul", -1],
        ["Assign", True, []], ["Assign", True, [1, 2, 3, 4]], ["Assign", True, [1, 105]], ["Assign", False, [1]],
        ["Assign", True, [5]], ["Sort", True], ["Reverse"], ["SetInt", 0, 200], ["SetInt", 5, 200]]))
    cs.append(dict(kind="list", vk="VInt", minlen=1, maxlen=3, init=[1, 2], ops=[
        ["Assign", True, [1, 105], "deepcopy"], ["Assign", True, [1, 2, 3, 4], "deepcopy"], ["Assign", True, [], "orphan"],
        ["Assign", True, [3, 200], "orphan"], ["Assign", True, [7, 8], "deepcopy"], ["Assign", True, [9], "orphan"]]))
    cs.append(dict(kind="set", vk="VInt", init=[1, 2], ops=[
        ["Assign", True, [1, 105], "deepcopy"], ["Assign", True, [3, 200], "orphan"], ["Assign", True, [7, 8], "deepcopy"]]))
    cs.append(dict(kind="dict", kk="VInt", vk="VInt", init=[[1, 2]], ops=[
        ["Assign", True, [[1, 105]], "deepcopy"], ["Assign", True, [[105, 1]], "deepcopy"], ["Assign", True, [[200, 1]], "orphan"],
        ["Assign", True, [[3, 200]], "orphan"], ["Assign", True, [[7, 8]], "deepcopy"], ["Assign", True, [[5, 6]], "orphan"]]))
    cs.append(dict(kind="nested", vk="VInt", ib=[0, 2], ob=[1, 3], init=[[1], [2, 3]], ops=[
        ["NAssign", [[1], {"loose": [1, 2, 3]}], "plain"], ["NAssign", [[1], {"loose": [105]}], "deepcopy"],
        ["NAssign", [{"loose": [4, 5]}, [6]], "orphan"], ["NAppend", {"loose": [1, 2, 3]}], ["NSetInt", 0, {"loose": [200]}],
        ["NAssign", [[1], [2], [3], [4]], "deepcopy"], ["NSetInt", 0, {"loose": [9]}]]))
    cs.append(dict(kind="ndict", vk="VInt", ib=[0, 2], init=[[100, [1]]], ops=[
        ["Assign", [[101, [1, 2, 3]]], "deepcopy"], ["Assign", [[101, {"loose": [1, 2, 3]}]], "deepcopy"],
        ["Assign", [[3, [1]]], "orphan"], ["Assign", [[101, {"loose": [105]}]], "plain"], ["SetItem", 102, {"loose": [1, 200]}, True],
        ["Assign", [[101, {"loose": [4, 5]}], [102, [6]]], "orphan"], ["SetItem", 103, {"loose": [7]}, False]]))
    for vk in ("VInt", "VCInt"):
        cs.append(dict(kind="default", sub="list", vk=vk, minlen=2, maxlen=None, d=[], ops=[["Read"]]))
        cs.append(dict(kind="default", sub="list", vk=vk, minlen=0, maxlen=3, d=[1, 2, 3, 4], ops=[["Read"]]))
        cs.append(dict(kind="default", sub="list", vk=vk, minlen=1, maxlen=3, d=[1, 2], ops=[["Read"]]))
        cs.append(dict(kind="default", sub="list", vk=vk, minlen=0, maxlen=None, d=[1, 105], ops=[["Read"]]))
        cs.append(dict(kind="default", sub="list", vk=vk, minlen=0, maxlen=None, d=[1, 200], ops=[["Read"]]))
        cs.append(dict(kind="default", sub="set", vk=vk, d=[1, 105], ops=[["Read"]]))
        cs.append(dict(kind="default", sub="set", vk=vk, d=[1, 200], ops=[["Read"]]))
        cs.append(dict(kind="default", sub="dict", kk=vk, vk="VInt", d=[[1, 2], [105, 3]], ops=[["Read"]]))
        cs.append(dict(kind="default", sub="dict", kk=vk, vk="VInt", d=[[1, 105]], ops=[["Read"]]))
    cs.append(dict(kind="list", vk="VInt", minlen=1, maxlen=3, init=[1, 2], init_mode="default", ops=[
        ["Append", 3], ["Append", 4], ["Pop", None], ["SetInt", 0, 200], ["Extend", None, "self"], ["Clear"],
        ["ImulQ", 1, 2, "float"], ["ImulQ", 5, 2, "float"], ["ImulQ", 3, 2, "fraction"], ["Imul", 0, "bool"]]))
    cs.append(dict(kind="list", vk="VInt", minlen=0, maxlen=3, init=[1, 2], ops=[
        ["Assign", True, None, "repickle"], ["Append", 200], ["Append", 105], ["Append", 3], ["Append", 4], ["SetInt", 0, 201]]))
    cs.append(dict(kind="set", vk="VInt", hooks=True, init=[1, 2], ops=[
        ["Add", 200], ["Add", 105], ["Add", 3], ["Update", [[4, 201]]], ["Ior", "set", [5, 105]], ["Assign", True, [1, 200], "plain"],
        ["Assign", True, None, "repickle"], ["Add", 200], ["Add", 6]]))
    cs.append(dict(kind="set", vk="VInc", hooks=True, init=[1, 2], ops=[["Add", 5], ["Add", 105], ["Update", [[7], [200]]]]))
    cs.append(dict(kind="dict", kk="VInt", vk="VInc", hooks=True, init=[[1, 2]], ops=[
        ["SetItem", 2, 3], ["SetItem", 105, 3], ["SetItem", 3, 200], ["Assign", True, None, "repickle"], ["SetItem", 105, 3],
        ["SetItem", 4, 200], ["Update", True, [[5, 5], [200, 1]]]]))
    cs.append(dict(kind="nested", vk="VInt", hooks=True, ib=[0, 2], ob=[0, 3], init=[[1], [2]], ops=[
        ["NAssign", "prev", "repickle"], ["NAppend", [1, 2, 3]], ["NAppend", [200]], ["NInner", 0, ["Append", 200]],
        ["NInner", 0, ["Append", 3]], ["NInner", 0, ["Append", 4]], ["NAppend", [5]], ["NAppend", [6]]]))
    cs.append(dict(kind="ndict", vk="VInt", ib=[0, 2], init=[[100, [1]]], ops=[
        ["Assign", None, "repickle"], ["SetItem", 101, [1, 2, 3], True], ["SetItem", 3, [1], True],
        ["Inner", 100, ["Append", 200], True], ["Inner", 100, ["Append", 2], False], ["Inner", 100, ["Append", 3], False]]))
    cs.append(dict(kind="nested", vk="VInst", ib=[0, 2], ob=[0, None], init=[], no_init=True, ops=[
        ["NAppend", [203]], ["NAppend", "cell"], ["NAppend", "nonevalue"], ["NAppend", [203, 200]], ["NSetInt", 0, "cell"],
        ["NInsert", 0, "nonevalue"], ["NExtend", [[203], "cell"]], ["NAssign", [[203], [200]], "plain"],
        ["NInner", 0, ["Append", 203]], ["NInner", 0, ["Append", 5]], ["NAppend", "cell"]]))
    L_ = lambda g: ["L", g]  # noqa
    D_ = lambda g: ["D", g]  # noqa
    cs.append(dict(kind="deep", type=ltype("VCInt", [[1, 2], [1, None], [0, 2]]), init=[[[1], []]], ops=[
        ["Path", [0, 0], L_(["GAppend", 105])], ["Path", [0, 0], L_(["GAppend", 3])], ["Path", [0, 1], L_(["GAppend", 200])],
        ["Path", [0], L_(["GSetInt", 1, [1, 2, 3]])], ["Path", [], L_(["GAppend", 7])], ["Path", [], L_(["GAppend", [[109]]])],
        ["Path", [], L_(["GAppend", [[]]])], ["Path", [0], L_(["GClear"])], ["Assign", [[[4, 200]]]], ["Assign", [[[104]]]],
        ["Path", [3], L_(["GClear"])], ["Path", [0, 0], L_(["GSetSlice", [None, None, -1], [7]])], ["Path", [0], L_(["GPop", None])]]))
    cs.append(dict(kind="deep", type=ltype("VInt", [[0, None], [0, 3], [0, 4]]),
                   init=[[[3, 1, 2], [1]], [[2], [1, 5]], [[3, 1, 2], [1]]], ops=[
        ["Path", [], L_(["GSort", False])], ["Path", [0], L_(["GSort", True])], ["Path", [0, 0], L_(["GSort", False])],
        ["Path", [], L_(["GRemove", [[3, 1, 2], [1]]])], ["Path", [], L_(["GRemove", [[9]]])], ["Path", [0, 0], L_(["GRemove", 1])],
        ["Path", [0, 0], L_(["GImul", 2])], ["Path", [0, 0], L_(["GImul", 3])], ["Path", [0], L_(["GImul", 0])],
        ["Path", [], L_(["GImul", -1])]]))
    cs.append(dict(kind="deep", type=["D", "VCInt", ["D", "VInt", ["L", ["A", "VInt"], 0, 2]]],
                   init={"d": [[1, {"d": [[5, [7]]]}]]}, ops=[
        ["Path", [{"k": 1}, {"k": 5}], L_(["GAppend", 8])], ["Path", [{"k": 1}, {"k": 5}], L_(["GAppend", 9])],
        ["Path", [{"k": 1}], D_(["DgSetItem", 6, [1, 2, 3]])], ["Path", [{"k": 1}], D_(["DgSetItem", 106, []])],
        ["Path", [], D_(["DgSetItem", 102, {"d": [[4, [200]]]}])], ["Path", [], D_(["DgSetItem", 102, {"d": [[4, [2]]]}])],
        ["Path", [{"k": 2}, {"k": 4}], L_(["GPop", None])], ["Path", [{"k": 9}], D_(["DgClear"])],
        ["Path", [], D_(["DgUpdate", [[3, {"d": []}], [103, {"d": [[1, [1]]]}]]])], ["Path", [], D_(["DgSetDefault", 1, 5])],
        ["Path", [], D_(["DgSetDefault", 4, 5])], ["Path", [], D_(["DgPop", 3])], ["Path", [], D_(["DgDelItem", 77])],
        ["Assign", {"d": [[1, {"d": [[2, [1, 2, 3]]]}]]}], ["Assign", {"d": [[101, {"d": [[2, [1, 2]]]}]]}],
        ["Path", [{"k": 1}], D_(["DgClear"])]]))
    cs.append(dict(kind="deep", type=["L", ["D", "VInt", ["L", ["A", "VCInt"], 1, 2]], 0, 2], init=[{"d": [[1, [1]]]}], ops=[
        ["Path", [], L_(["GAppend", {"d": [[2, [105]]]}])], ["Path", [], L_(["GAppend", {"d": []}])],
        ["Path", [1, {"k": 2}], L_(["GAppend", 106])], ["Path", [1, {"k": 2}], L_(["GAppend", 7])],
        ["Path", [1], D_(["DgSetItem", 3, []])], ["Path", [0], D_(["DgSetItem", 200, [1]])], ["Path", [], L_(["GReverse"])]]))
    cs.append(dict(kind="list", vk="VCInt", minlen=2, maxlen=None, init=[1, 2], ops=[
        ["Pop", 0], ["DelInt", 9], ["DelSlice", [0, 1, None]], ["SetSlice", [0, 2, None], [105]],
        ["SetSlice", [0, 2, None], [105, 106, 7]], ["Extend", [103, 200]], ["Extend", [103]],
        ["SetSlice", [None, None, -1], [1, 2]], ["SetSlice", [None, None, -1], [1, 2, 203]], ["Clear"]]))
    cs.append(dict(kind="nested", vk="VCInt", ib=[1, 3], ob=[1, 2], init=[[1], [2, 3]], ops=[
        ["NAppend", [4]], ["NSetInt", 0, [1, 2, 3, 4]], ["NSetInt", 0, [105, 6]], ["NSetInt", 1, None],
        ["NInner", 0, ["Append", 7]], ["NInner", 0, ["Append", 8]], ["NInner", 1, ["Clear"]],
        ["NInner", 1, ["SetInt", 0, 200]], ["NInner", 1, ["Pop", None]], ["NInner", 1, ["Pop", None]], ["NPop", None],
        ["NPop", None], ["NAssign", [[1], [200]]], ["NAssign", [[1], [2], [3]]], ["NAssign", None],
        ["NAssign", [[109]]]]))
    cs.append(dict(kind="ndict", ib=[1, 2], init=[[100, [1]]], ops=[
        ["SetItem", 101, [1, 2, 3], True], ["SetItem", 3, [1], True], ["SetItem", 101, [105], True],
        ["SetItem", 101, [5], False], ["Inner", 101, ["Append", 200], True], ["Inner", 101, ["Append", 2], False],
        ["Inner", 101, ["Append", 3], False], ["Inner", 100, ["Clear"], False],
        ["Update", [[102, [1]], [103, None]], True], ["Assign", [[100, [1, 200]]], True]]))
    cs.append(dict(kind="dict", kk="VCInt", vk="VInt", init=[[1, 2]], ops=[
        ["SetItem", 101, 3], ["SetItem", 2, 105], ["SetItem", 200, 1], ["SetDefault", 101, 7], ["SetDefault", 102, 200],
        ["Update", True, [[3, 3], [4, 200]]], ["Update", False, [[3, 3], [3, 4], [103, 5]]], ["Ior", True, [[200, 1]]],
        ["Pop", 9, None], ["Pop", 9, 200], ["DelItem", 101], ["PopItem"], ["Clear"], ["PopItem"],
        ["Assign", True, [[1, 1], [101, 2]]], ["Assign", True, [[1, 100]]], ["Assign", False, [[1, 1]]]]))
    cs.append(dict(kind="set", vk="VCInt", init=[1, 2], ops=[
        ["Add", 103], ["Add", 200], ["Update", [[4], [105, 200]]], ["Ior", "set", [5, 201]], ["Ixor", "set", [1, 200]],
        ["Ixor", "set", [1, 106]], ["SymDiffUpdate", [2, 200]], ["Ior", "list", [1]], ["Remove", 9], ["Pop"], ["Clear"],
        ["Pop"], ["Assign", True, [1, 101, 200]], ["Assign", True, [1, 101]], ["Assign", False, [1]]]))
    return cs


def mutator_obligation(ctx):
    """The op types enumerate exactly the mutating methods of list / set / dict of the running interpreter,
    and the tree under test overrides every one of them."""
    rc, inv, err = ctx.run_driver(DRIVER, dict(mode="mutators"))
    name = "mutator_list_complete (op types = mutating methods of list/set/dict of the running interpreter, all overridden)"
    if rc != 0 or not inv:
        ctx.obligation(name, False, err[-300:])
        ctx.fail("harness/mutators", "mutator inventory could not be taken: %s" % err[-400:], dict(error=err[-1500:]),
                 no_input=True)
        return

    def sl(names):
        return "[" + "; ".join('"%s"' % n for n in names) + "]"

    text = IMPORTS + "\n".join([
        "Import ListNotations.", "Open Scope string_scope.",
        "Example list_mutators_match : list_mutators = %s. Proof. reflexivity. Qed." % sl(inv["list"]["mutators"]),
        "Example set_mutators_match : set_mutators = %s. Proof. reflexivity. Qed." % sl(inv["set"]["mutators"]),
        "Example dict_mutators_match : dict_mutators = %s. Proof. reflexivity. Qed." % sl(inv["dict"]["mutators"]),
    ]) + "\n"
    rc2, out, err2, _ = coqrun.run_script(ctx.scratch, "mutators.v", text)
    missing = {k: v["not_overridden"] for k, v in inv.items() if v["not_overridden"]}
    # every length-changing list mutator must carry the _validate_length guard in TraitListObject
    need = {"__delitem__", "__iadd__", "__imul__", "__setitem__", "append", "clear", "extend", "insert", "pop", "remove"}
    unguarded = sorted(need - set(inv["list"]["object_overrides"]))
    good = rc2 == 0 and not missing and not unguarded and all(v["object_class_is_subclass"] for v in inv.values())
    ctx.obligation(name, good, "interpreter: %d list, %d set, %d dict mutators" % (
        len(inv["list"]["mutators"]), len(inv["set"]["mutators"]), len(inv["dict"]["mutators"])))
    if not good:
        ctx.fail("corr/mutator-inventory",
                 "the modelled mutators are not the mutating methods of the running interpreter / tree: "
                 "not overridden %r, length guard missing %r, coq: %s" % (missing, unguarded, (out + err2)[-300:]),
                 dict(inventory=inv, log=(out + err2)[-1500:]), no_input=True)


def run(ctx):
    join_proofs = c05.start_proofs(ctx, PROPS)
    ctx.cov["trusted_base"] += [
        "tools/drivers/c04_driver.py, c05_driver.py (atom <-> Python value mapping, recording notifiers on every reachable "
        "container) and tools/props/c04.py, c05.py (generators; for Dict(Str, List(Int)) the generator also says whether "
        "a rejectable value was offered)",
        "modelled, not verified: built-in list/set/dict (Common/PyList.v, LSet.v, LMap.v), tied differentially; the set and "
        "dict models are those of C07 and C06 (read through their field accessors); inner traits are inputs "
        "(VAll/VInt/VCInt mirror Any/Int/CInt)",
    ]
    ctx.cov["rule"] = ("random operation histories on the containers stored in List(T, minlen, maxlen), Set(T), Dict(K, V), "
                       "List(List(T)) and Dict(Str, List(Int)) traits: every mutator, whole-value assignment, valid / "
                       "convertible / invalid items at every ordinal, any index or slice, bounds from {0,1,2,3,inf}; a "
                       "case is non-trivial if some step raises; distinct = distinct JSON of the case")
    rnd = random.Random(ctx.seed)
    quick = ctx.tier == "quick"
    counts = dict(list=(350, 12, 8), set=(180, 10), dict=(200, 10), nested=(200, 10), ndict=(170, 10), deep=(180, 10)) \
        if quick else \
        dict(list=(6000, 30, 20), set=(3000, 25), dict=(4000, 25), nested=(4000, 25), ndict=(3000, 25), deep=(3000, 25))
    if ctx.replay:
        rep = json.load(open(ctx.replay))["replay"]
        groups = {rep["case"]["kind"]: [rep["case"]]} if "case" in rep else {}
    else:
        groups = {k: [] for k in KINDS}
        for c in corpus():
            groups[c["kind"]].append(c)
        groups["list"] += [gen_list(rnd, ctx, counts["list"][1], counts["list"][2]) for _ in range(counts["list"][0])]
        groups["set"] += [gen_set(rnd, ctx, counts["set"][1]) for _ in range(counts["set"][0])]
        groups["dict"] += [gen_dict(rnd, ctx, counts["dict"][1]) for _ in range(counts["dict"][0])]
        groups["nested"] += [gen_nested(rnd, ctx, counts["nested"][1]) for _ in range(counts["nested"][0])]
        groups["ndict"] += [gen_ndict(rnd, ctx, counts["ndict"][1]) for _ in range(counts["ndict"][0])]
        groups["deep"] += [gen_deep(rnd, ctx, counts["deep"][1]) for _ in range(counts["deep"][0])]
        groups["default"] += [gen_default(rnd, ctx) for _ in range(150 if quick else 4000)]
        ssets, sdicts = small_scope_cases(rnd, stride=60 if quick else 1)
        groups["set"] += ssets
        groups["dict"] += sdicts
        ctx.count("small-scope:set", len(ssets))
        ctx.count("small-scope:dict", len(sdicts))
    jobs = []
    if not ctx.replay:
        # a third of the owners are falsy objects (a HasTraits class defining __len__ -> 0 or __bool__ -> False)
        for kind, cases in groups.items():
            for c in cases:
                if rnd.random() < 0.3:
                    c["hooks"] = True           # Int-like / Inc inner traits implemented by is_valid_for / value_for only
                if rnd.random() < 0.25:
                    c["no_items"] = True        # List(..., items=False) etc.: validation does not depend on the items event
                    ctx.count("decl:items=False")
                if "falsy" not in c and kind != "default" and rnd.random() < 0.33:
                    c["falsy"] = rnd.choice(["len", "bool"])
                    ctx.count("owner:falsy-" + c["falsy"])
    for kind, cases in groups.items():
        if not cases:
            continue
        ctx.sample(cases[0])
        ctx.count("cases:" + kind, len(cases))
        jobs.append(dict(driver=DRIVER, cases=cases, to_term=TERMS[kind], header=header(kind), case_type=KINDS[kind][2],
                         key_fn=key_fn, describe=describe, nontrivial=nontrivial, tag="c04" + kind,
                         relation="C04.Corr.%s (model = implementation on every step)" % KINDS[kind][0]))
    # thorough shards are 1 000 long histories each (about 1 GB of coqc): at most two kinds at a time
    hist.run_parallel(ctx, jobs, workers=6 if quick else 2)
    if not ctx.replay:
        # single-operation grid on bounded List traits (the C05 grid, model and law of C04): every mutator x every
        # index / slice x every replacement list on lists at, below and above their bounds
        if quick:
            cfgs = [dict(target="obj", vk=rnd.choice(["VInt", "VCInt"]), n=n, minlen=mn, maxlen=mx)
                    for (n, mn, mx) in rnd.sample([(1, 1, 2), (2, 0, 2), (3, 2, 4), (2, 2, 2), (3, 1, 3)], 1)]
            gb, gbs = 2, 250
        else:
            cfgs = [dict(target="obj", vk=vk, n=n, minlen=mn, maxlen=mx)
                    for vk in ("VInt", "VCInt")
                    for (n, mn, mx) in ((0, 0, 0), (0, 0, 2), (1, 1, 1), (2, 2, 2), (2, 1, 3), (2, 0, None),
                                        (3, 3, 3), (3, 1, 4), (4, 0, 4), (5, 2, 6))]
            gb, gbs = 6, 500
        c05.run_grid(ctx, cfgs, gb, gbs, "C04 single-operation grid on bounded List traits",
                     hist_kw=dict(to_term=TERMS["list"], header=header("list"), case_type=KINDS["list"][2],
                                  key_fn=key_fn, describe=describe, nontrivial=nontrivial),
                     mk_case=lambda c: dict(c, kind="list"), driver=DRIVER)
        mutator_obligation(ctx)
        if not quick:
            ctx.cov["exhaustive"] = True
            ctx.cov["exhaustive_bound"] = ("single operations, exhaustively: bounded List traits (%d length/bounds/validator "
                                     "configurations x the C05 grid with index bound 6: every mutator, int index -6..6, "
                                     "slice over {None,-6..6}^2 x 10 steps, 9 replacement lists); every Set state over "
                                     "{1,2,3} x every mutator x every argument subset of {1,2,3,'1',None} (<= 3 members); "
                                     "every Dict state over keys {1,2} / values {1,2} x every mutator (update / |= with a "
                                     "stride of the pair lists of length <= 2)" % len(cfgs))
    ok, log = join_proofs()
    proof_gate(ctx, ok, log, PROPS)
