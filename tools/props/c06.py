"""C06 — TraitDict refines dict; change events are faithful deltas (plain notifiers, the
"<name>_items" trait event, and the DictChangeEvent seen by observe handlers)."""
import json
import random

from vlib import hist
from vlib.ctx import proof_gate
from vlib.term import C, opt

MAPPINGS = ("map", "ordered", "proxy", "userdict", "chainmap")     # argument classes with keys(): dict(pairs) semantics
ITERABLES = ("pairs", "gen", "tuple", "iterpairs", "listpairs")                                # iterables of pairs, in order

HEADER = ("From Coq Require Import ZArith List.\n"
          "From TV Require Import Common.Harness Common.LMap C06.Model C06.Law C06.Corr.")
CASE_T = "C06.Corr.case"
PROPS = ["C06/Props.v"]
CLAUSE = {1: "outcome-class", 2: "contents", 3: "failing-op-effect", 8: "return-value", 9: "insertion-order",
          4: "several-events", 5: "missing-event", 6: "reconstruction", 7: "all-empty-event",
          14: "several-events@notifier-after-observer", 15: "missing-event@notifier-after-observer",
          16: "reconstruction@notifier-after-observer", 17: "all-empty-event@notifier-after-observer",
          24: "several-events@items-trait", 25: "missing-event@items-trait", 26: "reconstruction@items-trait",
          27: "all-empty-event@items-trait", 29: "items-trait-unobserved",
          34: "several-events@observer", 35: "missing-event@observer", 36: "merged-event@observer",
          37: "all-empty-event@observer"}

KEYS = [0, 1, 2, 3, 100, 101, 102, 103, 200, 201]
VALS = [10, 11, 12, 110, 111, 112, 200, 201]


# ---- mirror of Model.vld_of (generation hints and finding signatures only, never an oracle)
def vld(kind, x):
    if isinstance(kind, dict):
        for a, r in kind["tab"]:
            if a == x:
                return r
        return x
    if kind == "VAll":
        return x
    if kind == "VInt":
        return x if 0 <= x < 100 else None
    if kind == "VCInt":
        return x if 0 <= x < 100 else (x - 100 if 100 <= x < 200 else None)
    raise ValueError(kind)


# ---- terms
def vk_term(kind):
    if isinstance(kind, dict):
        return C("VTab", [(a, opt(r)) for a, r in kind["tab"]])
    return C(kind)


def tgt_term(t):
    return C("Plain") if t == "plain" else C("Obj", t == "obj")


def amap(ps):
    return [(k, v) for k, v in ps]


def outcome(o):
    return C("Ok") if o == "Ok" else C("Raise", C(o))


def ret_term(r):
    return C("RNone") if r[0] == "N" else C("RVal", r[1]) if r[0] == "V" else C("RItem", r[1], r[2])


def op_term(op):
    k = op[0]
    if k == "SetItem":
        return C(k, op[1], op[2])
    if k == "DelItem":
        return C(k, op[1])
    if k in ("Update", "Ior", "Ctor"):
        return C(k, op[1] in MAPPINGS, amap(op[2]))
    if k == "UpdateBad":
        return C(k, amap(op[1]), op[2])
    if k == "SetDefault":
        return C(k, op[1], op[2])
    if k == "SetDefault1":
        return C("SetDefault", op[1], 200)
    if k == "Pop":
        return C(k, op[1], opt(op[2]) if len(op) > 2 else None)
    if k in ("PopItem", "Clear"):
        return C(k)
    raise ValueError(op)


def ev3(e):
    return (amap(e[0]), amap(e[1]), amap(e[2]))


def to_term(case, obs):
    h = []
    for op, ob in zip(case["ops"], obs):
        h.append((op_term(op),
                  C("mkObs", outcome(ob["out"]), amap(ob["after"]), [ev3(e) for e in ob["ev1"]], ret_term(ob["ret"]),
                    [(amap(e[0]), amap(e[1])) for e in ob["oev"]], [ev3(e) for e in ob["ev2"]],
                    opt(None if ob["iev"] is None else [ev3(e) for e in ob["iev"]]))))
    return (vk_term(case["kk"]), vk_term(case["vk"]), tgt_term(case["target"]), amap(case["init"]), h)


# ---- signatures
def shape(case, obs, step):
    """How the operation's key relates to the contents before the step (inputs + the recorded contents)."""
    op = case["ops"][step]
    before = dict((k, v) for k, v in (case["init"] if step == 0 else obs[step - 1]["after"]))
    if op[0] in ("SetItem", "DelItem", "SetDefault", "SetDefault1", "Pop"):
        k = op[1]
        if k >= 300:
            return "key-unhashable"
        if k in before:
            return "key-present"
        vkk = vld(case["kk"], k)
        if vkk is None:
            return "key-rejected"
        if vkk in before:
            return "coerced-key-present"
        return "key-absent"
    if op[0] in ("Update", "Ior", "Ctor"):
        return op[1]
    if op[0] == "UpdateBad":
        return "element-of-length-%d" % op[2]
    return "-"


def opname(op):
    return "SetDefault" if op[0] == "SetDefault1" else op[0]


def key_fn(case, obs, step, clause):
    return "%s/%s/%s" % (CLAUSE.get(clause, clause), opname(case["ops"][step]), shape(case, obs, step))


def describe(case, obs, step, clause):
    before = case["init"] if step == 0 else obs[step - 1]["after"]
    return ("TraitDict (%s, key validator %s, value validator %s) holding %r: clause %s fails at step %d op %r: "
            "observed %r" % (case["target"], case["kk"], case["vk"], before, CLAUSE.get(clause, clause), step,
                             case["ops"][step], obs[step]))


def nontrivial(case, obs):
    sig = repr((case["kk"], case["vk"], case["target"], case["init"], case["ops"]))
    nt = any(o["ev1"] or o["out"] != "Ok" for o in obs)
    return sig, nt


# ---- generator
def gen_tab(rnd, universe):
    tab = []
    for a in rnd.sample(universe, rnd.randint(1, 4)):
        tab.append([a, None if rnd.random() < 0.3 else rnd.choice(universe)])
    return {"tab": tab}


def gen_case(rnd, ctx, maxlen):
    target = rnd.choice(["plain", "plain", "plain", "obj", "obj", "obj_noitems"])
    kinds = ["VAll", "VInt", "VCInt", "VCInt"]
    kk, vk = rnd.choice(kinds), rnd.choice(kinds)
    if target == "plain":
        if rnd.random() < 0.25:
            kk = gen_tab(rnd, KEYS)
        if rnd.random() < 0.2:
            vk = gen_tab(rnd, VALS)
    arbitrary_init = target == "plain" and rnd.random() < 0.2
    vkeys = [k for k in KEYS if arbitrary_init or (vld(kk, k) == k)] or [0, 1]
    vvals = [v for v in VALS if arbitrary_init or (vld(vk, v) == v)] or [10, 11]
    if target != "plain":     # a Dict trait validates the initial value: keep it a fixed point
        vkeys = [k for k in vkeys if vld(kk, k) == k]
        vvals = [v for v in vvals if vld(vk, v) == v]
    init = [[k, rnd.choice(vvals)] for k in rnd.sample(vkeys, rnd.randint(0, min(4, len(vkeys))))]
    cur = dict((k, v) for k, v in init)   # generation hint only (tracks the mirror loosely)

    def pick_key():
        r = rnd.random()
        if r < 0.3 and cur:
            return rnd.choice(list(cur))
        if r < 0.55:
            twins = [k + 100 for k in cur if 0 <= k < 100]
            if isinstance(kk, dict):
                twins = [a for a, res in kk["tab"] if res in cur and a not in cur] or twins
            if twins:
                return rnd.choice(twins)
        if r < 0.9:
            return rnd.choice(KEYS[:8])
        return rnd.choice(KEYS)

    def single_key():
        # single-key operations also get unhashable keys (TypeError before or after validation)
        if rnd.random() < 0.06:
            ctx.count("key:unhashable")
            return 300
        return pick_key()

    def pick_val(k=None):
        r = rnd.random()
        if r < 0.15 and k is not None:
            kkv = vld(kk, k)
            if kkv in cur:
                return cur[kkv]                       # same value again: an operation that changes nothing
        if r < 0.2 and k is not None:
            kkv = vld(kk, k)
            if kkv in cur and 0 <= cur[kkv] < 100:
                return cur[kkv] + 100                 # ... after coercion
        if r < 0.85:
            return rnd.choice(VALS[:6])
        return rnd.choice(VALS)

    def pick_pairs():
        n = rnd.choice([0, 1, 1, 2, 2, 3, 4, 5])
        ps = []
        for _ in range(n):
            if ps and rnd.random() < 0.3:             # duplicate key (raw, or its coerced twin)
                k0 = rnd.choice(ps)[0]
                k = k0 if rnd.random() < 0.5 else (k0 + 100 if 0 <= k0 < 100 else k0 - 100 if 100 <= k0 < 200 else k0)
            else:
                k = pick_key()
            ps.append([k, pick_val(k)])
        return ps

    ops = []
    for _ in range(rnd.randint(1, maxlen)):
        k = rnd.choice(["SetItem"] * 3 + ["DelItem"] * 2 + ["Update"] * 3 + ["Ior"] * 2 + ["SetDefault"] * 3 +
                       ["SetDefault1", "Pop", "Pop", "PopD", "PopD", "PopItem", "Clear", "Ctor", "UpdateBad"])
        if k == "SetItem":
            key = single_key()
            op = [k, key, pick_val(key)]
        elif k == "DelItem":
            op = [k, single_key()]
        elif k == "Update":
            op = [k, rnd.choice(MAPPINGS + ITERABLES + ("map", "pairs", "pairs")), pick_pairs()]
            ctx.count("update-argument:" + op[1])
        elif k == "Ior":
            # dict.__ior__ itself accepts any mapping or iterable of pairs
            op = [k, rnd.choice(MAPPINGS + ITERABLES + ("map", "pairs", "pairs")), pick_pairs()]
            ctx.count("update-argument:" + op[1])
        elif k == "Ctor":
            op = [k, rnd.choice(["map", "pairs"]) if target == "plain" else "map", pick_pairs()]
        elif k == "UpdateBad":
            op = [k, pick_pairs(), rnd.choice([1, 3, 30])]
        elif k == "SetDefault":
            key = single_key()
            op = [k, key, pick_val(key)]
        elif k == "SetDefault1":
            op = [k, single_key()]
        elif k == "Pop":
            op = ["Pop", pick_key()]
        elif k == "PopD":
            op = ["Pop", pick_key(), pick_val()]
        else:
            op = [k]
        ops.append(op)
        ctx.count("op:" + (k if k != "PopD" else "Pop-with-default"))
        # loose hint update through the mirror
        if op[0] in ("SetItem", "SetDefault"):
            a, b = vld(kk, op[1]), vld(vk, op[2])
            if a is not None and a < 300 and b is not None and (op[0] == "SetItem" or op[1] not in cur):
                cur[a] = b
        elif op[0] in ("Update", "Ior", "Ctor"):
            vps = [(vld(kk, a), vld(vk, b)) for a, b in op[2]]
            if all(a is not None and b is not None for a, b in vps):
                if op[0] == "Ctor":
                    cur.clear()
                cur.update(vps)
            if len(set(a for a, _ in op[2])) < len(op[2]) or len(set(a for a, _ in vps)) < len(vps):
                ctx.count("update:duplicate-keys")
        elif op[0] in ("DelItem", "Pop"):
            cur.pop(op[1], None)
        elif op[0] == "Clear":
            cur.clear()
        elif op[0] == "PopItem" and cur:
            cur.pop(list(cur)[-1])
    ctx.count("key-validator:" + (kk if isinstance(kk, str) else "VTab"))
    ctx.count("value-validator:" + (vk if isinstance(vk, str) else "VTab"))
    ctx.count("target:" + target)
    ctx.count("history-length:%02d" % len(ops))
    return dict(kk=kk, vk=vk, target=target, init=init, ops=ops)


def corpus():
    """Triggers of the listed finding (F6), the F7 shape and one pass over every mutator: run first, on every run."""
    cs = []
    for target in ("plain", "obj", "obj_noitems"):
        # F6: setdefault with a key whose coerced form is present
        cs.append(dict(kk="VCInt", vk="VCInt", target=target, init=[[1, 10]],
                       ops=[["SetDefault", 101, 11], ["SetDefault", 101, 111], ["SetDefault1", 1]]))
        # F7 shape: an update that adds and changes, observed by notifier / observer / notifier
        cs.append(dict(kk="VCInt", vk="VAll", target=target, init=[[1, 10], [2, 11]],
                       ops=[["SetItem", 1, 12], ["Update", "pairs", [[101, 110], [3, 10], [103, 11], [1, 12]]],
                            ["Ior", "map", [[2, 11], [100, 10]]], ["SetItem", 2, 11]]))
        cs.append(dict(kk="VInt", vk="VInt", target=target, init=[[1, 10], [2, 11], [3, 12]],
                       ops=[["DelItem", 2], ["DelItem", 2], ["Pop", 7], ["Pop", 7, 10], ["Pop", 1, 10], ["Pop", 3],
                            ["SetItem", 101, 10], ["SetItem", 1, 110], ["Update", "pairs", [[1, 10], [101, 11]]],
                            ["SetDefault", 4, 12], ["SetDefault", 4, 200], ["SetDefault1", 0], ["PopItem"], ["Clear"],
                            ["Clear"], ["PopItem"], ["Update", "map", []], ["Ior", "pairs", []],
                            ["Ctor", "map", [[1, 10], [101, 11], [2, 12]]], ["SetItem", 2, 10], ["Ctor", "map", [[3, 10], [200, 10]]],
                            ["Ctor", "map", [[3, 110]]], ["PopItem"]]))
    cs.append(dict(kk={"tab": [[1, 2], [2, 3], [0, None]]}, vk={"tab": [[10, 11], [11, None]]}, target="plain",
                   init=[[1, 10], [2, 10]],
                   ops=[["SetItem", 1, 10], ["SetDefault", 1, 12], ["Update", "pairs", [[1, 10], [2, 12], [3, 10]]],
                        ["SetItem", 0, 10], ["SetItem", 3, 11], ["Pop", 2, 12], ["PopItem"]]))
    return cs


def grid(ctx, stride, offset):
    """Every single operation from every small state shape: key absent / present / present after coercion /
    rejected, with accepting, rejecting and coercing validators on every target (enumerated, not drawn)."""
    states = [[], [[1, 10]], [[1, 10], [2, 11]], [[2, 11], [1, 10]], [[1, 110]]]
    keys = [1, 2, 3, 101, 103, 200, 300]
    vals = [10, 12, 110, 200]
    ops = []
    for k in keys:
        ops += [["DelItem", k], ["SetDefault1", k]] + ([["Pop", k], ["Pop", k, 12]] if k < 300 else [])
        for v in vals:
            ops += [["SetItem", k, v], ["SetDefault", k, v]]
    ops += [["PopItem"], ["Clear"]]
    pair_lists = [[], [[1, 10]], [[1, 12]], [[3, 12]], [[101, 12]], [[1, 12], [101, 10]], [[3, 10], [103, 12]],
                  [[3, 10], [3, 12]], [[2, 12], [200, 10]], [[3, 200], [1, 12]], [[1, 10], [2, 11]], [[103, 110], [1, 12], [3, 10]]]
    for ps in pair_lists:
        for kind in ("map", "pairs", "proxy", "userdict", "chainmap", "ordered", "gen", "iterpairs"):
            ops += [["Update", kind, ps], ["Ior", kind, ps]]
        ops += [["Ctor", "map", ps], ["UpdateBad", ps, 3], ["UpdateBad", ps, 1]]
    cs, i = [], 0
    for target in ("plain", "obj", "obj_noitems"):
        for kk in ("VAll", "VInt", "VCInt"):
            for vk in ("VAll", "VInt", "VCInt"):
                for init in states:
                    if target != "plain" and not all(vld(kk, a) == a and vld(vk, b) == b for a, b in init):
                        continue
                    for op in ops:
                        i += 1
                        if i % stride == offset % stride:
                            cs.append(dict(kk=kk, vk=vk, target=target, init=init, ops=[op]))
    ctx.count("grid:single-operation-cases", len(cs))
    return cs


def run(ctx):
    ok, log = ctx.proofs(PROPS)
    ctx.cov["trusted_base"] += [
        "tools/drivers/c06_driver.py (atom <-> Python value mapping, recording notifiers / observe handler / items-trait "
        "handler) and tools/props/c06.py (generator, term writer)",
        "modelled, not verified: the built-in dict type incl. insertion order (Common/LMap.v), the traits observer "
        "framework between TraitDict.notify and the observe handler (only dict_event_factory is modelled); validators "
        "are inputs (VAll/VInt/VCInt/VTab tables in C06/Model.v mirror the driver's callables and Any/Int/CInt traits)",
    ]
    ctx.cov["rule"] = ("random operation histories over construction from raw items and all TraitDict mutators (__setitem__, __delitem__, update and |= "
                       "from mappings and pair lists with duplicate / coercion-colliding keys, setdefault with and without "
                       "value, pop with and without default, popitem, clear) on a stand-alone TraitDict and on the "
                       "TraitDictObject of Dict traits (with and without items event), key and value validators "
                       "accept-all / reject / coercing / arbitrary finite table; keys chosen present, absent, "
                       "present-after-coercion, rejected; a case is non-trivial if some step notifies or raises; "
                       "distinct = distinct (validators, target, initial contents, operation list); plus the enumerated grid of every "
                       "single operation (6 key atoms x 4 value atoms, 24 update/|= arguments) from 5 state shapes x 9 validator "
                       "pairs x 3 targets (thorough: all, quick: every 12th, offset by the seed)")
    rnd = random.Random(ctx.seed)
    n, maxlen = (1500, 10) if ctx.tier == "quick" else (16000, 30)
    if ctx.replay:
        cases = [json.load(open(ctx.replay))["replay"]["case"]]
    else:
        cases = corpus() + [gen_case(rnd, ctx, maxlen) for _ in range(n)]
        cases += grid(ctx, 1, 0) if ctx.tier == "thorough" else grid(ctx, 12, ctx.seed)
    for c in cases[:2] + cases[-2:]:
        ctx.sample(c)
    _evaluate = hist.evaluate

    def sharded(*a, **k):              # smaller shards: a 1000-history coqc process needs > 1 GB in the thorough tier
        k["shard"] = 400
        return _evaluate(*a, **k)
    hist.evaluate = sharded
    hist.run(ctx, "c06_driver.py", cases, to_term, HEADER, CASE_T, key_fn, describe, nontrivial,
             relation="C06.Corr.corr_codes (Model.step = TraitDict on every step)")
    proof_gate(ctx, ok, log, PROPS)
